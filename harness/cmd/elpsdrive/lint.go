package main

import (
	"encoding/json"
	"fmt"
	"os"
	"sort"

	"github.com/luthersystems/elps/analysis"
	"github.com/luthersystems/elps/lint"
	"github.com/luthersystems/elps/lisp"
	"github.com/luthersystems/elps/lisp/lisplib"
)

// lint: run the arity analyzers of `elps lint` on a source text.
//
//	in : {"id":..,"src":".."}
//	out: {"id":..,"diags":[{"analyzer","msg","line","col"}],"err":".."}
//
// registry: dump every name bound in package lisp of a fresh runtime with its kind and formals.
func init() {
	commands["lint"] = func(args []string) {
		out := newEmitter()
		defer out.flush()
		l := &lint.Linter{Analyzers: []*lint.Analyzer{lint.AnalyzerBuiltinArity, lint.AnalyzerIfArity, lint.AnalyzerUserArity}}
		eachLine(func(b []byte) {
			var in struct {
				ID  interface{} `json:"id"`
				Src string      `json:"src"`
			}
			if err := json.Unmarshal(b, &in); err != nil {
				fmt.Fprintln(os.Stderr, "bad input:", err)
				os.Exit(2)
			}
			diags, err := l.LintFileWithAnalysis([]byte(in.Src), "case.lisp", &analysis.Config{})
			r := J{"id": in.ID}
			if err != nil {
				r["err"] = err.Error()
			}
			var ds []interface{}
			for _, d := range diags {
				ds = append(ds, J{"analyzer": d.Analyzer, "msg": d.Message, "line": d.Pos.Line, "col": d.Pos.Col})
			}
			r["diags"] = ds
			out.emit(r)
		})
	}
	commands["registry"] = func(args []string) {
		out := newEmitter()
		defer out.flush()
		env := lisp.NewEnv(nil)
		if rc := lisp.InitializeUserEnv(env); rc.Type == lisp.LError {
			fmt.Fprintln(os.Stderr, rc)
			os.Exit(2)
		}
		pkgNames := []string{lisp.DefaultLangPackage}
		if len(args) > 0 && args[0] == "all" {
			// every package of the standard library as well, each record carrying its package
			if rc := lisplib.LoadLibrary(env); rc.Type == lisp.LError {
				fmt.Fprintln(os.Stderr, rc)
				os.Exit(2)
			}
			pkgNames = env.Runtime.Registry.PackageNames()
			sort.Strings(pkgNames)
		}
		for _, pn := range pkgNames {
			pkg := env.Runtime.Registry.Package(pn)
			names := pkg.SymbolNames()
			sort.Strings(names)
			for _, n := range names {
				if pn != lisp.DefaultLangPackage {
					if lv, _ := env.Runtime.Registry.Package(lisp.DefaultLangPackage).Symbol(n); lv != nil {
						continue // imported from the language package
					}
				}
				v, _ := pkg.Symbol(n)
				if v == nil || v.Type != lisp.LFun {
					continue
				}
				kind := "fun"
				if v.IsMacro() {
					kind = "macro"
				} else if v.IsSpecialOp() {
					kind = "op"
				}
				var formals []string
				if len(v.Cells) > 0 && v.Cells[0].Type == lisp.LSExpr {
					for _, c := range v.Cells[0].Cells {
						formals = append(formals, c.Str)
					}
				}
				out.emit(J{"name": n, "kind": kind, "formals": formals, "pkg": pn})
			}
		}
	}
}
