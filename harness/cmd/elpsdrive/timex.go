package main

import (
	"bytes"
	"context"
	"encoding/json"
	"fmt"
	"math"
	"os"
	"sync"
	"time"

	"github.com/luthersystems/elps/lisp"
	"github.com/luthersystems/elps/lisp/lisplib"
	"github.com/luthersystems/elps/parser"
)

// timex: the time package through its lisp-level builtins (property C15).
//
//	{"id","stamp":".."}    -> {"id","p":P,"pn":P}   P = {"ok","msg","fmt","fmtn","again":bool,"again_s":bool}
//	                           parse-rfc3339 / -nano; formatted back both ways; (time= t (parse-nano (format-nano t)));
//	                           second-granular equality for the plain form
//	{"id","pair":[a,b]}    -> {"id","eq","lt","gt","lt_rev","gt_rev","from":{"ok","ns"},"add_back":bool|nil,"from_add":[{"d","ok","same"}]}
//	{"id","duration":".."} -> {"id","ok","msg","ns":"decimal","s_bits","ms_bits"}
//	{"id","sleep":{"d","max","ceiling","deadline","cancelled","cancelat"}} (ms)  -> {"id","out","elapsed_ms"}   run concurrently at the end
func txEval(env *lisp.LEnv, src string) *lisp.LVal { return env.LoadString("tx", src) }

func txBool(v *lisp.LVal) interface{} {
	if v.Type == lisp.LError {
		return "error: " + safeStr(v)
	}
	return lisp.True(v)
}

type sleepCase struct {
	D         int64 `json:"d"`
	Max       int64 `json:"max"`
	Ceiling   int64 `json:"ceiling"`
	Deadline  int64 `json:"deadline"`
	Cancelled bool  `json:"cancelled"`
	CancelAt  int64 `json:"cancelat"`
}

// sleepPre is the time, in ms, between arming the cancellation and calling time:sleep in the last runSleep of this goroutine's
// case (returned through the message of the record: "pre=<ms>")
func runSleep(c sleepCase) (string, int64, string) {
	env := lisp.NewEnv(nil)
	env.Runtime.Reader = parser.NewReader()
	opts := []lisp.Config{lisp.WithStderr(&bytes.Buffer{})}
	if c.Ceiling > 0 {
		opts = append(opts, lisp.WithMaxSleep(time.Duration(c.Ceiling)*time.Millisecond))
	}
	if rc := lisp.InitializeUserEnv(env, opts...); rc.Type == lisp.LError {
		return "init-error", 0, safeStr(rc)
	}
	if rc := lisplib.LoadLibrary(env); rc.Type == lisp.LError {
		return "init-error", 0, safeStr(rc)
	}
	env.InPackage(lisp.String(lisp.DefaultUserPackage))
	env.PutGlobal(lisp.Symbol("tx-d"), lisp.Native(time.Duration(c.D)*time.Millisecond))
	src := "(time:sleep tx-d)"
	if c.Max != 0 {
		env.PutGlobal(lisp.Symbol("tx-max"), lisp.Native(time.Duration(c.Max)*time.Millisecond))
		src = "(time:sleep tx-d :max tx-max)"
	}
	armed := time.Now()
	ctx := context.Background()
	var cancel context.CancelFunc = func() {}
	needCtx := c.Deadline > 0 || c.Cancelled || c.CancelAt > 0
	if c.Deadline > 0 {
		ctx, cancel = context.WithTimeout(ctx, time.Duration(c.Deadline)*time.Millisecond)
	} else if needCtx {
		ctx, cancel = context.WithCancel(ctx)
	}
	defer cancel()
	if c.Cancelled {
		cancel()
	}
	if c.CancelAt > 0 {
		c2 := cancel
		if c.Deadline > 0 {
			var cc context.CancelFunc
			ctx, cc = context.WithCancel(ctx)
			c2 = cc
			defer cc()
		}
		t := time.AfterFunc(time.Duration(c.CancelAt)*time.Millisecond, c2)
		defer t.Stop()
	}
	start := time.Now()
	var res *lisp.LVal
	if needCtx {
		res = env.LoadStringContext(ctx, "tx", src)
	} else {
		res = env.LoadString("tx", src)
	}
	el := time.Since(start).Milliseconds()
	pre := fmt.Sprintf("pre=%d ", start.Sub(armed).Milliseconds())
	if res.Type == lisp.LError {
		return res.Str, el, pre + safeStr(res)
	}
	if res.IsNil() {
		return "nil", el, pre
	}
	return "value", el, pre + safeStr(res)
}

func init() {
	commands["timex"] = func(args []string) {
		out := newEmitter()
		defer out.flush()
		s, err := newSession(runCfg{})
		if err != nil {
			fmt.Fprintln(os.Stderr, err)
			os.Exit(2)
		}
		env := s.env
		type pending struct {
			id interface{}
			c  sleepCase
		}
		var sleeps []pending
		eachLine(func(b []byte) {
			var in struct {
				ID       interface{} `json:"id"`
				Stamp    *string     `json:"stamp"`
				Pair     []string    `json:"pair"`
				Duration *string     `json:"duration"`
				Sleep    *sleepCase  `json:"sleep"`
				Adds     []string    `json:"adds"`
			}
			if err := json.Unmarshal(b, &in); err != nil {
				fmt.Fprintln(os.Stderr, "bad input:", err)
				os.Exit(2)
			}
			r := J{"id": in.ID}
			switch {
			case in.Stamp != nil:
				env.PutGlobal(lisp.Symbol("tx-s"), lisp.String(*in.Stamp))
				for _, form := range []struct{ key, fn string }{{"p", "time:parse-rfc3339"}, {"pn", "time:parse-rfc3339-nano"}} {
					t := txEval(env, "(set 'tx-t ("+form.fn+" tx-s))")
					p := J{"ok": t.Type != lisp.LError}
					// the same string again, at once: whatever the first answer was, it is the answer
					t2 := txEval(env, "("+form.fn+" tx-s)")
					p["ok2"] = t2.Type != lisp.LError
					if t.Type != lisp.LError && t2.Type != lisp.LError {
						p["same2"] = txBool(txEval(env, "(time:time= tx-t ("+form.fn+" tx-s))"))
					}
					if t.Type == lisp.LError {
						p["msg"] = safeStr(t)
					} else {
						f1 := txEval(env, "(time:format-rfc3339 tx-t)")
						f2 := txEval(env, "(time:format-rfc3339-nano tx-t)")
						if f1.Type == lisp.LString {
							p["fmt"] = f1.Str
						}
						if f2.Type == lisp.LString {
							p["fmtn"] = f2.Str
						}
						p["again"] = txBool(txEval(env, "(time:time= tx-t (time:parse-rfc3339-nano (time:format-rfc3339-nano tx-t)))"))
						// to the second: the plain form drops the fraction, so the re-read instant is within [0, 1s) below t
						p["again_s"] = txBool(txEval(env, "(let ((u (time:parse-rfc3339 (time:format-rfc3339 tx-t)))) (and (not (time:time> u tx-t)) (< (time:duration-ns (time:time-from u tx-t)) 1000000000)))"))
					}
					r[form.key] = p
				}
			case in.Pair != nil:
				env.PutGlobal(lisp.Symbol("tx-a"), lisp.String(in.Pair[0]))
				env.PutGlobal(lisp.Symbol("tx-b"), lisp.String(in.Pair[1]))
				if t := txEval(env, "(set 'tx-ta (time:parse-rfc3339-nano tx-a)) (set 'tx-tb (time:parse-rfc3339-nano tx-b))"); t.Type == lisp.LError {
					r["err"] = safeStr(t)
					break
				}
				r["eq"] = txBool(txEval(env, "(time:time= tx-ta tx-tb)"))
				r["lt"] = txBool(txEval(env, "(time:time< tx-ta tx-tb)"))
				r["gt"] = txBool(txEval(env, "(time:time> tx-ta tx-tb)"))
				r["lt_rev"] = txBool(txEval(env, "(time:time< tx-tb tx-ta)"))
				r["gt_rev"] = txBool(txEval(env, "(time:time> tx-tb tx-ta)"))
				f := txEval(env, "(time:duration-ns (time:time-from tx-ta tx-tb))")
				if f.Type == lisp.LInt {
					r["from"] = J{"ok": true, "ns": fmt.Sprint(f.Int)}
				} else {
					r["from"] = J{"ok": false, "msg": safeStr(f)}
				}
				r["add_back"] = txBool(txEval(env, "(time:time= (time:time-add tx-ta (time:time-from tx-ta tx-tb)) tx-tb)"))
				var fa []interface{}
				for _, d := range in.Adds {
					env.PutGlobal(lisp.Symbol("tx-ds"), lisp.String(d))
					v := txEval(env, "(let ((d (time:parse-duration tx-ds))) (= (time:duration-ns (time:time-from tx-ta (time:time-add tx-ta d))) (time:duration-ns d)))")
					fa = append(fa, J{"d": d, "same": txBool(v)})
				}
				r["from_add"] = fa
			case in.Duration != nil:
				env.PutGlobal(lisp.Symbol("tx-ds"), lisp.String(*in.Duration))
				d := txEval(env, "(set 'tx-dd (time:parse-duration tx-ds))")
				r["ok"] = d.Type != lisp.LError
				if d.Type == lisp.LError {
					r["msg"] = safeStr(d)
					break
				}
				if n := txEval(env, "(time:duration-ns tx-dd)"); n.Type == lisp.LInt {
					r["ns"] = fmt.Sprint(n.Int)
				}
				if n := txEval(env, "(time:duration-s tx-dd)"); n.Type == lisp.LFloat {
					r["s_bits"] = fmt.Sprintf("%016x", math.Float64bits(n.Float))
				}
				if n := txEval(env, "(time:duration-ms tx-dd)"); n.Type == lisp.LFloat {
					r["ms_bits"] = fmt.Sprintf("%016x", math.Float64bits(n.Float))
				}
			case in.Sleep != nil:
				sleeps = append(sleeps, pending{in.ID, *in.Sleep})
				return
			}
			out.emit(r)
		})
		// sleeping costs nothing but wall clock: run the cases side by side, each in its own runtime
		const batch = 96
		for i := 0; i < len(sleeps); i += batch {
			j := i + batch
			if j > len(sleeps) {
				j = len(sleeps)
			}
			res := make([]J, j-i)
			var wg sync.WaitGroup
			for k := i; k < j; k++ {
				wg.Add(1)
				go func(k int) {
					defer wg.Done()
					o, el, msg := runSleep(sleeps[k].c)
					res[k-i] = J{"id": sleeps[k].id, "out": o, "elapsed_ms": el, "msg": msg}
				}(k)
			}
			wg.Wait()
			for _, r := range res {
				out.emit(r)
			}
		}
	}
}
