package main

import (
	"bytes"
	"context"
	"encoding/base64"
	"encoding/json"
	"fmt"
	"os"
	"strings"
	"time"

	"github.com/luthersystems/elps/lisp"
	"github.com/luthersystems/elps/lisp/lisplib"
	"github.com/luthersystems/elps/parser"
	"github.com/luthersystems/elps/parser/rdparser"
	"github.com/luthersystems/elps/parser/token"
)

// hostile: hand one source text to the host boundary and classify what comes back (property C03).
//
//	in : {"id":..,"src":"..","b64":"..","gen":{"kind":"nest","open":"(","close":")","n":N,"core":"x"} |
//	      {"kind":"repeat","unit":"'","n":N,"tail":"x"},
//	      "reader_only":bool,"maxsteps":N,"deadline_ms":N,"wedge_ms":N}
//	out: {"id","outcome":"value"|"error"|"internal-panic"|"escaped","cond","msg","ms","readers":{"strict":..,"ft":..,"fmt":..}}
//
// With reader_only the text is only read (strict, fault-tolerant and format-preserving readers), with no limits
// configured.  Otherwise it is loaded into a fresh runtime with the standard library under a step budget, the
// default stack / nesting / macro limits, a sleep ceiling and a context deadline.  A watchdog prints {"wedge":id}
// and exits 3 when the call does not come back; a fatal runtime error (stack exhaustion) kills the process, which
// the caller observes as an abnormal exit.
type hostileIn struct {
	ID  interface{} `json:"id"`
	Src string      `json:"src"`
	B64 string      `json:"b64"`
	Gen *struct {
		Kind  string `json:"kind"`
		Open  string `json:"open"`
		Close string `json:"close"`
		Core  string `json:"core"`
		Unit  string `json:"unit"`
		Tail  string `json:"tail"`
		N     int    `json:"n"`
	} `json:"gen"`
	ReaderOnly bool  `json:"reader_only"`
	MaxSteps   int64 `json:"maxsteps"`
	DeadlineMS int   `json:"deadline_ms"`
	WedgeMS    int   `json:"wedge_ms"`
}

func (in *hostileIn) text() (string, error) {
	switch {
	case in.Gen != nil && in.Gen.Kind == "nest":
		return strings.Repeat(in.Gen.Open, in.Gen.N) + in.Gen.Core + strings.Repeat(in.Gen.Close, in.Gen.N), nil
	case in.Gen != nil && in.Gen.Kind == "repeat":
		return strings.Repeat(in.Gen.Unit, in.Gen.N) + in.Gen.Tail, nil
	case in.B64 != "":
		b, err := base64.StdEncoding.DecodeString(in.B64)
		return string(b), err
	}
	return in.Src, nil
}

func guarded(f func() (string, string)) (outcome, msg string) {
	defer func() {
		if r := recover(); r != nil {
			outcome, msg = "escaped", fmt.Sprint(r)
		}
	}()
	return f()
}

func init() {
	commands["hostile"] = func(args []string) {
		out := newEmitter()
		defer out.flush()
		eachLine(func(b []byte) {
			var in hostileIn
			if err := json.Unmarshal(b, &in); err != nil {
				fmt.Fprintln(os.Stderr, "bad input:", err)
				os.Exit(2)
			}
			text, err := in.text()
			if err != nil {
				fmt.Fprintln(os.Stderr, "bad input:", err)
				os.Exit(2)
			}
			wedge := time.Duration(in.WedgeMS) * time.Millisecond
			if wedge == 0 {
				wedge = 60 * time.Second
			}
			done := make(chan struct{})
			go func() {
				select {
				case <-done:
				case <-time.After(wedge):
					out.flush()
					fmt.Printf("{\"wedge\":true,\"id\":%q}\n", fmt.Sprint(in.ID))
					os.Stdout.Sync()
					os.Exit(3)
				}
			}()
			rec := J{"id": in.ID, "bytes": len(text)}
			start := time.Now()
			if in.ReaderOnly {
				readers := J{}
				worst := "value"
				for name, read := range map[string]func() error{
					"strict": func() error {
						_, err := parser.NewReader().Read("hostile", strings.NewReader(text))
						return err
					},
					"ft": func() error {
						ft := rdparser.New(token.NewScanner("hostile", strings.NewReader(text))).ParseProgramFaultTolerant()
						if len(ft.Errors) > 0 {
							return ft.Errors[0]
						}
						return nil
					},
					"fmt": func() error {
						p := rdparser.NewFormatting(token.NewScanner("hostile", strings.NewReader(text)))
						_, err := p.ParseProgram()
						return err
					},
				} {
					o, m := guarded(func() (string, string) {
						if err := read(); err != nil {
							m := err.Error()
							if len(m) > 200 {
								m = m[:200]
							}
							return "error", m
						}
						return "value", ""
					})
					readers[name] = J{"outcome": o, "msg": m}
					if o == "escaped" {
						worst = o
					} else if o == "error" && worst == "value" {
						worst = o
					}
				}
				rec["readers"], rec["outcome"] = readers, worst
			} else {
				o, m := guarded(func() (string, string) {
					env := lisp.NewEnv(nil)
					env.Runtime.Reader = parser.NewReader()
					steps := in.MaxSteps
					if steps == 0 {
						steps = 1_000_000
					}
					rc := lisp.InitializeUserEnv(env, lisp.WithStderr(&bytes.Buffer{}), lisp.WithMaxSteps(steps), lisp.WithMaxSleep(5*time.Millisecond))
					if rc.Type == lisp.LError {
						fmt.Fprintln(os.Stderr, "init:", rc)
						os.Exit(2)
					}
					if rc := lisplib.LoadLibrary(env); rc.Type == lisp.LError {
						fmt.Fprintln(os.Stderr, "stdlib:", rc)
						os.Exit(2)
					}
					env.InPackage(lisp.String(lisp.DefaultUserPackage))
					dl := time.Duration(in.DeadlineMS) * time.Millisecond
					if dl == 0 {
						dl = 20 * time.Second
					}
					ctx, cancel := context.WithTimeout(context.Background(), dl)
					defer cancel()
					start = time.Now()
					res := env.LoadStringContext(ctx, "hostile", text)
					switch {
					case lisp.IsInternalPanic(res):
						return "internal-panic", safeStr(res)
					case res.Type == lisp.LError:
						rec["cond"] = res.Str
						return "error", safeStr(res)
					}
					return "value", ""
				})
				rec["outcome"], rec["msg"] = o, m
			}
			rec["ms"] = time.Since(start).Milliseconds()
			close(done)
			out.emit(rec)
			out.flush()
		})
	}
}
