package main

import (
	"bytes"
	"context"
	"encoding/json"
	"fmt"
	"math"
	"math/rand"
	"os"
	"sort"
	"strings"
	"sync/atomic"
	"time"

	"github.com/luthersystems/elps/lisp"
	"github.com/luthersystems/elps/lisp/lisplib"
	"github.com/luthersystems/elps/parser"
)

// matrix: apply every registered builtin, special operator and macro (language package and standard library) to
// argument tuples drawn from a pool of value kinds, THROUGH THE EVALUATOR, under execution limits, and classify
// each answer (property C03):
//
//	value | error(cond) | internal-panic (a recovered Go panic: lisp.IsInternalPanic) | escaped (a Go panic that
//	reached the host) | wedge (no answer within the watchdog: the process prints the call and exits 3)
//
//	in : {"id":..,"shard":i,"shards":n,"pool":"full"|"small","triples":"full"|N,"seed":..,"only":[names],"verbose":bool}
//	out: one record per callable {"name","kind","formals","calls","values","errors","conds":{..},"bad":[{"mode","args","what","msg"}]}
//
// Two calling conventions are used: "quoted" - (f 'v1 'v2 ..), every argument a value; and, for special operators
// and macros, "raw" - (f v1 v2 ..) with the values standing as unevaluated forms.
type mxKind struct {
	name string
	mk   func(env *lisp.LEnv) *lisp.LVal
}

const mxPrelude = `
(defun mx-loop-fn () (mx-loop-fn))
(set 'mx-id (lambda (x) x))
(set 'mx-thunk (lambda () 1))
(set 'mx-var (lambda (&rest xs) xs))
(set 'mx-err (lambda (&rest xs) (error 'mx-cond "hostile callback")))
(set 'mx-loop (lambda (&rest xs) (mx-loop-fn)))
(set 'mx-deep (lambda (&rest xs) (labels ((d (n) (+ 1 (d n)))) (d 1))))
(set 'mx-key (lambda (&key a b) (list a b)))
(set 'mx-two (lambda (a b) (list a b)))
(set 'mx-true (lambda (&rest xs) true))
(set 'mx-false (lambda (&rest xs) false))
(set 'mx-dangling-rest (lambda (x &rest) x))
(set 'mx-bare-rest (lambda (&rest) 1))
(set 'mx-dangling-optional (lambda (x &optional) x))
(set 'mx-bare-key (lambda (&key) 1))
(set 'mx-rest-two (lambda (&rest a b) a))
(set 'mx-opt-rest (lambda (a &optional b &rest r) (list a b r)))
(set 'mx-opt-key (lambda (&optional a &key k) (list a k)))
(set 'mx-num (lambda (&rest xs) 1))
(deftype mx-type (v) v)
`

func mxGlobal(name string) func(env *lisp.LEnv) *lisp.LVal {
	return func(env *lisp.LEnv) *lisp.LVal { return env.GetGlobal(lisp.Symbol(name)) }
}

func mxConst(f func() *lisp.LVal) func(env *lisp.LEnv) *lisp.LVal {
	return func(*lisp.LEnv) *lisp.LVal { return f() }
}

func ints(xs ...int) []*lisp.LVal {
	out := make([]*lisp.LVal, len(xs))
	for i, x := range xs {
		out[i] = lisp.Int(x)
	}
	return out
}

func mxPool(full bool) []mxKind {
	small := []mxKind{
		{"nil", mxConst(lisp.Nil)},
		{"true", mxConst(func() *lisp.LVal { return lisp.Bool(true) })},
		{"int0", mxConst(func() *lisp.LVal { return lisp.Int(0) })},
		{"int2", mxConst(func() *lisp.LVal { return lisp.Int(2) })},
		{"int-1", mxConst(func() *lisp.LVal { return lisp.Int(-1) })},
		{"intmax", mxConst(func() *lisp.LVal { return lisp.Int(math.MaxInt) })},
		{"intmin", mxConst(func() *lisp.LVal { return lisp.Int(math.MinInt) })},
		{"float1.5", mxConst(func() *lisp.LVal { return lisp.Float(1.5) })},
		{"nan", mxConst(func() *lisp.LVal { return lisp.Float(math.NaN()) })},
		{"inf", mxConst(func() *lisp.LVal { return lisp.Float(math.Inf(1)) })},
		{"str-empty", mxConst(func() *lisp.LVal { return lisp.String("") })},
		{"str-x", mxConst(func() *lisp.LVal { return lisp.String("x") })},
		{"str-badutf8", mxConst(func() *lisp.LVal { return lisp.String("a\xff\xfe\xc0z") })},
		{"sym-x", mxConst(func() *lisp.LVal { return lisp.Symbol("x") })},
		{"sym-list", mxConst(func() *lisp.LVal { return lisp.Symbol("list") })},
		{"sym-vector", mxConst(func() *lisp.LVal { return lisp.Symbol("vector") })},
		{"sym-bytes", mxConst(func() *lisp.LVal { return lisp.Symbol("bytes") })},
		{"sym-string", mxConst(func() *lisp.LVal { return lisp.Symbol("string") })},
		{"kw", mxConst(func() *lisp.LVal { return lisp.Symbol(":a") })},
		{"bytes-ab", mxConst(func() *lisp.LVal { return lisp.Bytes([]byte("ab")) })},
		{"bytes-nil", mxConst(func() *lisp.LVal { return lisp.Bytes(nil) })},
		{"list-ints", mxConst(func() *lisp.LVal { return lisp.QExpr(ints(1, 2, 3)) })},
		{"list-pairs", mxConst(func() *lisp.LVal {
			return lisp.QExpr([]*lisp.LVal{lisp.QExpr([]*lisp.LVal{lisp.String("a"), lisp.Int(1)}), lisp.QExpr([]*lisp.LVal{lisp.Symbol("b"), lisp.Int(2)})})
		})},
		{"vec-ints", mxConst(func() *lisp.LVal { return lisp.Vector(ints(1, 2)) })},
		{"vec-empty", mxConst(func() *lisp.LVal { return lisp.Vector(nil) })},
		{"array-2x2", mxConst(func() *lisp.LVal { return lisp.Array(lisp.QExpr(ints(2, 2)), ints(1, 2, 3, 4)) })},
		{"map-a", mxConst(func() *lisp.LVal { m := lisp.SortedMap(); m.MapSet("a", lisp.Int(1)); return m })},
		{"cyc-vec", mxConst(func() *lisp.LVal {
			cells := []*lisp.LVal{lisp.Int(1), lisp.Nil()}
			v := lisp.Vector(cells)
			cells[1] = v
			return v
		})},
		{"cyc-map", mxConst(func() *lisp.LVal { m := lisp.SortedMap(); m.MapSet("a", lisp.Int(1)); m.MapSet("self", m); return m })},
		{"error", mxConst(func() *lisp.LVal { return lisp.Errorf("boom") })},
		{"native", mxConst(func() *lisp.LVal { return lisp.Native(struct{ X int }{1}) })},
		{"fun-id", mxGlobal("mx-id")},
		{"fun-err", mxGlobal("mx-err")},
		{"fun-builtin", mxGlobal("car")},
		{"tagged", func(env *lisp.LEnv) *lisp.LVal { return env.TaggedValue(lisp.Symbol("mx-type"), lisp.Int(1)) }},
	}
	if !full {
		return small
	}
	long := strings.Repeat("ab", 5000)
	extra := []mxKind{
		{"false", mxConst(func() *lisp.LVal { return lisp.Bool(false) })},
		{"int1", mxConst(func() *lisp.LVal { return lisp.Int(1) })},
		{"int2^31", mxConst(func() *lisp.LVal { return lisp.Int(1 << 31) })},
		{"int1e6", mxConst(func() *lisp.LVal { return lisp.Int(1000000) })},
		{"float0", mxConst(func() *lisp.LVal { return lisp.Float(0) })},
		{"float-0", mxConst(func() *lisp.LVal { return lisp.Float(math.Copysign(0, -1)) })},
		{"-inf", mxConst(func() *lisp.LVal { return lisp.Float(math.Inf(-1)) })},
		{"float-huge", mxConst(func() *lisp.LVal { return lisp.Float(1e308) })},
		{"float-tiny", mxConst(func() *lisp.LVal { return lisp.Float(5e-324) })},
		{"float-neg", mxConst(func() *lisp.LVal { return lisp.Float(-2.5) })},
		{"str-num", mxConst(func() *lisp.LVal { return lisp.String("12") })},
		{"str-uni", mxConst(func() *lisp.LVal { return lisp.String("hé \U0001F600") })},
		{"str-long", mxConst(func() *lisp.LVal { return lisp.String(long) })},
		{"str-fmt", mxConst(func() *lisp.LVal { return lisp.String("{} {0} %s %d {") })},
		{"str-json", mxConst(func() *lisp.LVal { return lisp.String(`{"a":[1,{"b":null}]}`) })},
		// numbers at the edges of the machine integers, alone and inside a format directive (an index, a width, a count
		// read out of a string is where a hand-written digit loop wraps)
		{"str-fmt-maxint+1", mxConst(func() *lisp.LVal { return lisp.String("{9223372036854775808}") })},
		{"str-fmt-maxint", mxConst(func() *lisp.LVal { return lisp.String("{9223372036854775807} {}") })},
		{"str-fmt-2^64", mxConst(func() *lisp.LVal { return lisp.String("{18446744073709551616} { 9223372036854775809 }") })},
		{"str-fmt-neg", mxConst(func() *lisp.LVal { return lisp.String("{-1} {-9223372036854775808} {+1}") })},
		{"str-int-maxint+1", mxConst(func() *lisp.LVal { return lisp.String("9223372036854775808") })},
		{"str-int-minint-1", mxConst(func() *lisp.LVal { return lisp.String("-9223372036854775809") })},
		{"str-int-2^32", mxConst(func() *lisp.LVal { return lisp.String("4294967296") })},
		{"str-float-huge", mxConst(func() *lisp.LVal { return lisp.String("1e400") })},
		{"str-dur-huge", mxConst(func() *lisp.LVal { return lisp.String("9223372036854775808ns") })},
		{"str-time-edge", mxConst(func() *lisp.LVal { return lisp.String("9999-12-31T23:59:59.999999999-23:59") })},
		{"str-time", mxConst(func() *lisp.LVal { return lisp.String("2020-02-29T23:59:59.999999999+14:00") })},
		{"str-dur", mxConst(func() *lisp.LVal { return lisp.String("1ms") })},
		{"str-regex-bad", mxConst(func() *lisp.LVal { return lisp.String("(a[") })},
		{"str-path", mxConst(func() *lisp.LVal { return lisp.String("../a/./b//c") })},
		{"str-code", mxConst(func() *lisp.LVal { return lisp.String("(mx-loop-fn)") })},
		{"str-nul", mxConst(func() *lisp.LVal { return lisp.String("a\x00b") })},
		{"sym-qual", mxConst(func() *lisp.LVal { return lisp.Symbol("lisp:car") })},
		{"sym-rest", mxConst(func() *lisp.LVal { return lisp.Symbol("&rest") })},
		{"sym-true", mxConst(func() *lisp.LVal { return lisp.Symbol("true") })},
		{"sym-float", mxConst(func() *lisp.LVal { return lisp.Symbol("float") })},
		{"sym-int", mxConst(func() *lisp.LVal { return lisp.Symbol("int") })},
		{"sym-sorted-map", mxConst(func() *lisp.LVal { return lisp.Symbol("sorted-map") })},
		{"sym-unbound", mxConst(func() *lisp.LVal { return lisp.Symbol("mx-never-bound") })},
		{"sym-empty", mxConst(func() *lisp.LVal { return lisp.Symbol("") })},
		{"bytes-bin", mxConst(func() *lisp.LVal { return lisp.Bytes([]byte{0, 255, 128, 10}) })},
		{"list-mixed", mxConst(func() *lisp.LVal {
			return lisp.QExpr([]*lisp.LVal{lisp.Symbol("a"), lisp.String("b"), lisp.Float(3), lisp.Nil(), lisp.Bytes([]byte("z"))})
		})},
		{"list-nested", mxConst(func() *lisp.LVal {
			return lisp.QExpr([]*lisp.LVal{lisp.QExpr(ints(1, 2)), lisp.QExpr([]*lisp.LVal{lisp.Int(3), lisp.QExpr(ints(4))})})
		})},
		{"list-code", mxConst(func() *lisp.LVal {
			return lisp.QExpr([]*lisp.LVal{lisp.Symbol("lambda"), lisp.QExpr([]*lisp.LVal{lisp.Symbol("x")}), lisp.Symbol("x")})
		})},
		{"list-bindings", mxConst(func() *lisp.LVal {
			return lisp.QExpr([]*lisp.LVal{lisp.QExpr([]*lisp.LVal{lisp.Symbol("v"), lisp.Int(1)}), lisp.QExpr([]*lisp.LVal{lisp.Symbol("w"), lisp.Symbol("v")})})
		})},
		{"list-formals", mxConst(func() *lisp.LVal {
			return lisp.QExpr([]*lisp.LVal{lisp.Symbol("p"), lisp.Symbol("&optional"), lisp.Symbol("q"), lisp.Symbol("&rest"), lisp.Symbol("r")})
		})},
		// no self-containing LIST: lists have no mutator reachable from lisp (append! and friends take vectors),
		// so only an embedder could build one; self-containing vectors and maps are what programs can make
		{"list-long", mxConst(func() *lisp.LVal {
			xs := make([]*lisp.LVal, 3000)
			for i := range xs {
				xs[i] = lisp.Int(3000 - i)
			}
			return lisp.QExpr(xs)
		})},
		{"list-deep", mxConst(func() *lisp.LVal {
			v := lisp.QExpr(ints(1))
			for i := 0; i < 3000; i++ {
				v = lisp.QExpr([]*lisp.LVal{v})
			}
			return v
		})},
		{"vec-mixed", mxConst(func() *lisp.LVal {
			return lisp.Vector([]*lisp.LVal{lisp.String("b"), lisp.Int(1), lisp.Float(2.5), lisp.Symbol("s")})
		})},
		{"array-0d", mxConst(func() *lisp.LVal { return lisp.Array(lisp.QExpr(nil), []*lisp.LVal{lisp.Int(7)}) })},
		{"array-3d", mxConst(func() *lisp.LVal { return lisp.Array(lisp.QExpr(ints(2, 1, 2)), ints(1, 2, 3, 4)) })},
		{"array-nocells", mxConst(func() *lisp.LVal { return lisp.Array(lisp.QExpr(ints(3)), nil) })},
		{"array-zero-dim", mxConst(func() *lisp.LVal { return lisp.Array(lisp.QExpr(ints(0, 2)), nil) })},
		{"map-empty", mxConst(lisp.SortedMap)},
		{"map-nested", mxConst(func() *lisp.LVal {
			m := lisp.SortedMap()
			in := lisp.SortedMap()
			in.MapSet("k", lisp.Vector(ints(1)))
			m.MapSet("a", lisp.QExpr([]*lisp.LVal{lisp.Int(1), in}))
			m.MapSet(lisp.Symbol("b"), lisp.Bytes([]byte("z")))
			return m
		})},
		{"cyc-mutual", mxConst(func() *lisp.LVal {
			m := lisp.SortedMap()
			cells := []*lisp.LVal{lisp.Nil()}
			v := lisp.Vector(cells)
			cells[0] = m
			m.MapSet("v", v)
			return m
		})},
		{"native-nil", mxConst(func() *lisp.LVal { return lisp.Native(nil) })},
		{"native-ptr", mxConst(func() *lisp.LVal { x := 3; return lisp.Native(&x) })},
		{"native-chan", mxConst(func() *lisp.LVal { return lisp.Native(make(chan int)) })},
		{"native-time", mxConst(func() *lisp.LVal { return lisp.Native(time.Unix(0, 0)) })},
		{"native-dur", mxConst(func() *lisp.LVal { return lisp.Native(time.Duration(math.MaxInt64)) })},
		{"native-raw", mxConst(func() *lisp.LVal { r := json.RawMessage("1E1000"); return lisp.Native(&r) })},
		{"error-cond", mxConst(func() *lisp.LVal { return lisp.ErrorConditionf("mx-cond", "x %d", 1) })},
		{"quote", mxConst(func() *lisp.LVal { return lisp.Quote(lisp.Symbol("q")) })},
		{"fun-thunk", mxGlobal("mx-thunk")},
		{"fun-var", mxGlobal("mx-var")},
		{"fun-loop", mxGlobal("mx-loop")},
		{"fun-deep", mxGlobal("mx-deep")},
		{"fun-key", mxGlobal("mx-key")},
		{"fun-two", mxGlobal("mx-two")},
		{"fun-true", mxGlobal("mx-true")},
		{"fun-false", mxGlobal("mx-false")},
		// function values whose formal lists are malformed or unusual: lambda does not check them, the binder does at call
		// time - and every builtin that READS a function's formals (compose, flip, curry ...) meets them as they are
		{"fun-dangling-rest", mxGlobal("mx-dangling-rest")},
		{"fun-bare-rest", mxGlobal("mx-bare-rest")},
		{"fun-dangling-optional", mxGlobal("mx-dangling-optional")},
		{"fun-bare-key", mxGlobal("mx-bare-key")},
		{"fun-rest-two", mxGlobal("mx-rest-two")},
		{"fun-opt-rest", mxGlobal("mx-opt-rest")},
		{"fun-opt-key", mxGlobal("mx-opt-key")},
		{"fun-num", mxGlobal("mx-num")},
		{"fun-macro", mxGlobal("defun")},
		{"fun-op", mxGlobal("if")},
		{"fun-map", mxGlobal("map")},
		{"tagged-list", func(env *lisp.LEnv) *lisp.LVal {
			return env.TaggedValue(lisp.Symbol("mx-type"), lisp.QExpr(ints(1, 2)))
		}},
	}
	return append(small, extra...)
}

type mxCurrent struct {
	desc string
	at   time.Time
}

var mxNow atomic.Pointer[mxCurrent]

func mxEnv() (*lisp.LEnv, error) {
	env := lisp.NewEnv(nil)
	env.Runtime.Reader = parser.NewReader()
	rc := lisp.InitializeUserEnv(env,
		lisp.WithStderr(&bytes.Buffer{}),
		lisp.WithMaxSteps(100_000),
		lisp.WithMaxTailIterations(10_000),
		lisp.WithMaximumPhysicalStackHeight(500),
		lisp.WithMaxAlloc(100_000),
		lisp.WithMaxSleep(2*time.Millisecond),
	)
	if rc.Type == lisp.LError {
		return nil, fmt.Errorf("init: %v", rc)
	}
	if rc := lisplib.LoadLibrary(env); rc.Type == lisp.LError {
		return nil, fmt.Errorf("stdlib: %v", rc)
	}
	if rc := env.InPackage(lisp.String(lisp.DefaultUserPackage)); rc.Type == lisp.LError {
		return nil, fmt.Errorf("in-package: %v", rc)
	}
	if rc := env.LoadString("mx-prelude", mxPrelude); rc.Type == lisp.LError {
		return nil, fmt.Errorf("prelude: %v", rc)
	}
	return env, nil
}

type mxCallable struct {
	qname   string
	kind    string
	formals []string
}

func mxCallables() ([]mxCallable, error) {
	env, err := mxEnv()
	if err != nil {
		return nil, err
	}
	var out []mxCallable
	for _, pkgName := range env.Runtime.Registry.PackageNames() {
		if pkgName == lisp.DefaultUserPackage {
			continue
		}
		pkg := env.Runtime.Registry.Package(pkgName)
		for _, sym := range pkg.SymbolNames() {
			v, _ := pkg.Symbol(sym)
			if v == nil || v.Type != lisp.LFun || len(v.Cells) == 0 {
				continue
			}
			kind := "fun"
			if v.IsMacro() {
				kind = "macro"
			} else if v.IsSpecialOp() {
				kind = "op"
			}
			var formals []string
			if v.Cells[0].Type == lisp.LSExpr {
				for _, c := range v.Cells[0].Cells {
					formals = append(formals, c.Str)
				}
			}
			out = append(out, mxCallable{pkgName + ":" + sym, kind, formals})
		}
	}
	sort.Slice(out, func(i, j int) bool { return out[i].qname < out[j].qname })
	return out, nil
}

// arities to try: every count from 0 up to required+optional(+2 when variadic or keyed), capped at 4
func mxArities(formals []string) []int {
	req, opt, variadic := 0, 0, false
	mode := 0
	for _, f := range formals {
		switch f {
		case "&optional":
			mode = 1
		case "&rest":
			mode = 2
			variadic = true
		case "&key":
			mode = 3
			variadic = true
		default:
			switch mode {
			case 0:
				req++
			case 1:
				opt++
			}
		}
	}
	hi := req + opt
	if variadic {
		hi += 2
	}
	if hi > 4 {
		hi = 4
	}
	lo := req - 1
	if lo < 0 {
		lo = 0
	}
	if lo > hi {
		lo = hi
	}
	var out []int
	for n := lo; n <= hi; n++ {
		out = append(out, n)
	}
	return out
}

func safeStr(v *lisp.LVal) (s string) {
	defer func() {
		if r := recover(); r != nil {
			s = fmt.Sprintf("<unrenderable: %v>", r)
		}
	}()
	s = v.String()
	if len(s) > 300 {
		s = s[:300] + "..."
	}
	return s
}

func init() {
	commands["matrix"] = func(args []string) {
		out := newEmitter()
		defer out.flush()
		go func() { // watchdog: one evaluation may not take longer than 20 s under the configured limits
			for {
				time.Sleep(200 * time.Millisecond)
				if c := mxNow.Load(); c != nil && time.Since(c.at) > 20*time.Second {
					out.flush()
					fmt.Printf("{\"wedge\":%q}\n", c.desc)
					os.Stdout.Sync()
					os.Exit(3)
				}
			}
		}()
		eachLine(func(b []byte) {
			var in struct {
				ID      interface{} `json:"id"`
				Shard   int         `json:"shard"`
				Shards  int         `json:"shards"`
				Pool    string      `json:"pool"`
				Triples int         `json:"triples"` // 0: full cross product at arity >= 3, else that many sampled tuples
				Quads   int         `json:"quads"`   // small pool in every position at arity >= 3: 0 = full cross product, else samples
				Seed    int64       `json:"seed"`
				Only    []string    `json:"only"`
				Verbose bool        `json:"verbose"`
			}
			if err := json.Unmarshal(b, &in); err != nil {
				fmt.Fprintln(os.Stderr, "bad input:", err)
				os.Exit(2)
			}
			if in.Shards == 0 {
				in.Shards = 1
			}
			callables, err := mxCallables()
			if err != nil {
				fmt.Fprintln(os.Stderr, err)
				os.Exit(2)
			}
			only := map[string]bool{}
			for _, n := range in.Only {
				only[n] = true
			}
			pool := mxPool(in.Pool != "small")
			smallPool := mxPool(false)
			rnd := rand.New(rand.NewSource(in.Seed))
			for ci, c := range callables {
				if ci%in.Shards != in.Shard || (len(only) > 0 && !only[c.qname]) {
					continue
				}
				rec := J{"id": in.ID, "name": c.qname, "kind": c.kind, "formals": c.formals}
				conds := map[string]int{}
				msgs := map[string]int{}
				var bad []interface{}
				calls, values, errors := 0, 0, 0
				modes := []string{"quoted"}
				if c.kind != "fun" {
					modes = append(modes, "raw")
				}
				for _, n := range mxArities(c.formals) {
					for _, mode := range modes {
						env, err := mxEnv()
						if err != nil {
							fmt.Fprintln(os.Stderr, err)
							os.Exit(2)
						}
						// pass A: the full pool in the first three positions (later positions repeat them);
						// pass B (arity >= 3): the small pool in EVERY position, so that a type specifier, a
						// sequence, a start and an end can all be right at once
						type pass struct {
							pool    []mxKind
							vary    int
							samples int
						}
						passes := []pass{{pool, min(n, 3), in.Triples}}
						if n >= 3 {
							passes = append(passes, pass{smallPool, n, in.Quads})
						}
						for _, ps := range passes {
							pool, vary := ps.pool, ps.vary
							total := 1
							for i := 0; i < vary; i++ {
								total *= len(pool)
							}
							sampled := vary >= 3 && ps.samples > 0 && ps.samples < total
							count := total
							if sampled {
								count = ps.samples
							}
							idx := make([]int, vary)
							for t := 0; t < count; t++ {
								if sampled {
									for i := range idx {
										idx[i] = rnd.Intn(len(pool))
									}
								} else {
									x := t
									for i := vary - 1; i >= 0; i-- {
										idx[i] = x % len(pool)
										x /= len(pool)
									}
								}
								cells := make([]*lisp.LVal, 0, n+1)
								cells = append(cells, lisp.Symbol(c.qname))
								names := make([]string, n)
								for i := 0; i < n; i++ {
									k := pool[idx[i%max(vary, 1)]]
									names[i] = k.name
									v := k.mk(env)
									// a quoted list already evaluates to the list; wrapping it again would hand the
									// callee a quote object instead
									if mode == "quoted" && !(v.Type == lisp.LSExpr && v.IsQuoted()) {
										v = lisp.Quote(v)
									}
									cells = append(cells, v)
								}
								desc := fmt.Sprintf("(%s %s) [%s]", c.qname, strings.Join(names, " "), mode)
								if in.Verbose {
									fmt.Fprintln(os.Stderr, desc)
								}
								mxNow.Store(&mxCurrent{desc, time.Now()})
								res, escaped := mxEval(env, lisp.SExpr(cells))
								mxNow.Store(nil)
								calls++
								switch {
								case escaped != "":
									if len(bad) < 8 {
										bad = append(bad, J{"mode": mode, "args": names, "what": "escaped", "msg": escaped})
									}
								case lisp.IsInternalPanic(res):
									if len(bad) < 8 {
										bad = append(bad, J{"mode": mode, "args": names, "what": "internal-panic", "msg": safeStr(res)})
									}
								case res.Type == lisp.LError:
									errors++
									conds[res.Str]++
									if in.Verbose || len(msgs) < 12 {
										m := safeStr(res)
										if len(m) > 120 {
											m = m[:120]
										}
										msgs[m]++
									}
								default:
									values++
								}
								// a call may have switched package or redefined the prelude: restore what later calls rely on
								if env.Runtime.Package.Name != lisp.DefaultUserPackage {
									env.InPackage(lisp.String(lisp.DefaultUserPackage))
								}
							}
						}
					}
				}
				rec["calls"], rec["values"], rec["errors"], rec["conds"], rec["bad"], rec["msgs"] = calls, values, errors, conds, bad, msgs
				out.emit(rec)
				out.flush()
			}
		})
	}
}

func mxEval(env *lisp.LEnv, form *lisp.LVal) (res *lisp.LVal, escaped string) {
	defer func() {
		if r := recover(); r != nil {
			escaped = fmt.Sprint(r)
		}
	}()
	ctx, cancel := context.WithTimeout(context.Background(), 3*time.Second)
	defer cancel()
	return env.EvalContext(ctx, form), ""
}
