package main

import (
	"encoding/json"
	"fmt"
	"io/fs"
	"os"
	"path/filepath"
	"strings"
	"testing/fstest"

	"github.com/luthersystems/elps/lisp"
	"github.com/luthersystems/elps/parser"
)

// pathfs: build the tree of specs/PathFS.tla under <base>, enumerate the same case space on the real
// libraries and print every case that is SERVED, with the marker of the content that was returned.
//
//	in (stdin, one record): {"base":..,"maxc":N,"comps":[..],"prefixes":[..],"contexts":[..],"roots":[..],"eval_sample":K}
//	out: {"lib","root","prefix","ctx","comps":[..],"marker","via"}  (via = loadsource | load-file | LoadFile)
func init() {
	commands["pathfs"] = func(args []string) {
		out := newEmitter()
		defer out.flush()
		var in struct {
			Base     string   `json:"base"`
			MaxC     int      `json:"maxc"`
			Comps    []string `json:"comps"`
			Prefixes []string `json:"prefixes"`
			Contexts []string `json:"contexts"`
			Roots    []string `json:"roots"`
			EvalMod  int      `json:"eval_mod"`
		}
		eachLine(func(b []byte) {
			if err := json.Unmarshal(b, &in); err != nil {
				fmt.Fprintln(os.Stderr, err)
				os.Exit(2)
			}
		})
		base, err := filepath.EvalSymlinks(in.Base)
		if err != nil {
			fmt.Fprintln(os.Stderr, err)
			os.Exit(2)
		}
		W := filepath.Join(base, "W")
		must := func(err error) {
			if err != nil {
				fmt.Fprintln(os.Stderr, err)
				os.Exit(2)
			}
		}
		file := func(p, marker string) { must(os.WriteFile(filepath.Join(W, p), []byte("'"+marker+"\n"), 0o644)) }
		for _, d := range []string{"root/sub", "root2", "out", "plain/sub"} {
			must(os.MkdirAll(filepath.Join(W, d), 0o755))
		}
		file("root/a.lisp", "in-a")
		file("root/main.lisp", "in-main")
		file("root/sub/b.lisp", "in-b")
		file("root/sub/x.lisp", "in-x")
		file("root2/c.lisp", "out-c")
		file("out/secret.lisp", "out-secret")
		file("a.lisp", "out-wa")
		file("out/a.lisp", "out-oa")
		file("out/b.lisp", "out-ob")
		file("plain/a.lisp", "in-a")
		file("plain/main.lisp", "in-main")
		file("plain/sub/b.lisp", "in-b")
		file("plain/sub/x.lisp", "in-x")
		link := func(target, p string) { must(os.Symlink(target, filepath.Join(W, p))) }
		link("a.lisp", "root/lf_in")
		link("../out/secret.lisp", "root/lf_out")
		link(filepath.Join(W, "out"), "root/ld_out")
		link("sub", "root/ld_in")
		link("..", "root/sub/up")
		link("..", "root/ld_parent")
		link("nowhere", "root/dangling")
		link("loop", "root/loop")
		link(filepath.Join(W, "root"), "out/back")
		link("root", "rootlink")
		must(os.Chdir(filepath.Join(W, "root", "sub")))

		prefixPath := map[string]string{"abs-root": filepath.Join(W, "root"), "abs-W": W, "abs-root2": filepath.Join(W, "root2"),
			"abs-out": filepath.Join(W, "out"), "abs-rootlink": filepath.Join(W, "rootlink")}
		ctxLoc := map[string]string{"none": "", "main": filepath.Join(W, "root", "main.lisp"), "subx": filepath.Join(W, "root", "sub", "x.lisp")}
		fsCtxLoc := map[string]string{"none": "", "main": "main.lisp", "subx": "sub/x.lisp"}
		rootPath := map[string]string{"root": filepath.Join(W, "root"), "rootlink": filepath.Join(W, "rootlink")}
		marker := func(data []byte) string { return strings.TrimSpace(strings.TrimPrefix(string(data), "'")) }

		mapfs := fstest.MapFS{}
		for _, p := range []string{"a.lisp", "main.lisp", "sub/b.lisp", "sub/x.lisp"} {
			b, _ := os.ReadFile(filepath.Join(W, "plain", p))
			mapfs[p] = &fstest.MapFile{Data: b}
		}
		fsLibs := map[string]fs.FS{"mapfs": mapfs, "dirfs": os.DirFS(filepath.Join(W, "plain"))}

		ncase := 0
		var rec func(comps []string)
		visit := func(comps []string) {
			for _, prefix := range in.Prefixes {
				loc := strings.Join(comps, "/")
				if prefix != "rel" {
					loc = prefixPath[prefix] + "/" + loc
				}
				for _, ctx := range in.Contexts {
					for _, root := range in.Roots {
						ncase++
						lib := &lisp.RelativeFileSystemLibrary{RootDir: rootPath[root]}
						_, trueloc, data, err := lib.LoadSource(lisp.NewSourceContext("ctx", ctxLoc[ctx]), loc)
						if err == nil {
							out.emit(J{"lib": "root", "root": root, "prefix": prefix, "ctx": ctx, "comps": comps, "marker": marker(data), "via": "loadsource", "trueloc": strings.TrimPrefix(trueloc, base)})
						}
						// through the evaluator: (load-file loc) written in the loading file, and the LoadFile entry point
						if in.EvalMod > 0 && (err == nil || ncase%in.EvalMod == 0) {
							env := lisp.NewEnv(nil)
							env.Runtime.Reader = parser.NewReader()
							env.Runtime.Library = lib
							if rc := lisp.InitializeUserEnv(env); rc.Type == lisp.LError {
								must(fmt.Errorf("%v", rc))
							}
							src := fmt.Sprintf("(load-file %q)", loc)
							var v *lisp.LVal
							if ctx == "none" {
								v = env.LoadString("nowhere", src)
							} else {
								v = env.LoadLocation(filepath.Base(ctxLoc[ctx]), ctxLoc[ctx], strings.NewReader(src))
							}
							if v.Type == lisp.LSymbol {
								out.emit(J{"lib": "root", "root": root, "prefix": prefix, "ctx": ctx, "comps": comps, "marker": v.Str, "via": "load-file"})
							}
							if ctx == "none" {
								v = env.LoadFile(loc)
								if v.Type == lisp.LSymbol {
									out.emit(J{"lib": "root", "root": root, "prefix": prefix, "ctx": ctx, "comps": comps, "marker": v.Str, "via": "LoadFile"})
								}
							}
						}
					}
					if prefix == "rel" || prefix == "abs-root" || prefix == "abs-W" {
						for name, fsys := range fsLibs {
							lib := &lisp.FSLibrary{FS: fsys}
							_, _, data, err := lib.LoadSource(lisp.NewSourceContext("ctx", fsCtxLoc[ctx]), loc)
							if err == nil {
								out.emit(J{"lib": "fs", "root": "root", "prefix": prefix, "ctx": ctx, "comps": comps, "marker": marker(data), "via": name})
							}
						}
					}
				}
			}
		}
		rec = func(comps []string) {
			if len(comps) > 0 {
				visit(comps)
			}
			if len(comps) == in.MaxC {
				return
			}
			for _, c := range in.Comps {
				rec(append(append([]string{}, comps...), c))
			}
		}
		rec(nil)
		// sessions: ONE runtime loads from several files in turn, two of which share their base name in different
		// directories (root/main.lisp and root/sub/main.lisp); whatever was loaded before, a relative location
		// resolves against the directory of the file doing the loading NOW
		must(os.WriteFile(filepath.Join(W, "root", "sub", "main.lisp"), []byte("'in-submain\n"), 0o644))
		sessCtx := map[string]string{"main": filepath.Join(W, "root", "main.lisp"), "subx": filepath.Join(W, "root", "sub", "x.lisp"),
			"submain": filepath.Join(W, "root", "sub", "main.lisp")}
		orders := [][]string{{"main", "submain", "main"}, {"submain", "main", "submain"}, {"main", "subx", "submain", "main"},
			{"subx", "submain", "main", "subx"}, {"main", "main", "submain", "submain"}}
		for _, root := range in.Roots {
			for oi, order := range orders {
				for _, target := range []string{"a.lisp", "b.lisp", "../a.lisp", "sub/b.lisp", "sub/../a.lisp"} {
					lib := &lisp.RelativeFileSystemLibrary{RootDir: rootPath[root]}
					env := lisp.NewEnv(nil)
					env.Runtime.Reader = parser.NewReader()
					env.Runtime.Library = lib
					if rc := lisp.InitializeUserEnv(env); rc.Type == lisp.LError {
						must(fmt.Errorf("%v", rc))
					}
					for step, ctx := range order {
						v := env.LoadLocation(filepath.Base(sessCtx[ctx]), sessCtx[ctx], strings.NewReader(fmt.Sprintf("(load-file %q)", target)))
						m := ""
						if v.Type == lisp.LSymbol {
							m = v.Str
						}
						out.emit(J{"session": true, "root": root, "order": oi, "step": step, "ctx": ctx, "comps": strings.Split(target, "/"), "marker": m})
					}
				}
			}
		}
		// a RELATIVE root directory ("." and spellings that clean to it) with the process standing in it: every
		// location of the enumeration again, context-less and from loading files given by relative locations
		must(os.Chdir(filepath.Join(W, "root")))
		dotCtx := map[string]string{"none": "", "main": "main.lisp", "subx": "sub/x.lisp"}
		var recDot func(comps []string)
		visitDot := func(comps []string) {
			loc := strings.Join(comps, "/")
			for _, spell := range []string{".", "./", "sub/.."} {
				for ctx, cl := range dotCtx {
					ncase++
					lib := &lisp.RelativeFileSystemLibrary{RootDir: spell}
					_, _, data, err := lib.LoadSource(lisp.NewSourceContext("ctx", cl), loc)
					if err == nil {
						out.emit(J{"dotroot": true, "root": spell, "ctx": ctx, "comps": comps, "marker": marker(data), "via": "loadsource"})
					}
					if ctx == "none" && (err == nil || ncase%7 == 0) {
						env := lisp.NewEnv(nil)
						env.Runtime.Reader = parser.NewReader()
						env.Runtime.Library = lib
						if rc := lisp.InitializeUserEnv(env); rc.Type == lisp.LError {
							must(fmt.Errorf("%v", rc))
						}
						if v := env.LoadFile(loc); v.Type == lisp.LSymbol {
							out.emit(J{"dotroot": true, "root": spell, "ctx": ctx, "comps": comps, "marker": v.Str, "via": "LoadFile"})
						}
					}
				}
			}
		}
		recDot = func(comps []string) {
			if len(comps) > 0 {
				visitDot(comps)
			}
			if len(comps) == in.MaxC {
				return
			}
			for _, c := range in.Comps {
				recDot(append(append([]string{}, comps...), c))
			}
		}
		recDot(nil)
		// ... and a relative root that CLIMBS ("..", spellings that clean to it, and a path through the root's parent)
		// with the process standing in root/sub: the root is still W/root
		must(os.Chdir(filepath.Join(W, "root", "sub")))
		upCtx := map[string]string{"none": "", "main": "../main.lisp", "subx": "x.lisp"}
		var recUp func(comps []string)
		visitUp := func(comps []string) {
			loc := strings.Join(comps, "/")
			for _, spell := range []string{"..", "../", "./..", "../../root"} {
				for ctx, cl := range upCtx {
					ncase++
					lib := &lisp.RelativeFileSystemLibrary{RootDir: spell}
					_, _, data, err := lib.LoadSource(lisp.NewSourceContext("ctx", cl), loc)
					if err == nil {
						out.emit(J{"dotroot": true, "cwd": "sub", "root": spell, "ctx": ctx, "comps": comps, "marker": marker(data), "via": "loadsource"})
					}
					if ctx == "none" && (err == nil || ncase%7 == 0) {
						env := lisp.NewEnv(nil)
						env.Runtime.Reader = parser.NewReader()
						env.Runtime.Library = lib
						if rc := lisp.InitializeUserEnv(env); rc.Type == lisp.LError {
							must(fmt.Errorf("%v", rc))
						}
						if v := env.LoadFile(loc); v.Type == lisp.LSymbol {
							out.emit(J{"dotroot": true, "cwd": "sub", "root": spell, "ctx": ctx, "comps": comps, "marker": v.Str, "via": "LoadFile"})
						}
					}
				}
			}
		}
		recUp = func(comps []string) {
			if len(comps) > 0 {
				visitUp(comps)
			}
			if len(comps) == in.MaxC {
				return
			}
			for _, c := range in.Comps {
				recUp(append(append([]string{}, comps...), c))
			}
		}
		recUp(nil)
		// ... and the SAME root text meaning another directory later in the process: "." after the process has moved to
		// W/out, and a root given through a link (W/cur) that is repointed from root to out between two loads.  Whatever
		// is served must lie inside what the root text resolves to NOW.
		hist := func(tag string, lib *lisp.RelativeFileSystemLibrary, locs []string) {
			for _, loc := range locs {
				ncase++
				_, _, data, err := lib.LoadSource(lisp.NewSourceContext("ctx", ""), loc)
				m := ""
				if err == nil {
					m = marker(data)
				}
				out.emit(J{"history": true, "tag": tag, "root": lib.RootDir, "loc": loc, "marker": m})
			}
		}
		must(os.Chdir(filepath.Join(W, "root")))
		hist("dot-in-root", &lisp.RelativeFileSystemLibrary{RootDir: "."}, []string{"a.lisp", "sub/b.lisp", "../out/secret.lisp", filepath.Join(W, "out", "a.lisp")})
		must(os.Chdir(filepath.Join(W, "out")))
		hist("dot-in-out", &lisp.RelativeFileSystemLibrary{RootDir: "."}, []string{"a.lisp", "secret.lisp", "../root/a.lisp", "../root/sub/b.lisp", filepath.Join(W, "root", "a.lisp"), filepath.Join(W, "root", "main.lisp")})
		must(os.Chdir(filepath.Join(W, "root", "sub")))
		hist("dot-in-sub", &lisp.RelativeFileSystemLibrary{RootDir: "."}, []string{"b.lisp", "../a.lisp", "../main.lisp", filepath.Join(W, "root", "a.lisp"), filepath.Join(W, "out", "a.lisp")})
		cur := filepath.Join(W, "cur")
		must(os.Symlink("root", cur))
		hist("cur-is-root", &lisp.RelativeFileSystemLibrary{RootDir: cur}, []string{filepath.Join(cur, "a.lisp"), filepath.Join(W, "root", "a.lisp"), filepath.Join(W, "out", "a.lisp")})
		must(os.Remove(cur))
		must(os.Symlink("out", cur))
		hist("cur-is-out", &lisp.RelativeFileSystemLibrary{RootDir: cur}, []string{filepath.Join(cur, "a.lisp"), filepath.Join(W, "root", "a.lisp"), filepath.Join(W, "root", "sub", "b.lisp"), filepath.Join(W, "out", "secret.lisp")})
		must(os.Remove(cur))
		must(os.Symlink(filepath.Join("root", "sub"), cur))
		hist("cur-is-sub", &lisp.RelativeFileSystemLibrary{RootDir: cur}, []string{filepath.Join(cur, "b.lisp"), filepath.Join(W, "root", "a.lisp"), filepath.Join(W, "out", "a.lisp"), filepath.Join(W, "root", "sub", "x.lisp")})
		out.emit(J{"summary": true, "cases": ncase})
	}
}
