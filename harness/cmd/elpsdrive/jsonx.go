package main

import (
	"encoding/base64"
	"encoding/json"
	"fmt"
	"math"
	"os"
	"strconv"

	"github.com/luthersystems/elps/lisp"
)

// jsonx: json:load-* on a document under the four option combinations, or json:dump-* on a value built from a tree
// and the round trips through load (property C13).  Everything goes through the lisp-level builtins of a session
// with the standard library; documents and values are bound to globals, never spliced into source text.
//
//	in : {"id":..,"doc_b64":".."}                          -> {"id","loads":{"dd":R,"sd":R,"de":R,"se":R}}   (s: string-numbers, e: exact-integers)
//	     {"id":..,"value":T}                               -> {"id","dump":{"n":D,"s":D},"bytes_same":bool,"back":{"dd":R,..},"equal":{"dd":bool,..}}
//	R = {"ok":bool,"cond":"..","msg":"..","v":T}   D = {"ok","b64","cond","msg"}
//	T = {"t":"nil"|"sym"|"int"|"float"|"str"|"bytes"|"arr"|"list"|"map"|"other", "n":"decimal", "bits":"hex64", "r":"shortest", "b64":"..", "c":[T..], "k":[T..]}
func jtree(v *lisp.LVal, depth int) interface{} {
	if depth > 200 {
		return J{"t": "deep"}
	}
	switch v.Type {
	case lisp.LInt:
		return J{"t": "int", "n": strconv.Itoa(v.Int)}
	case lisp.LFloat:
		return J{"t": "float", "bits": fmt.Sprintf("%016x", math.Float64bits(v.Float)), "r": strconv.FormatFloat(v.Float, 'g', -1, 64)}
	case lisp.LString:
		return J{"t": "str", "b64": base64.StdEncoding.EncodeToString([]byte(v.Str))}
	case lisp.LSymbol:
		return J{"t": "sym", "s": v.Str}
	case lisp.LBytes:
		return J{"t": "bytes", "b64": base64.StdEncoding.EncodeToString(v.Bytes())}
	case lisp.LSExpr:
		if len(v.Cells) == 0 {
			return J{"t": "nil"}
		}
		c := make([]interface{}, len(v.Cells))
		for i, x := range v.Cells {
			c[i] = jtree(x, depth+1)
		}
		return J{"t": "list", "c": c}
	case lisp.LArray:
		if v.Cells[0].Len() != 1 {
			return J{"t": "other", "s": "array-nd"}
		}
		cells := v.Cells[1].Cells
		c := make([]interface{}, len(cells))
		for i, x := range cells {
			c[i] = jtree(x, depth+1)
		}
		return J{"t": "arr", "c": c}
	case lisp.LSortMap:
		ents := v.MapEntries()
		ks := make([]interface{}, 0, len(ents.Cells))
		cs := make([]interface{}, 0, len(ents.Cells))
		for _, e := range ents.Cells {
			ks = append(ks, jtree(e.Cells[0], depth+1))
			cs = append(cs, jtree(e.Cells[1], depth+1))
		}
		return J{"t": "map", "k": ks, "c": cs}
	}
	return J{"t": "other", "s": v.Type.String()}
}

type jval struct {
	T    string  `json:"t"`
	N    string  `json:"n"`
	Bits string  `json:"bits"`
	B64  string  `json:"b64"`
	C    []*jval `json:"c"`
	K    []*jval `json:"k"`
}

func (j *jval) build() (*lisp.LVal, error) {
	switch j.T {
	case "null":
		return lisp.Nil(), nil
	case "true":
		return lisp.Bool(true), nil
	case "false":
		return lisp.Bool(false), nil
	case "int":
		n, err := strconv.ParseInt(j.N, 10, 64)
		return lisp.Int(int(n)), err
	case "float":
		b, err := strconv.ParseUint(j.Bits, 16, 64)
		return lisp.Float(math.Float64frombits(b)), err
	case "str":
		b, err := base64.StdEncoding.DecodeString(j.B64)
		return lisp.String(string(b)), err
	case "sym":
		b, err := base64.StdEncoding.DecodeString(j.B64)
		return lisp.Symbol(string(b)), err
	case "arr", "list":
		cells := make([]*lisp.LVal, len(j.C))
		for i, c := range j.C {
			v, err := c.build()
			if err != nil {
				return nil, err
			}
			cells[i] = v
		}
		if j.T == "list" {
			return lisp.QExpr(cells), nil
		}
		return lisp.Array(nil, cells), nil
	case "obj":
		m := lisp.SortedMap()
		for i, k := range j.K {
			kv, err := k.build()
			if err != nil {
				return nil, err
			}
			v, err := j.C[i].build()
			if err != nil {
				return nil, err
			}
			if rc := m.MapSet(kv, v); rc.Type == lisp.LError {
				return nil, fmt.Errorf("map-set: %v", rc)
			}
		}
		return m, nil
	}
	return nil, fmt.Errorf("unknown value kind %q", j.T)
}

var jsonModes = []struct{ name, sn, ex string }{{"dd", "false", "false"}, {"sd", "true", "false"}, {"de", "false", "true"}, {"se", "true", "true"}}

func jres(v *lisp.LVal) J {
	if v.Type == lisp.LError {
		m := safeStr(v)
		return J{"ok": false, "cond": v.Str, "msg": m, "panic": lisp.IsInternalPanic(v)}
	}
	return J{"ok": true, "v": jtree(v, 0)}
}

func init() {
	commands["jsonx"] = func(args []string) {
		out := newEmitter()
		defer out.flush()
		s, err := newSession(runCfg{})
		if err != nil {
			fmt.Fprintln(os.Stderr, err)
			os.Exit(2)
		}
		env := s.env
		eachLine(func(b []byte) {
			var in struct {
				ID     interface{} `json:"id"`
				DocB64 *string     `json:"doc_b64"`
				Value  *jval       `json:"value"`
			}
			if err := json.Unmarshal(b, &in); err != nil {
				fmt.Fprintln(os.Stderr, "bad input:", err)
				os.Exit(2)
			}
			r := J{"id": in.ID}
			if in.DocB64 != nil {
				doc, err := base64.StdEncoding.DecodeString(*in.DocB64)
				if err != nil {
					fmt.Fprintln(os.Stderr, "bad input:", err)
					os.Exit(2)
				}
				env.PutGlobal(lisp.Symbol("jx-doc"), lisp.String(string(doc)))
				env.PutGlobal(lisp.Symbol("jx-bytes"), lisp.Bytes(doc))
				loads := J{}
				for _, m := range jsonModes {
					a := env.LoadString("jx", fmt.Sprintf("(json:load-string jx-doc :string-numbers %s :exact-integers %s)", m.sn, m.ex))
					bb := env.LoadString("jx", fmt.Sprintf("(json:load-bytes jx-bytes :string-numbers %s :exact-integers %s)", m.sn, m.ex))
					ra, rb := jres(a), jres(bb)
					ja, _ := json.Marshal(ra["v"])
					jb, _ := json.Marshal(rb["v"])
					ra["bytes_same"] = ra["ok"] == rb["ok"] && string(ja) == string(jb) && ra["cond"] == rb["cond"]
					// the same document again, at once: the answer is a function of the text
					a2 := jres(env.LoadString("jx", fmt.Sprintf("(json:load-string jx-doc :string-numbers %s :exact-integers %s)", m.sn, m.ex)))
					j2, _ := json.Marshal(a2["v"])
					ra["again_same"] = ra["ok"] == a2["ok"] && string(ja) == string(j2) && ra["cond"] == a2["cond"]
					loads[m.name] = ra
				}
				r["loads"] = loads
			} else if in.Value != nil {
				v, err := in.Value.build()
				if err != nil {
					fmt.Fprintln(os.Stderr, "bad value:", err)
					os.Exit(2)
				}
				env.PutGlobal(lisp.Symbol("jx-val"), v)
				dump := J{}
				for _, sn := range []struct{ name, flag string }{{"n", "false"}, {"s", "true"}} {
					a := env.LoadString("jx", fmt.Sprintf("(json:dump-string jx-val :string-numbers %s)", sn.flag))
					bb := env.LoadString("jx", fmt.Sprintf("(json:dump-bytes jx-val :string-numbers %s)", sn.flag))
					a2 := env.LoadString("jx", fmt.Sprintf("(json:dump-string jx-val :string-numbers %s)", sn.flag))
					d := J{"ok": a.Type != lisp.LError}
					if a.Type == lisp.LError {
						d["cond"], d["msg"] = a.Str, safeStr(a)
						d["bytes_same"] = bb.Type == lisp.LError
					} else {
						d["b64"] = base64.StdEncoding.EncodeToString([]byte(a.Str))
						d["bytes_same"] = bb.Type == lisp.LBytes && string(bb.Bytes()) == a.Str
						d["again_same"] = a2.Type == lisp.LString && a2.Str == a.Str
					}
					dump[sn.name] = d
				}
				r["dump"] = dump
				back, equal := J{}, J{}
				for _, m := range jsonModes {
					// the writer and the reader are given the same :string-numbers setting
					src := fmt.Sprintf("(json:load-string (json:dump-string jx-val :string-numbers %s) :string-numbers %s :exact-integers %s)", m.sn, m.sn, m.ex)
					a := env.LoadString("jx", src)
					back[m.name] = jres(a)
					e := env.LoadString("jx", "(equal? jx-val "+src+")")
					equal[m.name] = e.Type != lisp.LError && lisp.True(e)
				}
				r["back"], r["equal"] = back, equal
			}
			out.emit(r)
		})
	}
}
