//go:build verif

package main

import (
	"bufio"
	"encoding/json"
	"flag"
	"fmt"
	"os"
	"path/filepath"
	"strings"

	"github.com/luthersystems/elps/lisp"
)

// trace: run programs with the verif hooks installed and write the event
// stream (B2 binding).  One "reset" record precedes every runtime's events; a
// program whose event count exceeds -max is dropped whole (never truncated in
// the middle of an evaluation) and reported in the summary.
//
//	in  (stdin): {"id":..,"seq":[src,...],"cfg":{...}}   or  -files a.lisp b.lisp ...
//	out (-o)   : ndjson events {"ev","a","b","x","y","h"}
//	stdout     : one summary record
type tev struct {
	Ev string `json:"ev"`
	A  int    `json:"a"`
	B  int    `json:"b"`
	X  string `json:"x"`
	Y  string `json:"y"`
	H  int    `json:"h"`
}

func init() {
	commands["trace"] = func(args []string) {
		fs := flag.NewFlagSet("trace", flag.ExitOnError)
		files := fs.Bool("files", false, "arguments are .lisp files")
		maxEv := fs.Int("max", 200000, "max events per program")
		outp := fs.String("o", "trace.ndjson", "output file")
		maxSteps := fs.Int64("maxsteps", 3000000, "step budget per evaluation for -files")
		_ = fs.Parse(args)
		f, err := os.Create(*outp)
		if err != nil {
			fmt.Fprintln(os.Stderr, err)
			os.Exit(2)
		}
		w := bufio.NewWriterSize(f, 1<<20)
		enc := json.NewEncoder(w)
		programs, dropped, events, panics := 0, 0, 0, 0
		var droppedIDs []string
		runOne := func(id string, cfg runCfg, seq []string, dir string, modes ...string) {
			s, err := newSession(cfg)
			if err != nil {
				fmt.Fprintln(os.Stderr, err)
				os.Exit(2)
			}
			if dir != "" {
				s.env.Runtime.Library = &lisp.RelativeFileSystemLibrary{RootDir: dir}
			}
			buf := make([]tev, 0, 1024)
			n := 0
			lisp.SetVerifTracer(s.env.Runtime, func(e lisp.VerifEvent) {
				n++
				if n <= *maxEv {
					buf = append(buf, tev{e.Ev, e.A, e.B, e.X, e.Y, e.H})
				}
			})
			for i, src := range seq {
				if i < len(modes) && modes[i] == "call" {
					s.callEntry(fmt.Sprintf("%s-%d", id, i), src)
				} else {
					s.load(fmt.Sprintf("%s-%d", id, i), src)
				}
			}
			lisp.SetVerifTracer(s.env.Runtime, nil)
			if n > *maxEv {
				dropped++
				droppedIDs = append(droppedIDs, id)
				return
			}
			programs++
			_ = enc.Encode(tev{Ev: "reset", X: id})
			for _, kv := range []struct {
				k string
				v int
			}{{"maxphys", cfg.MaxPhys}, {"maxlog", cfg.MaxLog}, {"maxtail", cfg.MaxTail}, {"maxnest", cfg.MaxNest}, {"maxsteps", int(cfg.MaxSteps)}, {"trooff", boolInt(cfg.TRO == "off")}} {
				if kv.v != 0 {
					_ = enc.Encode(tev{Ev: "cfg", X: kv.k, A: kv.v})
					events++
				}
			}
			for _, e := range buf {
				if e.Ev == "panic" {
					panics++
				}
				_ = enc.Encode(e)
			}
			events += len(buf) + 1
		}
		if *files {
			for _, p := range fs.Args() {
				b, err := os.ReadFile(p)
				if err != nil {
					fmt.Fprintln(os.Stderr, err)
					os.Exit(2)
				}
				runOne(p, runCfg{MaxSteps: *maxSteps}, []string{string(b)}, filepath.Dir(p))
			}
		} else {
			eachLine(func(b []byte) {
				var in runIn
				if err := json.Unmarshal(b, &in); err != nil {
					fmt.Fprintln(os.Stderr, "bad input:", err)
					os.Exit(2)
				}
				seq := in.Seq
				if len(seq) == 0 {
					seq = []string{in.Src}
				}
				cfgs := in.Cfgs
				if len(cfgs) == 0 {
					if in.Cfg != nil {
						cfgs = []runCfg{*in.Cfg}
					} else {
						cfgs = []runCfg{{}}
					}
				}
				for ci, c := range cfgs {
					runOne(fmt.Sprintf("%v/%d", in.ID, ci), c, seq, "", in.Modes...)
				}
			})
		}
		w.Flush()
		f.Close()
		out := newEmitter()
		out.emit(J{"programs": programs, "dropped": dropped, "events": events, "panics": panics, "dropped_ids": strings.Join(droppedIDs, ",")})
		out.flush()
	}
}

func boolInt(b bool) int {
	if b {
		return 1
	}
	return 0
}
