package main

import (
	"encoding/json"
	"fmt"
	"math/rand"
	"os"
	"strings"
	"time"

	"github.com/luthersystems/elps/lisp"
	"github.com/luthersystems/elps/parser"
)

// launder: the registry-wide sweep behind two statements (C09, C11).
//
//	C09  a quoted literal yields the same value every time it is evaluated, WHATEVER was done to values obtained
//	     from it earlier, and the parsed program's fingerprint never changes;
//	C11  an operation not marked as mutating never changes a value that existed before the call.
//
// Every function of every package (language package and standard library) is applied, through the evaluator, to
// argument tuples in which ONE position holds a tracked value - a program literal (or a cdr / rest / slice view of
// one) for C09, a runtime-built list / vector / map bound to a global for C11 - and the other positions hold
// plausible companions (type specifiers, indices, comparators, path steps, fresh containers).  After the call
//
//	(a) every tracked value must still print as before unless the callable is a documented mutator (the set is a
//	    constant of Launder.tla) AND the changed value is the runtime value it was handed;
//	(b) the RESULT is then scrambled in place by every mutator the language has (stable-sort with an order-reversing
//	    comparator, elpspath:?set!, append!, assoc!, dissoc!, recursively into its elements), and afterwards every
//	    program literal must still evaluate to its original value and the program's structural fingerprint must be
//	    what it was when the program was parsed.
//
//	in : {"id":..,"shard":i,"shards":n,"samples":N,"seed":..,"only":[names]}
//	out: one record per callable {"name","calls","bad":[{"what","call","tracked","before","after"}]}
const ldProgram = `
(defun lit-ints () '(30 10 20))
(defun lit-nested () '((3 1 2) (9 8 7)))
(defun lit-strs () '("c" "a" "b"))
(defun lit-pairs () '(("b" 2) ("a" 1)))
(defun lit-long () '(9 8 7 6 5 4 3 2 1 0))
(defun lit-quoted () '('(3 1 2) '(9 8)))
(defmacro ld-def-lit (n) (quasiquote (defun (unquote n) () '(30 10 20))))
(ld-def-lit lit-via-macro)
(defun ld-all-literals () (list (lit-ints) (lit-nested) (lit-strs) (lit-pairs) (lit-long) (lit-quoted)))
(defun ld-scramble (x d)
  (ignore-errors
    (cond
      ((<= d 0) ())
      ((or (list? x) (vector? x))
       (progn
         (ignore-errors (map 'list (lambda (e) (ld-scramble e (- d 1))) x))
         (ignore-errors (stable-sort (lambda (a b) true) x))
         (ignore-errors (elpspath:?set! x 0 'MUT))
         (ignore-errors (append! x 'MUT2))
         ()))
      ((sorted-map? x)
       (progn
         (ignore-errors (map 'list (lambda (k) (ld-scramble (get x k) (- d 1))) (keys x)))
         (ignore-errors (assoc! x "mut" 1))
         (ignore-errors (dissoc! x (first (keys x))))
         ()))
      ((tagged-value? x) (ld-scramble (user-data x) (- d 1)))
      (:else ()))))
`

// tracked program literals (C09): expression, and what it must always print as
var ldLiterals = []string{
	"(lit-ints)", "(lit-nested)", "(lit-strs)", "(lit-pairs)", "(lit-long)", "(lit-quoted)",
	"(cdr (lit-long))", "(rest (lit-ints))", "(slice 'list (lit-long) 2 6)", "(car (lit-nested))",
	// a literal written inside a macro TEMPLATE: the function the expansion defines holds a rebuilt copy of it
	"(lit-via-macro)",
}

// tracked runtime values (C11): global name and constructor
var ldGlobals = [][2]string{
	{"g-list", "(list 30 10 20)"},
	{"g-vec", "(vector 30 10 20)"},
	{"g-map", "(sorted-map \"b\" 2 \"a\" 1)"},
	{"g-nested", "(list (list 3 1 2) (vector 9 8 7))"},
	{"g-bytes", "(to-bytes \"cab\")"},
}

var ldOthers = []string{
	"'list", "'vector", "0", "1", "3", "<", "identity", "\"a\"", "()",
	"'(range 0 3)", "'(range 1 3)", "(vector 0 0 0)", "(list 7 8 9)", "(sorted-map \"a\" 1)", "(lambda (&rest xs) true)",
	// (the rest is used at arities 1 and 2 only)
	"'string", "2", "10", "car", "'a", "true", "'(range 0 2)", "(lambda (x) x)", "(lambda (a b) (< a b))",
}

const ldCoreOthers = 15

// tracked values used at arity >= 3 (indices into the tracked list: literals first, then the globals)
var ldCoreTracked = []int{0, 1, 4, 6, 7, 8, 10, 11, 12, 13}

// forms: special operators, macros and lambda-list shapes through which a value can travel; {T} is the tracked value
var ldForms = [][2]string{
	{"form:qq-lone-splice", "(quasiquote ((unquote-splicing {T})))"},
	{"form:qq-splice-after", "(quasiquote (1 (unquote-splicing {T})))"},
	{"form:qq-splice-before", "(quasiquote ((unquote-splicing {T}) 2))"},
	{"form:qq-two-splices", "(quasiquote ((unquote-splicing {T}) (unquote-splicing {T})))"},
	{"form:qq-unquote", "(quasiquote (unquote {T}))"},
	{"form:qq-unquote-in-list", "(quasiquote ((unquote {T})))"},
	{"form:qq-nested-splice", "(quasiquote (a ((unquote-splicing {T}))))"},
	{"form:qq-quoted-splice", "(quasiquote '((unquote-splicing {T})))"},
	{"form:eval-qq", "(eval (quasiquote (quote (unquote {T}))))"},
	{"form:let", "(let ((x {T})) x)"},
	{"form:let*", "(let* ((x {T}) (y x)) y)"},
	{"form:progn", "(progn 1 {T})"},
	{"form:if", "(if true {T} ())"},
	{"form:cond", "(cond (false 1) (:else {T}))"},
	{"form:or", "(or () {T})"},
	{"form:and", "(and true {T})"},
	{"form:dotimes-result", "(dotimes (i 1 {T}) i)"},
	{"form:thread-first", "(thread-first {T} (identity))"},
	{"form:thread-last", "(thread-last {T} (identity))"},
	{"form:thread-first-cdr", "(thread-first {T} (cdr) (identity))"},
	{"form:lambda-id", "((lambda (x) x) {T})"},
	{"form:lambda-rest", "((lambda (&rest xs) xs) {T})"},
	{"form:lambda-rest-car", "(car ((lambda (&rest xs) xs) {T}))"},
	{"form:lambda-optional", "((lambda (&optional a b) a) {T})"},
	{"form:lambda-key", "((lambda (&key k) k) :k {T})"},
	{"form:apply-rest", "(apply (lambda (&rest xs) xs) {T})"},
	{"form:apply-req-rest", "(apply (lambda (a &rest xs) xs) 0 {T})"},
	{"form:apply-list", "(apply list {T})"},
	{"form:funcall-rest", "(funcall (lambda (&rest xs) (car xs)) {T})"},
	{"form:map-rest", "(map 'list (lambda (&rest xs) xs) {T})"},
	{"form:map-id", "(map 'list (lambda (x) x) (list {T} {T}))"},
	{"form:foldl-acc", "(foldl (lambda (acc e) (cons e acc)) () (list {T}))"},
	{"form:labels", "(labels ((f (x) x)) (f {T}))"},
	{"form:flet-rest", "(flet ((f (&rest xs) xs)) (f {T}))"},
	{"form:macro-arg", "(progn (defmacro ld-m (x) (quasiquote (quote (unquote x)))) (eval (list 'ld-m {T})))"},
	{"form:macro-rest", "(progn (defmacro ld-mr (&rest xs) (quasiquote (quote (unquote xs)))) (eval (cons 'ld-mr {T})))"},
	{"form:macroexpand", "(macroexpand (list 'quote {T}))"},
	{"form:handler-data", "(handler-bind ((ld-c (lambda (c d) d))) (error 'ld-c {T}))"},
	{"form:handler-rest-data", "(handler-bind ((ld-c (lambda (c &rest d) d))) (error 'ld-c {T} 1))"},
	{"form:ignore-errors", "(ignore-errors {T})"},
	{"form:set-get", "(progn (set 'ld-tmp {T}) ld-tmp)"},
	{"form:set!", "(let ((x ())) (set! x {T}) x)"},
	{"form:closure", "(funcall (let ((x {T})) (lambda () x)))"},
	{"form:curry", "(funcall (curry-function identity {T}))"},
	{"form:compose", "(funcall (compose identity identity) {T})"},
	{"form:flip", "(funcall (flip (lambda (a b) b)) {T} 1)"},
	{"form:unpack", "(unpack (lambda (&rest xs) xs) {T})"},
	{"form:expr", "((expr %) {T})"},
	{"form:expr-rest", "((expr %&rest) {T})"},
	{"form:load-string", "(progn (set 'ld-tmp {T}) (load-string \"ld-tmp\"))"},
	{"form:get-default", "(get-default (sorted-map) \"k\" {T})"},
	{"form:new", "(progn (deftype ld-box (v) v) (user-data (new ld-box {T})))"},
}

type ldState struct {
	env    *lisp.LEnv
	exprs  []*lisp.LVal
	fp     uint64
	litOK  []string // printed form of every literal expression at start
	globOK []string
	allLit, allLitOK, allGlob, allGlobOK string
}

func ldNew() (*ldState, error) {
	exprs, err := parser.NewReader().Read("shared-program", strings.NewReader(ldProgram))
	if err != nil {
		return nil, err
	}
	env, err := mxEnv()
	if err != nil {
		return nil, err
	}
	env.Runtime.Reader = &sharedReader{exprs: exprs, real: parser.NewReader()}
	if rc := env.Load("shared-program", strings.NewReader("")); rc.Type == lisp.LError {
		return nil, fmt.Errorf("launder program: %v", rc)
	}
	st := &ldState{env: env, exprs: exprs, fp: lisp.SealedASTFingerprint(exprs)}
	for _, l := range ldLiterals {
		st.litOK = append(st.litOK, safeStr(env.LoadString("ld", l)))
	}
	for _, g := range ldGlobals {
		if rc := env.LoadString("ld", fmt.Sprintf("(set '%s %s)", g[0], g[1])); rc.Type == lisp.LError {
			return nil, fmt.Errorf("global %s: %v", g[0], rc)
		}
		st.globOK = append(st.globOK, safeStr(env.LoadString("ld", g[0])))
	}
	st.allLit = "(list " + strings.Join(ldLiterals, " ") + ")"
	st.allLitOK = safeStr(env.LoadString("ld", st.allLit))
	names := []string{}
	for _, g := range ldGlobals {
		names = append(names, g[0])
	}
	st.allGlob = "(list " + strings.Join(names, " ") + ")"
	st.allGlobOK = safeStr(env.LoadString("ld", st.allGlob))
	return st, nil
}

// check returns a description of the first tracked value that no longer reads as it did
func (st *ldState) check(literalsOnly bool, skipGlobal int) (string, string, string) {
	if got := safeStr(st.env.LoadString("ld", st.allLit)); got != st.allLitOK {
		for i, l := range ldLiterals {
			if got := safeStr(st.env.LoadString("ld", l)); got != st.litOK[i] {
				return l, st.litOK[i], got
			}
		}
		return "literals", st.allLitOK, got
	}
	if fp := lisp.SealedASTFingerprint(st.exprs); fp != st.fp {
		return "fingerprint", fmt.Sprint(st.fp), fmt.Sprint(fp)
	}
	if literalsOnly {
		return "", "", ""
	}
	if skipGlobal < 0 {
		if got := safeStr(st.env.LoadString("ld", st.allGlob)); got == st.allGlobOK {
			return "", "", ""
		}
	}
	for i, g := range ldGlobals {
		if i == skipGlobal {
			continue
		}
		if got := safeStr(st.env.LoadString("ld", g[0])); got != st.globOK[i] {
			return g[0], st.globOK[i], got
		}
	}
	return "", "", ""
}

func init() {
	commands["launder"] = func(args []string) {
		out := newEmitter()
		defer out.flush()
		go func() {
			for {
				time.Sleep(200 * time.Millisecond)
				if c := mxNow.Load(); c != nil && time.Since(c.at) > 20*time.Second {
					out.flush()
					fmt.Printf("{\"wedge\":%q}\n", c.desc)
					os.Stdout.Sync()
					os.Exit(3)
				}
			}
		}()
		eachLine(func(b []byte) {
			var in struct {
				ID      interface{} `json:"id"`
				Shard   int         `json:"shard"`
				Shards  int         `json:"shards"`
				Samples int         `json:"samples"`
				Seed    int64       `json:"seed"`
				Only    []string    `json:"only"`
			}
			if err := json.Unmarshal(b, &in); err != nil {
				fmt.Fprintln(os.Stderr, "bad input:", err)
				os.Exit(2)
			}
			if in.Shards == 0 {
				in.Shards = 1
			}
			if in.Samples == 0 {
				in.Samples = 300
			}
			callables, err := mxCallables()
			if err != nil {
				fmt.Fprintln(os.Stderr, err)
				os.Exit(2)
			}
			only := map[string]bool{}
			for _, n := range in.Only {
				only[n] = true
			}
			rnd := rand.New(rand.NewSource(in.Seed))
			// tracked expressions: literals first, then the globals
			var tracked []string
			tracked = append(tracked, ldLiterals...)
			for _, g := range ldGlobals {
				tracked = append(tracked, g[0])
			}
			for ci, c := range callables {
				if ci%in.Shards != in.Shard || (len(only) > 0 && !only[c.qname]) || c.kind != "fun" {
					continue
				}
				// callables that would end the process, read files or sleep are not part of this sweep
				if strings.HasPrefix(c.qname, "lisp:load-") || c.qname == "time:sleep" || c.qname == "lisp:in-package" || c.qname == "lisp:set" {
					continue
				}
				var bad []interface{}
				calls := 0
				counts := map[string]int{"literal": 0, "macrolit": 0, "fingerprint": 0, "target": 0, "other": 0}
				for _, n := range mxArities(c.formals) {
					if n == 0 {
						continue
					}
					st, err := ldNew()
					if err != nil {
						fmt.Fprintln(os.Stderr, err)
						os.Exit(2)
					}
					// arities 1 and 2: every tracked value x every companion; arity 3: the core pools, exhaustive;
					// arity 4: the core pools, sampled
					nt, no := len(tracked), len(ldOthers)
					if n >= 3 {
						nt, no = len(ldCoreTracked), ldCoreOthers
					}
					total := nt * n
					for i := 1; i < n; i++ {
						total *= no
					}
					count := total
					sampled := n >= 4 && in.Samples < total
					if sampled {
						count = in.Samples
					}
					for t := 0; t < count; t++ {
						x := t
						if sampled {
							x = rnd.Intn(total)
						}
						ti := x % nt
						if n >= 3 {
							ti = ldCoreTracked[ti]
						}
						x /= nt
						pos := x % n
						x /= n
						argv := make([]string, n)
						for i := 0; i < n; i++ {
							if i == pos {
								argv[i] = tracked[ti]
								continue
							}
							argv[i] = ldOthers[x%no]
							x /= no
						}
						call := fmt.Sprintf("(%s %s)", c.qname, strings.Join(argv, " "))
						isLit := ti < len(ldLiterals)
						mxNow.Store(&mxCurrent{call, time.Now()})
						st.env.LoadString("ld", "(set 'ld-result ())")
						res, escaped := ldEval(st.env, "(set 'ld-result "+call+")")
						calls++
						failed := escaped != "" || res.Type == lisp.LError
						// (a) what the call itself changed (whether a changed ARGUMENT is a violation depends on the callable being a
						// documented mutator: Launder.tla decides, the driver only classifies)
						what, before, after := st.check(false, -1)
						if what == "" && !failed {
							// (b) scramble the result in place; the literals and the program must not notice
							ldEval(st.env, "(ld-scramble ld-result 3)")
							what, before, after = st.check(true, -1)
							if what != "" {
								what = "after the result was changed in place: " + what
							}
						} else if what != "" {
							what = "changed by the call: " + what
						}
						mxNow.Store(nil)
						if st.env.Runtime.Package.Name != lisp.DefaultUserPackage {
							st.env.InPackage(lisp.String(lisp.DefaultUserPackage))
						}
						if what != "" {
							class := "other"
							switch {
							case strings.HasSuffix(what, "fingerprint"):
								class = "fingerprint"
							case strings.HasSuffix(what, "(lit-via-macro)"):
								class = "macrolit"
							case strings.Contains(what, "(lit-") || strings.HasSuffix(what, "literals"):
								class = "literal"
							case strings.HasSuffix(what, ": "+tracked[ti]):
								class = "target"
							}
							counts[class]++
							if counts[class] <= 6 {
								bad = append(bad, J{"class": class, "what": what, "call": call, "tracked": tracked[ti], "before": before, "after": after})
							}
							// the runtime now holds a damaged value: start again from a fresh parse
							st, err = ldNew()
							if err != nil {
								fmt.Fprintln(os.Stderr, err)
								os.Exit(2)
							}
						} else if !isLit {
							// the result may BE the tracked runtime value (identity, car of a nested list, ...) and scrambling it
							// changed that value legitimately, as a documented mutator does: rebuild the globals
							for _, g := range ldGlobals {
								st.env.LoadString("ld", fmt.Sprintf("(set '%s %s)", g[0], g[1]))
							}
						}
					}
				}
				out.emit(J{"id": in.ID, "name": c.qname, "calls": calls, "counts": counts, "bad": bad})
				out.flush()
			}
			// special operators, macros and lambda-list shapes
			for fi, f := range ldForms {
				if fi%in.Shards != in.Shard || (len(only) > 0 && !only[f[0]]) {
					continue
				}
				var bad []interface{}
				calls := 0
				counts := map[string]int{"literal": 0, "macrolit": 0, "fingerprint": 0, "target": 0, "other": 0}
				st, err := ldNew()
				if err != nil {
					fmt.Fprintln(os.Stderr, err)
					os.Exit(2)
				}
				for ti, tv := range tracked {
					call := strings.ReplaceAll(f[1], "{T}", tv)
					isLit := ti < len(ldLiterals)
					mxNow.Store(&mxCurrent{call, time.Now()})
					st.env.LoadString("ld", "(set 'ld-result ())")
					res, escaped := ldEval(st.env, "(set 'ld-result "+call+")")
					calls++
					failed := escaped != "" || res.Type == lisp.LError
					what, before, after := st.check(false, -1)
					if what == "" && !failed {
						ldEval(st.env, "(ld-scramble ld-result 3)")
						what, before, after = st.check(true, -1)
						if what != "" {
							what = "after the result was changed in place: " + what
						}
					} else if what != "" {
						what = "changed by the call: " + what
					}
					mxNow.Store(nil)
					if what != "" {
						class := "other"
						switch {
						case strings.HasSuffix(what, "fingerprint"):
							class = "fingerprint"
						case strings.HasSuffix(what, "(lit-via-macro)"):
							class = "macrolit"
						case strings.Contains(what, "(lit-") || strings.HasSuffix(what, "literals"):
							class = "literal"
						case strings.HasSuffix(what, ": "+tv):
							class = "target"
						}
						counts[class]++
						if counts[class] <= 6 {
							bad = append(bad, J{"class": class, "what": what, "call": call, "tracked": tv, "before": before, "after": after})
						}
						st, err = ldNew()
						if err != nil {
							fmt.Fprintln(os.Stderr, err)
							os.Exit(2)
						}
					} else if !isLit {
						for _, g := range ldGlobals {
							st.env.LoadString("ld", fmt.Sprintf("(set '%s %s)", g[0], g[1]))
						}
					}
				}
				out.emit(J{"id": in.ID, "name": f[0], "calls": calls, "counts": counts, "bad": bad})
				out.flush()
			}
		})
	}
}

func ldEval(env *lisp.LEnv, src string) (res *lisp.LVal, escaped string) {
	defer func() {
		if r := recover(); r != nil {
			escaped = fmt.Sprint(r)
			res = lisp.Nil()
		}
	}()
	return env.LoadString("ld", src), ""
}
