package main

import (
	"encoding/json"
	"fmt"
	"io"
	"os"
	"strings"
	"sync"

	"github.com/luthersystems/elps/lisp"
	"github.com/luthersystems/elps/parser"
)

// shared: one parsed program shared by several runtimes on different goroutines (C09).
//
//	in : {"id":..,"program":src,"scripts":[[form,...],...],"sched":[r,...] | null,"loads":n}
//	out: {"id":..,"fp_before","fp_after","results":[[..]],"solo":[[..]],"lit_after":[..],"reload_equal":bool}
//
// The program is parsed ONCE; every runtime receives the same []*LVal through a Reader that hands out the
// pre-parsed slice.  With "sched" the operations are executed in exactly that order (one gate per
// operation); without it the goroutines run freely (for the race detector).  "solo" is each script run
// alone against a FRESH parse in a fresh runtime.
type sharedReader struct {
	exprs []*lisp.LVal
	real  lisp.Reader
}

func (r *sharedReader) Read(name string, rd io.Reader) ([]*lisp.LVal, error) {
	if name == "shared-program" {
		return r.exprs, nil
	}
	return r.real.Read(name, rd)
}

// a builtin table of the embedder, built once with plain lisp.Formals and registered in every runtime
var sharedHostTable = []lisp.LBuiltinDef{
	&hostFn{"host-add2", lisp.Formals("a", "b"), func(env *lisp.LEnv, args *lisp.LVal) *lisp.LVal {
		sum := 0
		for _, c := range args.Cells {
			if c.Type == lisp.LInt {
				sum += c.Int
			}
		}
		return lisp.Int(sum)
	}},
}

// sharedOp evaluates one script operation; (host-widen) is Go-level configuration of this runtime only: its owner
// appends an optional parameter to ITS copy of host-add2's formal argument list.
func sharedOp(env *lisp.LEnv, form string) *lisp.LVal {
	switch form {
	case "(host-widen)":
		f := env.Runtime.Package.Get(lisp.Symbol("host-add2"))
		if f.Type != lisp.LFun {
			return f
		}
		f.Cells[0].Cells = append(f.Cells[0].Cells, lisp.Symbol(lisp.OptArgSymbol), lisp.Symbol("c"))
		return lisp.Int(1)
	case "(host-call)":
		return env.LoadString("op", "(handler-bind ((condition (lambda (c &rest r) -1))) (host-add2 1 2 3))")
	}
	return env.LoadString("op", form)
}

func newSharedEnv(exprs []*lisp.LVal) (*lisp.LEnv, error) {
	env := lisp.NewEnv(nil)
	env.Runtime.Reader = &sharedReader{exprs: exprs, real: parser.NewReader()}
	env.Runtime.Stderr = io.Discard
	if rc := lisp.InitializeUserEnv(env); rc.Type == lisp.LError {
		return nil, fmt.Errorf("%v", rc)
	}
	if rc := env.InPackage(lisp.String(lisp.DefaultUserPackage)); rc.Type == lisp.LError {
		return nil, fmt.Errorf("%v", rc)
	}
	env.AddBuiltins(true, sharedHostTable...)
	// a macro the shared Program CALLS but does not define (defined once per runtime, outside the Program): its expansion
	// reads a global at expansion time, so what a load of the Program does depends on the runtime's state at that load
	if rc := env.LoadString("prelude", "(defmacro mode-now () (if (ignore-errors expansion-flag) 1 0))"); rc.Type == lisp.LError {
		return nil, fmt.Errorf("%v", rc)
	}
	return env, nil
}

func init() {
	commands["shared"] = func(args []string) {
		out := newEmitter()
		defer out.flush()
		eachLine(func(b []byte) {
			var in struct {
				ID      interface{} `json:"id"`
				Program string      `json:"program"`
				Scripts [][]string  `json:"scripts"`
				Sched   []int       `json:"sched"`
				Loads   int         `json:"loads"`
			}
			if err := json.Unmarshal(b, &in); err != nil {
				fmt.Fprintln(os.Stderr, "bad input:", err)
				os.Exit(2)
			}
			parse := func() []*lisp.LVal {
				exprs, err := parser.NewReader().Read("prog.lisp", strings.NewReader(in.Program))
				if err != nil {
					fmt.Fprintln(os.Stderr, "parse:", err)
					os.Exit(2)
				}
				return exprs
			}
			exprs := parse()
			fp0 := lisp.SealedASTFingerprint(exprs)
			n := len(in.Scripts)
			envs := make([]*lisp.LEnv, n)
			results := make([][]string, n)
			loadres := make([]string, n)
			for r := 0; r < n; r++ {
				env, err := newSharedEnv(exprs)
				if err != nil {
					fmt.Fprintln(os.Stderr, err)
					os.Exit(2)
				}
				envs[r] = env
			}
			// gates: turn[r] receives a token when it is r's turn
			var wg sync.WaitGroup
			turns := make([]chan struct{}, n)
			done := make(chan struct{}, 1)
			for r := range turns {
				turns[r] = make(chan struct{}, len(in.Sched)+1)
			}
			pos := 0
			var mu sync.Mutex
			next := func() {
				mu.Lock()
				defer mu.Unlock()
				if pos < len(in.Sched) {
					r := in.Sched[pos] - 1
					pos++
					turns[r] <- struct{}{}
				} else {
					select {
					case done <- struct{}{}:
					default:
					}
				}
			}
			gated := len(in.Sched) > 0
			for r := 0; r < n; r++ {
				wg.Add(1)
				go func(r int) {
					defer wg.Done()
					env := envs[r]
					// every runtime loads the shared program first (free-running: concurrently)
					v := env.Load("shared-program", strings.NewReader(""))
					loadres[r] = v.String()
					for k := 1; k < in.Loads; k++ {
						env.Load("shared-program", strings.NewReader(""))
					}
					for _, form := range in.Scripts[r] {
						if gated {
							<-turns[r]
						}
						var v *lisp.LVal
						if form == "(reload)" {
							v = env.Load("shared-program", strings.NewReader(""))
							v = env.LoadString("op", "counter")
						} else {
							v = sharedOp(env, form)
						}
						results[r] = append(results[r], v.String())
						if gated {
							next()
						}
					}
				}(r)
			}
			if gated {
				next()
			}
			wg.Wait()
			fp1 := lisp.SealedASTFingerprint(exprs)
			lit := make([]string, n)
			nested := make([]string, n)
			for r := 0; r < n; r++ {
				lit[r] = envs[r].LoadString("op", "(lit)").String()
				nested[r] = envs[r].LoadString("op", "(if (handler-bind ((condition (lambda (c &rest r) ()))) (nested)) (nested) '('(3 1 2)))").String()
			}
			// solo: fresh parse, fresh runtime, the script alone
			solo := make([][]string, n)
			for r := 0; r < n; r++ {
				env, err := newSharedEnv(parse())
				if err != nil {
					fmt.Fprintln(os.Stderr, err)
					os.Exit(2)
				}
				env.Load("shared-program", strings.NewReader(""))
				for _, form := range in.Scripts[r] {
					var v *lisp.LVal
					if form == "(reload)" {
						env.Load("shared-program", strings.NewReader(""))
						v = env.LoadString("op", "counter")
					} else {
						v = sharedOp(env, form)
					}
					solo[r] = append(solo[r], v.String())
				}
			}
			out.emit(J{"id": in.ID, "fp_before": fmt.Sprint(fp0), "fp_after": fmt.Sprint(fp1), "results": results, "solo": solo, "lit_after": lit, "nested_after": nested, "load": loadres})
		})
	}
}
