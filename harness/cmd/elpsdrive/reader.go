package main

import (
	"encoding/json"
	"fmt"
	"math"
	"os"
	"strings"
	"time"

	"github.com/luthersystems/elps/formatter"
	"github.com/luthersystems/elps/lisp"
	"github.com/luthersystems/elps/parser"
	"github.com/luthersystems/elps/parser/lexer"
	"github.com/luthersystems/elps/parser/rdparser"
	"github.com/luthersystems/elps/parser/token"
)

// reader: give a source text to the strict, the fault-tolerant and the format-preserving reader, print the
// accepted values back and re-read them, and run the formatter (C12, C16, C03).
//
//	in : {"id":..,"text":"..","format":bool}
//	out: {"id","strict":{"ok","cond","trees":[..]},"ft":{..},"fmt":{..},"printed":[..],"reread_ok":bool,"reprinted":[..],
//	      "tokens":[..types..],"format":{"default":{"ok","out","idem","tree_equal","comments_in":[..],"comments_out":[..]},...}}
func rtree(v *lisp.LVal, depth int) interface{} {
	if v == nil || depth > 60 {
		return J{"t": "nil"}
	}
	q := 0
	for v.Type == lisp.LQuote {
		q++
		v = v.Cells[0]
	}
	if v.IsQuoted() {
		q++
	}
	switch v.Type {
	case lisp.LInt:
		return J{"t": "int", "n": v.Int, "q": q}
	case lisp.LFloat:
		if math.IsInf(v.Float, 0) || math.IsNaN(v.Float) {
			// (JSON has no spelling for these: a reader that produces one is reported by its text)
			return J{"t": "float", "f": 0, "nonfinite": fmt.Sprint(v.Float), "q": q}
		}
		return J{"t": "float", "f": v.Float, "q": q}
	case lisp.LString:
		return J{"t": "str", "s": v.Str, "q": q}
	case lisp.LSymbol:
		return J{"t": "sym", "s": v.Str, "q": q}
	case lisp.LSExpr:
		c := make([]interface{}, len(v.Cells))
		for i, x := range v.Cells {
			c[i] = rtree(x, depth+1)
		}
		return J{"t": "list", "q": q, "c": c}
	}
	return J{"t": "other", "s": v.Type.String(), "q": q}
}

func readerResult(exprs []*lisp.LVal, err error) J {
	if err != nil {
		cond := ""
		if ev, ok := err.(*lisp.ErrorVal); ok {
			cond = ev.Condition()
		}
		return J{"ok": false, "cond": cond, "msg": err.Error()}
	}
	ts := make([]interface{}, len(exprs))
	for i, e := range exprs {
		ts[i] = rtree(e, 0)
	}
	return J{"ok": true, "trees": ts}
}

// lexAll returns the complete token stream of src as (type, text) pairs.
var sharedFormatConfigs map[string]*formatter.Config

func lexAll(src string) []interface{} {
	lx := lexer.New(token.NewScannerString("l", src))
	var out []interface{}
	for i := 0; i < 4*len(src)+8; i++ {
		toks := lx.ReadToken()
		end := false
		for _, t := range toks {
			out = append(out, J{"ty": t.Type.String(), "tx": t.Text})
			if t.Type == token.EOF {
				end = true
			}
		}
		if end {
			break
		}
	}
	return out
}

func commentTexts(src string) []string {
	lx := lexer.New(token.NewScannerString("c", src))
	var out []string
	for i := 0; i < 100000; i++ {
		toks := lx.ReadToken()
		end := false
		for _, t := range toks {
			if t.Type == token.COMMENT || t.Type == token.HASH_BANG {
				out = append(out, strings.TrimRight(t.Text, " \t\r"))
			}
			if t.Type == token.EOF || t.Type == token.ERROR {
				end = true
			}
		}
		if end {
			break
		}
	}
	return out
}

func init() {
	commands["reader"] = func(args []string) {
		out := newEmitter()
		defer out.flush()
		eachLine(func(b []byte) {
			var in struct {
				ID     interface{} `json:"id"`
				Text   string      `json:"text"`
				Format bool        `json:"format"`
			}
			if err := json.Unmarshal(b, &in); err != nil {
				fmt.Fprintln(os.Stderr, "bad input:", err)
				os.Exit(2)
			}
			t0 := time.Now()
			r := J{"id": in.ID}
			// token types of the lexer (progress / totality)
			lx := lexer.New(token.NewScannerString("t", in.Text))
			var tys []string
			for i := 0; i < 4*len(in.Text)+8; i++ {
				toks := lx.ReadToken()
				end := false
				for _, t := range toks {
					tys = append(tys, t.Type.String())
					if t.Type == token.EOF {
						end = true
					}
				}
				if end {
					break
				}
			}
			r["tokens"] = tys
			exprs, err := rdparser.New(token.NewScannerString("s", in.Text)).ParseProgram()
			r["strict"] = readerResult(exprs, err)
			ft := rdparser.New(token.NewScannerString("f", in.Text)).ParseProgramFaultTolerant()
			if len(ft.Errors) > 0 {
				r["ft"] = readerResult(nil, ft.Errors[0])
			} else {
				r["ft"] = readerResult(ft.Exprs, nil)
			}
			fexprs, ferr := rdparser.NewFormatting(token.NewScannerString("p", in.Text)).ParseProgram()
			r["fmt"] = readerResult(fexprs, ferr)
			// the same text through the readers an embedder gets (an io.Reader behind the scanner's fixed window): the
			// strict reader of every Load* entry point and the format-preserving reader of the formatter
			wexprs, werr := parser.NewReader().Read("w", strings.NewReader(in.Text))
			r["strict_io"] = readerResult(wexprs, werr)
			wf, wferr := parser.NewReader(parser.WithFormatPreserving()).Read("wf", strings.NewReader(in.Text))
			r["fmt_io"] = readerResult(wf, wferr)
			if err == nil {
				// print -> read -> print
				var printed []string
				for _, e := range exprs {
					printed = append(printed, e.String())
				}
				r["printed"] = printed
				re, rerr := rdparser.New(token.NewScannerString("r", strings.Join(printed, "\n"))).ParseProgram()
				r["reread"] = readerResult(re, rerr)
				if rerr == nil {
					var again []string
					for _, e := range re {
						again = append(again, e.String())
					}
					r["reprinted"] = again
				}
			}
			if in.Format {
				fr := J{}
				if sharedFormatConfigs == nil {
					// one Config value per configuration for the whole run, the way cmd/fmt shares one across files
					sharedFormatConfigs = map[string]*formatter.Config{
						"default":         formatter.DefaultConfig(),
						"compact":         {IndentSize: 2, MaxBlankLines: 1, Compact: true, Rules: formatter.DefaultRules()},
						"compact-strip":   {IndentSize: 2, MaxBlankLines: 1, Compact: true, StripComments: true, Rules: formatter.DefaultRules()},
						"indent4-norules": {IndentSize: 4, MaxBlankLines: 2, Rules: map[string]*formatter.IndentRule{}},
						"strip":           {IndentSize: 2, MaxBlankLines: 1, StripComments: true, Rules: formatter.DefaultRules()},
					}
				}
				for name, cfg := range map[string]*formatter.Config{
					"default":         formatter.DefaultConfig(),
					"compact":         {IndentSize: 2, MaxBlankLines: 1, Compact: true, Rules: formatter.DefaultRules()},
					"compact-strip":   {IndentSize: 2, MaxBlankLines: 1, Compact: true, StripComments: true, Rules: formatter.DefaultRules()},
					"indent4-norules": {IndentSize: 4, MaxBlankLines: 2, Rules: map[string]*formatter.IndentRule{}},
					"strip":           {IndentSize: 2, MaxBlankLines: 1, StripComments: true, Rules: formatter.DefaultRules()},
				} {
					o, ferr := formatter.Format([]byte(in.Text), cfg)
					e := J{"ok": ferr == nil}
					if so, serr := formatter.Format([]byte(in.Text), sharedFormatConfigs[name]); (serr == nil) != (ferr == nil) || string(so) != string(o) {
						// Format is a function of text and configuration: what the SAME Config value formatted before must not matter
						e["shared_differs"] = string(so)
					}
					if ferr == nil {
						e["out"] = string(o)
						o2, e2 := formatter.Format(o, cfg)
						e["idem"] = e2 == nil && string(o2) == string(o)
						if e2 == nil && string(o2) != string(o) {
							e["out2"] = string(o2)
						}
						oe, oerr := rdparser.New(token.NewScannerString("o", string(o))).ParseProgram()
						e["reads"] = readerResult(oe, oerr)
						e["comments_in"] = commentTexts(in.Text)
						e["comments_out"] = commentTexts(string(o))
						e["toks_out"] = lexAll(string(o))
					} else {
						e["len_out"] = len(o)
					}
					fr[name] = e
				}
				r["format"] = fr
				r["toks_in"] = lexAll(in.Text)
			}
			r["ms"] = time.Since(t0).Milliseconds()
			out.emit(r)
		})
	}
}
