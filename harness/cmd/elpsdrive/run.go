package main

import (
	"encoding/json"
	"fmt"
	"os"
	"strings"

	"github.com/luthersystems/elps/lisp"
)

// callEntry invokes one form through the FunCall / MacroCall / SpecialOpCall entry points.
func (s *session) callEntry(name, src string) *lisp.LVal {
	s.nload++
	exprs, err := s.env.Runtime.Reader.Read(name, strings.NewReader(src))
	if err != nil || len(exprs) != 1 || exprs[0].Type != lisp.LSExpr || len(exprs[0].Cells) == 0 {
		fmt.Fprintln(os.Stderr, "call mode needs exactly one call form:", src, err)
		os.Exit(2)
	}
	form := exprs[0]
	fun := s.env.GetFun(form.Cells[0])
	if fun.Type == lisp.LError {
		return fun
	}
	args := lisp.SExpr(append([]*lisp.LVal{}, form.Cells[1:]...))
	switch {
	case fun.IsMacro():
		return s.env.MacroCall(fun, args)
	case fun.IsSpecialOp():
		return s.env.SpecialOpCall(fun, args)
	}
	if s.withCtx() {
		v := s.env.FunCallContext(s.ctx, fun, args)
		s.retire()
		return v
	}
	return s.env.FunCall(fun, args)
}

// run: generic program runner.
//
//	in : {"id":..,"seq":[src,...],"cfg":{...},"cfgs":[{...},...]}
//	out: {"id":..,"runs":[{"cfg":i,"evals":[{"v":..,"err":..,"steps":..,"rest":..,"probes":[..],"stderr":".."}]}]}
//
// Each element of seq is one top-level evaluation (LoadContext) in the same
// runtime; with "cfgs" the whole sequence is run once per configuration in a
// fresh runtime (TRO on/off, budgets ...), so relational properties compare
// real runs with each other as well as with the specification.
type runIn struct {
	ID   interface{} `json:"id"`
	Seq  []string    `json:"seq"`
	Src  string      `json:"src"`
	Cfg  *runCfg     `json:"cfg"`
	Cfgs []runCfg    `json:"cfgs"`
	// Modes[i] selects the entry point for Seq[i]: "" / "load" = LoadContext; "call" = the element is ONE form
	// (head literal-args...): head is resolved with GetFun and invoked through FunCallContext / MacroCall /
	// SpecialOpCall according to its kind, arguments passed as written.
	Modes []string `json:"modes"`
}

func runSeq(cfg runCfg, seq []string, modes ...string) J {
	s, err := newSession(cfg)
	if err != nil {
		fmt.Fprintln(os.Stderr, err)
		os.Exit(2)
	}
	var evals []interface{}
	for i, src := range seq {
		s.probes = nil
		s.errIdx = nil
		s.stderr.Reset()
		var v *lisp.LVal
		if i < len(modes) && modes[i] == "call" {
			v = s.callEntry(fmt.Sprintf("t%d", i), src)
		} else {
			v = s.load(fmt.Sprintf("t%d", i), src)
		}
		e := J{"v": jv(v), "steps": s.env.Runtime.Steps(), "total": s.env.Runtime.TotalSteps(), "rest": s.restState(), "probes": s.probes, "stderr": s.stderr.String()}
		if ei := errInfo(v); ei != nil {
			e["err"] = ei
			e["errid"] = s.errID(v)
			var data []interface{}
			for _, c := range v.Cells {
				data = append(data, jv(c))
			}
			e["data"] = data
		}
		if s.ctx != nil {
			e["polls"] = s.ctx.n
		}
		evals = append(evals, e)
	}
	r := J{"evals": evals}
	if s.prof != nil {
		r["prof"] = []int{s.prof.starts, s.prof.ends}
	}
	return r
}

func init() {
	commands["run"] = func(args []string) {
		out := newEmitter()
		defer out.flush()
		eachLine(func(b []byte) {
			var in runIn
			if err := json.Unmarshal(b, &in); err != nil {
				fmt.Fprintln(os.Stderr, "bad input:", err)
				os.Exit(2)
			}
			seq := in.Seq
			if len(seq) == 0 {
				seq = []string{in.Src}
			}
			cfgs := in.Cfgs
			if len(cfgs) == 0 {
				if in.Cfg != nil {
					cfgs = []runCfg{*in.Cfg}
				} else {
					cfgs = []runCfg{{}}
				}
			}
			var runs []interface{}
			for _, c := range cfgs {
				runs = append(runs, runSeq(c, seq, in.Modes...))
			}
			out.emit(J{"id": in.ID, "runs": runs})
		})
	}
}
