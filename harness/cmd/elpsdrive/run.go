package main

import (
	"encoding/json"
	"fmt"
	"os"
)

// run: generic program runner.
//
//	in : {"id":..,"seq":[src,...],"cfg":{...},"cfgs":[{...},...]}
//	out: {"id":..,"runs":[{"cfg":i,"evals":[{"v":..,"err":..,"steps":..,"rest":..,"probes":[..],"stderr":".."}]}]}
//
// Each element of seq is one top-level evaluation (LoadContext) in the same
// runtime; with "cfgs" the whole sequence is run once per configuration in a
// fresh runtime (TRO on/off, budgets ...), so relational properties compare
// real runs with each other as well as with the specification.
type runIn struct {
	ID   interface{} `json:"id"`
	Seq  []string    `json:"seq"`
	Src  string      `json:"src"`
	Cfg  *runCfg     `json:"cfg"`
	Cfgs []runCfg    `json:"cfgs"`
}

func runSeq(cfg runCfg, seq []string) J {
	s, err := newSession(cfg)
	if err != nil {
		fmt.Fprintln(os.Stderr, err)
		os.Exit(2)
	}
	var evals []interface{}
	for i, src := range seq {
		s.probes = nil
		s.stderr.Reset()
		v := s.load(fmt.Sprintf("t%d", i), src)
		e := J{"v": jv(v), "steps": s.env.Runtime.Steps(), "total": s.env.Runtime.TotalSteps(), "rest": s.restState(), "probes": s.probes, "stderr": s.stderr.String()}
		if ei := errInfo(v); ei != nil {
			e["err"] = ei
		}
		if s.ctx != nil {
			e["polls"] = s.ctx.n
		}
		evals = append(evals, e)
	}
	r := J{"evals": evals}
	if s.prof != nil {
		r["prof"] = []int{s.prof.starts, s.prof.ends}
	}
	return r
}

func init() {
	commands["run"] = func(args []string) {
		out := newEmitter()
		defer out.flush()
		eachLine(func(b []byte) {
			var in runIn
			if err := json.Unmarshal(b, &in); err != nil {
				fmt.Fprintln(os.Stderr, "bad input:", err)
				os.Exit(2)
			}
			seq := in.Seq
			if len(seq) == 0 {
				seq = []string{in.Src}
			}
			cfgs := in.Cfgs
			if len(cfgs) == 0 {
				if in.Cfg != nil {
					cfgs = []runCfg{*in.Cfg}
				} else {
					cfgs = []runCfg{{}}
				}
			}
			var runs []interface{}
			for _, c := range cfgs {
				runs = append(runs, runSeq(c, seq))
			}
			out.emit(J{"id": in.ID, "runs": runs})
		})
	}
}
