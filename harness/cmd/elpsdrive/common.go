// Package main is the Go side of the ELPS model-based checks: one binary with
// a sub-command per family.  Every sub-command reads ndjson cases on stdin
// (produced by TLC from a specification, or by a seeded generator whose
// expectations TLC computes) and writes ndjson observations of the REAL
// interpreter on stdout.  Comparison with the specification's expectations is
// done by gen/*.py.
package main

import (
	"bufio"
	"context"
	"encoding/hex"
	"encoding/json"
	"fmt"
	"io"
	"os"
	"sort"
	"strings"

	"github.com/luthersystems/elps/lisp"
	"github.com/luthersystems/elps/lisp/lisplib"
	"github.com/luthersystems/elps/parser"
)

var commands = map[string]func(args []string){}

func main() {
	if len(os.Args) < 2 {
		fmt.Fprintln(os.Stderr, "usage: elpsdrive <command> [args]")
		os.Exit(2)
	}
	fn := commands[os.Args[1]]
	if fn == nil {
		fmt.Fprintln(os.Stderr, "unknown command", os.Args[1])
		os.Exit(2)
	}
	fn(os.Args[2:])
}

// ---------------------------------------------------------------------------
// ndjson plumbing

func eachLine(fn func(line []byte)) {
	sc := bufio.NewScanner(os.Stdin)
	sc.Buffer(make([]byte, 1<<24), 1<<26)
	for sc.Scan() {
		b := sc.Bytes()
		if len(strings.TrimSpace(string(b))) == 0 {
			continue
		}
		fn(b)
	}
	if err := sc.Err(); err != nil {
		fmt.Fprintln(os.Stderr, "stdin:", err)
		os.Exit(2)
	}
}

type emitter struct {
	w   *bufio.Writer
	enc *json.Encoder
}

func newEmitter() *emitter {
	w := bufio.NewWriterSize(os.Stdout, 1<<20)
	enc := json.NewEncoder(w)
	enc.SetEscapeHTML(false)
	return &emitter{w, enc}
}
func (e *emitter) emit(v interface{}) {
	if err := e.enc.Encode(v); err != nil {
		fmt.Fprintln(os.Stderr, "encode:", err)
		os.Exit(2)
	}
}
func (e *emitter) flush() { e.w.Flush() }

// ---------------------------------------------------------------------------
// canonical JSON rendering of values (what the specifications predict)

type J = map[string]interface{}

func jv(v *lisp.LVal) interface{} { return jvd(v, 0) }

func jvd(v *lisp.LVal, depth int) interface{} {
	if v == nil {
		return J{"t": "gonil"}
	}
	if depth > 10 {
		return J{"t": "deep"}
	}
	switch v.Type {
	case lisp.LInt:
		return J{"t": "int", "n": v.Int}
	case lisp.LFloat:
		return J{"t": "float", "s": v.String()}
	case lisp.LString:
		return J{"t": "str", "s": v.Str}
	case lisp.LSymbol:
		return J{"t": "sym", "s": v.Str, "q": v.IsQuoted()}
	case lisp.LQSymbol:
		return J{"t": "qsym", "s": v.Str}
	case lisp.LSExpr:
		if len(v.Cells) == 0 {
			return J{"t": "nil", "q": v.IsQuoted()}
		}
		c := make([]interface{}, len(v.Cells))
		for i, x := range v.Cells {
			c[i] = jvd(x, depth+1)
		}
		return J{"t": "list", "q": v.IsQuoted(), "c": c}
	case lisp.LQuote:
		return J{"t": "quote", "c": []interface{}{jvd(v.Cells[0], depth+1)}}
	case lisp.LArray:
		dims := v.ArrayDims()
		if dims.Len() == 1 {
			cells := v.Cells[1].Cells
			c := make([]interface{}, len(cells))
			for i, x := range cells {
				c[i] = jvd(x, depth+1)
			}
			return J{"t": "vec", "c": c}
		}
		return J{"t": "array", "s": v.String()}
	case lisp.LSortMap:
		ents := v.MapEntries()
		var e []interface{}
		if ents.Type == lisp.LSExpr {
			for _, p := range ents.Cells {
				if len(p.Cells) == 2 {
					e = append(e, []interface{}{jvd(p.Cells[0], depth+1), jvd(p.Cells[1], depth+1)})
				}
			}
		}
		return J{"t": "map", "e": e}
	case lisp.LBytes:
		return J{"t": "bytes", "s": hex.EncodeToString(v.Bytes())}
	case lisp.LFun:
		k := "fun"
		if v.IsMacro() {
			k = "macro"
		} else if v.IsSpecialOp() {
			k = "op"
		}
		return J{"t": k}
	case lisp.LError:
		r := J{"t": "err", "s": v.Str, "panic": lisp.IsInternalPanic(v)}
		return r
	case lisp.LNative:
		return J{"t": "native"}
	case lisp.LTaggedVal:
		return J{"t": "tagged", "s": v.Str}
	}
	return J{"t": "other", "s": v.Type.String()}
}

// errInfo gives location and stack of an error value (C18).
func errInfo(v *lisp.LVal) J {
	if v == nil || v.Type != lisp.LError {
		return nil
	}
	r := J{"cond": v.Str, "panic": lisp.IsInternalPanic(v), "msg": (*lisp.ErrorVal)(v).ErrorMessage()}
	// the complete text a host prints for the error (location, function name, message) and its trace
	func() {
		defer func() { _ = recover() }()
		r["text"] = (*lisp.ErrorVal)(v).Error()
		if lisp.IsInternalPanic(v) {
			return // (a recovered Go panic's trace carries the Go stack dump: goroutine numbers and addresses, by nature)
		}
		var tb strings.Builder
		(*lisp.ErrorVal)(v).WriteTrace(&tb)
		r["trace"] = tb.String()
	}()
	if loc, ok := v.Source(); ok {
		r["file"] = loc.File
		r["line"] = loc.Line
		r["col"] = loc.Col
		r["pos"] = loc.Pos
	}
	if st := v.CallStack(); st != nil {
		var fr []interface{}
		for i := len(st.Frames) - 1; i >= 0; i-- {
			f := st.Frames[i]
			e := J{"name": f.Package + ":" + f.Name, "term": f.Terminal, "tro": f.TROBlock, "iters": f.TailIterations, "hl": f.HeightLogical}
			if f.Source != nil {
				e["line"] = f.Source.Line
				e["col"] = f.Source.Col
			}
			fr = append(fr, e)
		}
		r["stack"] = fr
	}
	return r
}

// ---------------------------------------------------------------------------
// runtime construction

type runCfg struct {
	TRO        string `json:"tro"`      // "on" (default) | "off" (dormant debugger) | "prof" (profiler attached)
	MaxSteps   int64  `json:"maxsteps"` // 0 = unlimited but still counted (a background context is installed)
	MaxPhys    int    `json:"maxphys"`
	MaxLog     int    `json:"maxlog"`
	MaxNest    int    `json:"maxnest"`
	MaxTail    int    `json:"maxtail"`
	MaxMacro   int    `json:"maxmacro"`
	MaxAlloc   int    `json:"maxalloc"`
	CancelAt   int64  `json:"cancel_at"` // context reports cancellation from the k-th Err() poll on (0 = never)
	NoStdlib   bool   `json:"nostdlib"`
	NoCount    bool   `json:"nocount"`     // do not install a context: steps are then not counted unless maxsteps > 0
	NoCtxFirst int    `json:"noctx_first"` // the first k evaluations of a history use the context-less entry point (LoadString)
	CtxFirst   int    `json:"ctx_first"`   // only the first k evaluations carry the context; it is cancelled once evaluation k has returned
}

// pollCtx is a context whose Err() becomes non-nil at exactly the k-th poll.
type pollCtx struct {
	context.Context
	n, at int64
	dead  bool
}

func (c *pollCtx) Err() error {
	c.n++
	if c.dead || (c.at > 0 && c.n >= c.at) {
		return context.Canceled
	}
	return nil
}

type dormantDebugger struct{}

func (dormantDebugger) IsEnabled() bool                    { return false }
func (dormantDebugger) OnEval(*lisp.LEnv, *lisp.LVal) bool { return false }
func (dormantDebugger) WaitIfPaused(*lisp.LEnv, *lisp.LVal) lisp.DebugAction {
	return lisp.DebugContinue
}
func (dormantDebugger) OnFunEntry(*lisp.LEnv, *lisp.LVal, *lisp.LEnv)  {}
func (dormantDebugger) OnFunReturn(*lisp.LEnv, *lisp.LVal, *lisp.LVal) {}
func (dormantDebugger) AfterFunCall(*lisp.LEnv) bool                   { return false }
func (dormantDebugger) OnError(*lisp.LEnv, *lisp.LVal) bool            { return false }

type countingProfiler struct{ starts, ends int }

func (p *countingProfiler) IsEnabled() bool { return true }
func (p *countingProfiler) Enable() error   { return nil }
func (p *countingProfiler) SetFile(f *os.File) error {
	return nil
}
func (p *countingProfiler) Complete() error { return nil }
func (p *countingProfiler) Start(fun *lisp.LVal) func() {
	p.starts++
	return func() { p.ends++ }
}

type session struct {
	env               *lisp.LEnv
	ctx               *pollCtx
	stderr            *strings.Builder
	probes            []J
	prof              *countingProfiler
	nload, noCtxFirst int
	ctxFirst          int
	stdPkgs           map[string]bool    // packages that existed before the test program ran (standard library)
	langNames         map[string]bool    // names bound in the language package when the session started
	errIdx            map[*lisp.LVal]int // identity of error objects seen in this evaluation (capture builtin, final value)
}

// errID numbers error objects by first sight within one evaluation (pointer identity).
func (s *session) errID(v *lisp.LVal) int {
	if s.errIdx == nil {
		s.errIdx = map[*lisp.LVal]int{}
	}
	if id, ok := s.errIdx[v]; ok {
		return id
	}
	id := len(s.errIdx) + 1
	s.errIdx[v] = id
	return id
}

// capture records the identity, condition, data and stack of the condition being handled
// (Runtime.CurrentCondition), or 0 when there is none.
func (s *session) capture(env *lisp.LEnv, args *lisp.LVal) *lisp.LVal {
	cc := env.Runtime.CurrentCondition()
	e := J{"tag": []interface{}{J{"t": "sym", "s": "capture", "q": true}, J{"t": "int", "n": 0}}, "capture": true}
	if cc != nil {
		e["tag"] = []interface{}{J{"t": "sym", "s": "capture", "q": true}, J{"t": "int", "n": s.errID(cc)}}
		e["err"] = errInfo(cc)
		var data []interface{}
		for _, c := range cc.Cells {
			data = append(data, jv(c))
		}
		e["data"] = data
	}
	s.probes = append(s.probes, e)
	return lisp.Nil()
}

func frameView(fs []lisp.CallFrame) []interface{} {
	out := make([]interface{}, 0, len(fs))
	for _, f := range fs {
		out = append(out, J{"name": f.Package + ":" + f.Name, "term": f.Terminal, "tro": f.TROBlock, "iters": f.TailIterations, "hl": f.HeightLogical})
	}
	return out
}

func newSession(cfg runCfg) (*session, error) {
	s := &session{stderr: &strings.Builder{}, noCtxFirst: cfg.NoCtxFirst, ctxFirst: cfg.CtxFirst}
	env := lisp.NewEnv(nil)
	env.Runtime.Reader = parser.NewReader()
	env.Runtime.Stderr = s.stderr
	var opts []lisp.Config
	if cfg.MaxSteps > 0 {
		opts = append(opts, lisp.WithMaxSteps(cfg.MaxSteps))
	}
	if cfg.MaxPhys > 0 {
		opts = append(opts, lisp.WithMaximumPhysicalStackHeight(cfg.MaxPhys))
	}
	if cfg.MaxLog > 0 {
		opts = append(opts, lisp.WithMaximumLogicalStackHeight(cfg.MaxLog))
	}
	if cfg.MaxNest != 0 {
		opts = append(opts, lisp.WithMaxEvalNesting(cfg.MaxNest))
	}
	if cfg.MaxTail > 0 {
		opts = append(opts, lisp.WithMaxTailIterations(cfg.MaxTail))
	}
	if cfg.MaxMacro > 0 {
		opts = append(opts, lisp.WithMaxMacroExpansionDepth(cfg.MaxMacro))
	}
	if cfg.MaxAlloc > 0 {
		opts = append(opts, lisp.WithMaxAlloc(cfg.MaxAlloc))
	}
	if rc := lisp.InitializeUserEnv(env, opts...); rc.Type == lisp.LError {
		return nil, fmt.Errorf("init: %v", rc)
	}
	if !cfg.NoStdlib {
		if rc := lisplib.LoadLibrary(env); rc.Type == lisp.LError {
			return nil, fmt.Errorf("stdlib: %v", rc)
		}
	}
	s.env = env
	// probe and boom live in the language package and are exported, so that every package created by
	// in-package sees them (the specifications treat them as part of package lisp)
	if rc := env.InPackage(lisp.String(lisp.DefaultLangPackage)); rc.Type == lisp.LError {
		return nil, fmt.Errorf("in-package: %v", rc)
	}
	env.AddBuiltins(true, &hostFn{"probe", lisp.Formals(lisp.VarArgSymbol, "xs"), s.probe},
		&hostFn{"boom", lisp.Formals(lisp.VarArgSymbol, "xs"), func(*lisp.LEnv, *lisp.LVal) *lisp.LVal {
			panic("boom (host builtin panic requested by the test program)")
		}},
		&hostFn{"capture", lisp.Formals(), s.capture})
	// the same Go panic from a host macro and from a host special operator
	env.AddMacros(true, &hostFn{"boom-macro", lisp.Formals(lisp.VarArgSymbol, "xs"), func(*lisp.LEnv, *lisp.LVal) *lisp.LVal {
		panic("boom (host macro panic requested by the test program)")
	}})
	env.AddSpecialOps(true, &hostFn{"boom-op", lisp.Formals(lisp.VarArgSymbol, "xs"), func(*lisp.LEnv, *lisp.LVal) *lisp.LVal {
		panic("boom (host special operator panic requested by the test program)")
	}})
	if rc := env.InPackage(lisp.String(lisp.DefaultUserPackage)); rc.Type == lisp.LError {
		return nil, fmt.Errorf("in-package: %v", rc)
	}
	if rc := env.UsePackage(lisp.Symbol(lisp.DefaultLangPackage)); rc.Type == lisp.LError {
		return nil, fmt.Errorf("use-package: %v", rc)
	}
	s.langNames = map[string]bool{}
	if lp := env.Runtime.Registry.Package(lisp.DefaultLangPackage); lp != nil {
		for _, n := range lp.SymbolNames() {
			s.langNames[n] = true
		}
	}
	s.stdPkgs = map[string]bool{}
	for _, pn := range env.Runtime.Registry.PackageNames() {
		if pn != lisp.DefaultUserPackage {
			s.stdPkgs[pn] = true
		}
	}
	switch cfg.TRO {
	case "off":
		env.Runtime.Debugger = dormantDebugger{}
	case "prof":
		s.prof = &countingProfiler{}
		env.Runtime.Profiler = s.prof
	}
	if !cfg.NoCount || cfg.CancelAt > 0 {
		s.ctx = &pollCtx{Context: context.Background(), at: cfg.CancelAt}
	}
	return s, nil
}

type hostFn struct {
	name    string
	formals *lisp.LVal
	fn      func(env *lisp.LEnv, args *lisp.LVal) *lisp.LVal
}

func (h *hostFn) Name() string        { return h.name }
func (h *hostFn) Formals() *lisp.LVal { return h.formals }
func (h *hostFn) Eval(env *lisp.LEnv, args *lisp.LVal) *lisp.LVal {
	return h.fn(env, args)
}

// probe records its arguments and a snapshot of the runtime's control state
// (the frames below probe's own frame, steps, nesting, package).
func (s *session) probe(env *lisp.LEnv, args *lisp.LVal) *lisp.LVal {
	r := env.Runtime
	fs := r.Stack.Frames
	if len(fs) > 0 {
		fs = fs[:len(fs)-1]
	}
	tags := make([]interface{}, 0, len(args.Cells))
	spare := make([]int, 0, len(args.Cells))
	for _, a := range args.Cells {
		tags = append(tags, jv(a))
		// spare capacity of the argument's cell storage (Go slice capacity minus length); -1 when it has none
		switch {
		case a.Type == lisp.LSExpr:
			spare = append(spare, cap(a.Cells)-len(a.Cells))
		case a.Type == lisp.LArray && len(a.Cells) == 2:
			spare = append(spare, cap(a.Cells[1].Cells)-len(a.Cells[1].Cells))
		case a.Type == lisp.LBytes:
			spare = append(spare, cap(a.Bytes())-len(a.Bytes()))
		default:
			spare = append(spare, -1)
		}
	}
	s.probes = append(s.probes, J{"tag": tags, "spare": spare, "frames": frameView(fs), "steps": r.Steps(), "nest": r.EvalNesting(), "pkg": r.Package.Name})
	return lisp.Nil()
}

// load evaluates one source text as one top-level evaluation.
func (s *session) load(name, src string) *lisp.LVal {
	s.nload++
	if s.withCtx() {
		v := s.env.LoadContext(s.ctx, name, strings.NewReader(src))
		s.retire()
		return v
	}
	return s.env.LoadString(name, src)
}

// withCtx: does the evaluation that has just been counted carry the context?
func (s *session) withCtx() bool {
	return s.ctx != nil && s.nload > s.noCtxFirst && (s.ctxFirst == 0 || s.nload <= s.ctxFirst)
}

// retire cancels the context once the last evaluation that carries it has returned.
func (s *session) retire() {
	if s.ctxFirst > 0 && s.nload >= s.ctxFirst && s.ctx != nil {
		s.ctx.dead = true
	}
}

// restState is what must be clean between top-level evaluations (C05).
func (s *session) restState() J {
	r := s.env.Runtime
	cc := r.CurrentCondition()
	reg := J{}
	// (the names the language package had when the session started: what a program adds to it later is reported)
	if s.langNames == nil {
		s.langNames = map[string]bool{}
	}
	langNames := s.langNames
	for _, pn := range r.Registry.PackageNames() {
		if pn == lisp.DefaultLangPackage || s.stdPkgs[pn] {
			continue
		}
		p := r.Registry.Package(pn)
		var names []string
		for _, n := range p.SymbolNames() {
			if !langNames[n] {
				names = append(names, n)
			}
		}
		reg[pn] = J{"exports": p.Externals(), "names": names}
	}
	st := J{"reg": reg, "frames": len(r.Stack.Frames), "nest": r.EvalNesting(), "pkg": r.Package.Name, "cond": cc != nil, "ctxleak": s.ctx != nil && s.env.Context() == context.Context(s.ctx)}
	return st
}

func sortedKeys(m map[string]int) []string {
	ks := make([]string, 0, len(m))
	for k := range m {
		ks = append(ks, k)
	}
	sort.Strings(ks)
	return ks
}

var _ = io.Discard
