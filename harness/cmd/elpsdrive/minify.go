package main

import (
	"encoding/json"
	"fmt"
	"os"

	"github.com/luthersystems/elps/formatter"
	"github.com/luthersystems/elps/minifier"
	"github.com/luthersystems/elps/parser/rdparser"
	"github.com/luthersystems/elps/parser/token"
)

// minify: run the minifier on a session of files with the command's option set.
//
//	in : {"id":..,"files":[{"path","src"}],"rename_exports":bool,"preserve_params":bool,"exclusions":[..]}
//	out: {"id","ok","err","outputs":[..],"trees_in":[[..]],"trees_out":[[..]],"map":{"m2o":{..},"entries":[..]},"twice_same":bool}
func init() {
	commands["minify"] = func(args []string) {
		out := newEmitter()
		defer out.flush()
		eachLine(func(b []byte) {
			var in struct {
				ID    interface{} `json:"id"`
				Files []struct {
					Path string `json:"path"`
					Src  string `json:"src"`
				} `json:"files"`
				RenameExports  bool     `json:"rename_exports"`
				PreserveParams bool     `json:"preserve_params"`
				Exclusions     []string `json:"exclusions"`
			}
			if err := json.Unmarshal(b, &in); err != nil {
				fmt.Fprintln(os.Stderr, "bad input:", err)
				os.Exit(2)
			}
			mk := func() *minifier.Config {
				ex := map[string]bool{}
				for _, e := range in.Exclusions {
					ex[e] = true
				}
				cfg := &minifier.Config{Exclusions: ex, RenameExports: in.RenameExports, PreserveParams: in.PreserveParams, Formatter: formatter.DefaultConfig()}
				cfg.Formatter.Compact = true
				cfg.Formatter.StripComments = true
				return cfg
			}
			var inputs []minifier.InputFile
			for _, f := range in.Files {
				inputs = append(inputs, minifier.InputFile{Path: f.Path, Source: []byte(f.Src)})
			}
			res, err := minifier.Minify(inputs, mk())
			r := J{"id": in.ID, "ok": err == nil}
			if err != nil {
				r["err"] = err.Error()
				out.emit(r)
				return
			}
			var outs []string
			var tin, tout []interface{}
			for i, f := range res.Files {
				outs = append(outs, string(f.Output))
				a, e1 := rdparser.New(token.NewScannerString("a", in.Files[i].Src)).ParseProgram()
				bb, e2 := rdparser.New(token.NewScannerString("b", string(f.Output))).ParseProgram()
				tin = append(tin, readerResult(a, e1))
				tout = append(tout, readerResult(bb, e2))
			}
			r["outputs"] = outs
			r["trees_in"] = tin
			r["trees_out"] = tout
			var ents []interface{}
			for _, e := range res.SymbolMap.Entries {
				ents = append(ents, J{"min": e.Minified, "orig": e.Original, "kind": e.Kind})
			}
			r["map"] = J{"m2o": res.SymbolMap.MinifiedToOriginal, "entries": ents}
			res2, err2 := minifier.Minify(inputs, mk())
			same := err2 == nil && len(res2.Files) == len(res.Files)
			if same {
				for i := range res.Files {
					if string(res.Files[i].Output) != string(res2.Files[i].Output) {
						same = false
					}
				}
				j1, _ := res.SymbolMap.JSON()
				j2, _ := res2.SymbolMap.JSON()
				if string(j1) != string(j2) {
					same = false
				}
			}
			r["twice_same"] = same
			out.emit(r)
		})
	}
}
