------------------------------- MODULE Schema -------------------------------
(***************************************************************************)
(* Schema: the validator algebra of the `s` package (property C14) as two  *)
(* recursive functions over schema terms:                                  *)
(*                                                                         *)
(*   Build(schema)            "ok" | "bad-arguments"   (construction)      *)
(*   Accept(schema, value)    "ok" | "wrong-type" | "failed-constraint"    *)
(*                                                                         *)
(* written from the package's docstrings / README (the DECLARED meaning):  *)
(* a boolean is a value of boolean type; every element of a constraint     *)
(* list must be a constraint, otherwise the validator cannot be built;     *)
(* non-empty sorted maps and byte strings are truthy.  Where the           *)
(* documentation is silent the code's behaviour is transcribed (length     *)
(* constraints pass on values that have no length; has-key with no types   *)
(* never matches a present key).                                           *)
(*                                                                         *)
(* Schemas and values arrive as JSON (cases.ndjson), every (schema, value) *)
(* pair is one state; the specification prints its verdict and the harness *)
(* evaluates (s:validate <schema> <value>) on the real interpreter.        *)
(***************************************************************************)
EXTENDS Integers, Sequences, FiniteSets, TLC, Json

Cases == ndJsonDeserialize("cases.ndjson")      \* [id, schema, values]

VARIABLES cur, done
vars == <<cur, done>>

Rest(s) == SubSeq(s, 2, Len(s))

\* ------------------------------------------------------------------ values
\* v.t in: int float str bool sym nil vec list map fun bytes ; floats carry tenths in n
IsNum(v) == v.t \in {"int", "float"}
Tenths(v) == IF v.t = "int" THEN 10 * v.n ELSE v.n
HasType(v, ty, L) ==
  CASE ty = "string" -> v.t = "str"
    [] ty = "int" -> v.t = "int"
    [] ty = "float" -> v.t = "float"
    [] ty = "number" -> IsNum(v)
    [] ty = "bool" -> v.t = "bool" \/ (L /\ v.t = "str" /\ v.s \in {"true", "false"})
    [] ty = "array" -> v.t = "vec"
    [] ty = "sorted-map" -> v.t = "map"
    [] ty = "fun" -> v.t = "fun"
    [] ty = "bytes" -> v.t = "bytes"
    [] ty = "any" -> TRUE
    [] OTHER -> FALSE
TYPES == {"string", "int", "float", "number", "bool", "array", "sorted-map", "fun", "any"}
HasLen(v) == v.t \in {"str", "bytes", "vec"}
LenOf(v) == IF v.t = "vec" THEN Len(v.c) ELSE v.n      \* strings and bytes carry their length in n
\* equal? between the value and an allowed value (same representation, key spelling ignored)
RECURSIVE ValEq(_, _)
ValEq(a, b) ==
  \* numbers are equal by VALUE across int and float (equal? 2 2.0 is true): an enumeration of ints admits the float 2.0,
  \* which is what every number of a JSON document is unless :exact-integers is asked for
  IF IsNum(a) /\ IsNum(b) THEN (IF a.t = "int" THEN 10 * a.n ELSE a.n) = (IF b.t = "int" THEN 10 * b.n ELSE b.n)
  ELSE IF a.t # b.t THEN FALSE
  ELSE CASE a.t \in {"str", "sym", "bytes"} -> a.s = b.s
         [] a.t = "bool" -> a.s = b.s
         [] a.t = "nil" -> TRUE
         [] a.t \in {"vec", "list"} -> Len(a.c) = Len(b.c) /\ \A i \in 1..Len(a.c) : ValEq(a.c[i], b.c[i])
         [] OTHER -> FALSE
MapGet(m, k) == LET js == {j \in 1..Len(m.e) : m.e[j].k = k} IN
                IF js = {} THEN [found |-> FALSE, v |-> [t |-> "nil", n |-> 0, s |-> "", c |-> <<>>, e |-> <<>>]]
                ELSE [found |-> TRUE, v |-> m.e[CHOOSE j \in js : TRUE].v]
NilV == [t |-> "nil", n |-> 0, s |-> "", c |-> <<>>, e |-> <<>>]
\* the three patterns of the regexp constraint, as predicates over the string values used
Matches(p, v) == /\ v.t = "str"
                 /\ CASE p = "^a" -> v.s \in {"a", "ab", "abc"}
                      [] p = "b$" -> v.s \in {"ab"}
                      [] p = ".*" -> TRUE
                      [] OTHER -> FALSE
Truthy(v) ==      \* docstring of s:is-truthy
  CASE v.t = "bool" -> v.s = "true"
    [] v.t = "str" -> v.n > 0 /\ v.s # "false"
    [] v.t = "vec" -> Len(v.c) > 0
    [] v.t = "map" -> Len(v.e) > 0
    [] v.t = "bytes" -> v.n > 0
    [] IsNum(v) -> v.n > 0
    [] OTHER -> FALSE

\* ----------------------------------------------------------- construction
\* a "type argument" of of / has-key / may-have-key / when is a type name or a validator
RECURSIVE Build(_), BuildAll(_)
BuildAll(cs) == IF Len(cs) = 0 THEN "ok" ELSE IF Build(cs[1]) # "ok" THEN "bad-arguments" ELSE BuildAll(Rest(cs))
Build(c) ==
  CASE c.c = "typed" -> IF c.k \notin TYPES THEN "bad-arguments" ELSE BuildAll(c.cs)
    [] c.c = "typename" -> IF c.k \in TYPES THEN "ok" ELSE "bad-arguments"
    [] c.c = "bad" -> "bad-arguments"           \* an integer, an unknown type name, a plain lambda, a malformed pattern
    [] c.c \in {"of", "haskey", "mayhavekey", "nok"} -> BuildAll(c.cs)
    [] c.c = "when" -> IF Build(c.g[1]) # "ok" THEN "bad-arguments" ELSE BuildAll(c.cs)
    [] c.c = "not" -> Build(c.g[1])
    \* a type that is itself a validator (a named type, a nested validator) narrowed by further constraints
    [] c.c = "derived" -> IF Build(c.g[1]) # "ok" THEN "bad-arguments" ELSE BuildAll(c.cs)
    [] OTHER -> "ok"

\* -------------------------------------------------------------- validation
Worse(a, b) == IF a # "ok" THEN a ELSE b
RECURSIVE Accept(_, _, _), AcceptAll(_, _, _), AnyAccepts(_, _, _), KeysOf(_, _, _), ElemsOk(_, _, _, _)
AcceptAll(cs, v, L) == IF Len(cs) = 0 THEN "ok" ELSE LET r == Accept(cs[1], v, L) IN IF r # "ok" THEN r ELSE AcceptAll(Rest(cs), v, L)
AnyAccepts(tys, v, L) == \E i \in 1..Len(tys) : Accept(tys[i], v, L) = "ok"
ElemsOk(tys, elems, i, L) == i > Len(elems) \/ (AnyAccepts(tys, elems[i], L) /\ ElemsOk(tys, elems, i + 1, L))
\* no-other-keys: every listed key constraint must hold; it names its key; all other keys are refused
KeysOf(cs, v, L) == IF Len(cs) = 0 THEN [r |-> "ok", ks |-> {}]
                 ELSE LET r1 == Accept(cs[1], v, L) IN
                      IF r1 # "ok" THEN [r |-> r1, ks |-> {}]
                      ELSE LET rest == KeysOf(Rest(cs), v, L) IN
                           [r |-> rest.r, ks |-> (IF cs[1].c \in {"haskey", "mayhavekey"} THEN {cs[1].k} ELSE {}) \cup rest.ks]
Cmp(op, a, b) == CASE op = "gt" -> a > b [] op = "gte" -> a >= b [] op = "lt" -> a < b [] op = "lte" -> a <= b
LCmp(op, a, b) == CASE op = "len" -> a = b [] op = "lengt" -> a > b [] op = "lengte" -> a >= b [] op = "lenlt" -> a < b [] op = "lenlte" -> a <= b
Accept(c, v, L) ==
  CASE c.c = "typed" -> IF ~HasType(v, c.k, L) THEN "wrong-type" ELSE AcceptAll(c.cs, v, L)
    [] c.c = "typename" -> IF HasType(v, c.k, L) THEN "ok" ELSE "wrong-type"
    [] c.c = "in" -> IF \E i \in 1..Len(c.vs) : ValEq(v, c.vs[i]) THEN "ok" ELSE "failed-constraint"
    [] c.c \in {"gt", "gte", "lt", "lte"} -> IF IsNum(v) /\ Cmp(c.c, Tenths(v), 10 * c.n) THEN "ok" ELSE "failed-constraint"
    [] c.c = "positive" -> IF IsNum(v) /\ v.n > 0 THEN "ok" ELSE "failed-constraint"
    [] c.c = "negative" -> IF IsNum(v) /\ v.n < 0 THEN "ok" ELSE "failed-constraint"
    [] c.c \in {"len", "lengt", "lengte", "lenlt", "lenlte"} -> IF ~HasLen(v) \/ LCmp(c.c, LenOf(v), c.n) THEN "ok" ELSE "failed-constraint"
    [] c.c = "of" -> IF v.t # "vec" THEN "wrong-type" ELSE IF ElemsOk(c.cs, v.c, 1, L) THEN "ok" ELSE "wrong-type"
    [] c.c = "haskey" -> IF v.t # "map" THEN "wrong-type"
                         ELSE LET g == MapGet(v, c.k) IN
                              IF ~g.found THEN "failed-constraint" ELSE IF Len(c.cs) = 0 \/ AnyAccepts(c.cs, g.v, L) THEN "ok" ELSE "wrong-type"   \* (the type is optional: a bare key constraint asks for presence only)
    [] c.c = "mayhavekey" -> IF v.t # "map" THEN "wrong-type"
                             ELSE LET g == MapGet(v, c.k) IN
                                  IF ~g.found THEN "ok" ELSE IF Len(c.cs) = 0 \/ AnyAccepts(c.cs, g.v, L) THEN "ok" ELSE "wrong-type"
    [] c.c = "nok" -> LET ks == KeysOf(c.cs, v, L) IN
                      IF ks.r # "ok" THEN ks.r
                      ELSE IF v.t # "map" THEN "wrong-type"
                      ELSE IF \A j \in 1..Len(v.e) : v.e[j].k \in ks.ks THEN "ok" ELSE "failed-constraint"
    [] c.c = "when" -> IF v.t # "map" THEN "wrong-type"
                       ELSE IF Accept(c.g[1], MapGet(v, c.k).v, L) # "ok" THEN "ok"
                       ELSE AcceptAll(c.cs, MapGet(v, c.k2).v, L)
    [] c.c = "not" -> IF Accept(c.g[1], v, L) # "ok" THEN "ok" ELSE "failed-constraint"
    [] c.c = "derived" -> LET r == Accept(c.g[1], v, L) IN IF r # "ok" THEN r ELSE AcceptAll(c.cs, v, L)
    [] c.c = "istrue" -> IF (v.t = "bool" \/ (L /\ v.t = "str")) /\ v.s = "true" THEN "ok" ELSE "failed-constraint"
    [] c.c = "isfalse" -> IF (v.t = "bool" \/ (L /\ v.t = "str")) /\ v.s = "false" THEN "ok" ELSE "failed-constraint"
    [] c.c = "istruthy" -> IF Truthy(v) THEN "ok" ELSE "failed-constraint"
    [] c.c = "isfalsy" -> IF ~Truthy(v) THEN "ok" ELSE "failed-constraint"
    [] c.c = "regexp" -> IF Matches(c.p, v) THEN "ok" ELSE "failed-constraint"
    [] OTHER -> "bad-arguments"

\* ------------------------------------------------------------- enumeration
\* one state per schema (the case record is carried in the state: the input file is touched only by Init);
\* the verdict for every value of the case is computed and printed in one step
Init == \E i \in 1..Len(Cases) : cur = Cases[i] /\ done = FALSE
Verdict(sc, v, L) == IF Build(sc) # "ok" THEN "bad-arguments" ELSE Accept(sc, v, L)
NV == Len(cur.values)
Emit == /\ ~done /\ done' = TRUE /\ UNCHANGED cur
        /\ PrintT(ToJson([id |-> cur.id, build |-> Build(cur.schema),
                          verdicts |-> [j \in 1..NV |-> Verdict(cur.schema, cur.values[j], FALSE)],
                          \* the verdicts under the reading "the strings true/false count as booleans" (known finding)
                          lenient |-> [j \in 1..NV |-> Verdict(cur.schema, cur.values[j], TRUE)]]))
Next == Emit \/ (done /\ UNCHANGED vars)
Spec == Init /\ [][Next]_vars

\* algebraic laws of the declared meaning, checked in every state for every value
NotInverts == (cur.schema.c = "not" /\ Build(cur.schema) = "ok") =>
                \A j \in 1..NV : ((Accept(cur.schema, cur.values[j], FALSE) = "ok") <=> (Accept(cur.schema.g[1], cur.values[j], FALSE) # "ok"))
FalsyIsNotTruthy == (cur.schema.c = "isfalsy") => \A j \in 1..NV : ((Accept(cur.schema, cur.values[j], FALSE) = "ok") <=> ~Truthy(cur.values[j]))
\* a derived type accepts exactly what its base type accepts AND every further constraint accepts
DerivedNarrows == (cur.schema.c = "derived" /\ Build(cur.schema) = "ok") =>
                    \A j \in 1..NV : ((Accept(cur.schema, cur.values[j], FALSE) = "ok") <=>
                                        (Accept(cur.schema.g[1], cur.values[j], FALSE) = "ok" /\ AcceptAll(cur.schema.cs, cur.values[j], FALSE) = "ok"))
MalformedNeverPasses == Build(cur.schema) # "ok" => \A j \in 1..NV : Verdict(cur.schema, cur.values[j], FALSE) = "bad-arguments"
=============================================================================
