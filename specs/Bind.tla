-------------------------------- MODULE Bind --------------------------------
(***************************************************************************)
(* Bind: the run-time formal-parameter binder (lisp/env.go bind /          *)
(* bindFormalNext) and the static arity summary the linter derives from    *)
(* the same formal lists (lint/analyzers.go buildArityTable / parseFormals *)
(* and analysis.Signature), as two functions of a signature, and the       *)
(* agreement theorem between them (property C19):                          *)
(*                                                                         *)
(*   Soundness     lint reports a direct call with k arguments             *)
(*                   => the binder rejects that call at run time           *)
(*   Completeness  (signatures without &key)                               *)
(*                 the binder rejects the call => lint reports it          *)
(*                                                                         *)
(* A signature is a well-formed formal list  req* [&optional name+]        *)
(* [&rest name | &key name+], represented by its shape.  Signatures come   *)
(* from two sources: every shape up to the length bound (Init enumerates   *)
(* them) and the registry of the real interpreter (names + formals dumped  *)
(* from the code, read from sigs.ndjson).  For each (signature, k,         *)
(* argument mode) the specification prints its prediction; the harness     *)
(* lints and evaluates the corresponding one-call program on the real      *)
(* code and compares both answers (binding B1).                            *)
(*                                                                         *)
(* Shadowing: Reach(ctx) says, for each syntactic context in which a call  *)
(* `(car ...)` can stand relative to a binding that shadows the builtin    *)
(* name, whether the call reaches the shadowing binding or the builtin.    *)
(***************************************************************************)
EXTENDS Integers, Sequences, FiniteSets, TLC, Json

CONSTANTS MAXLEN,     \* bound on the number of parameter names of enumerated shapes
          MAXK        \* largest argument count tried for enumerated shapes

Sigs == ndJsonDeserialize("sigs.ndjson")     \* registry signatures: [name, kind, req, opt, rest, key]

VARIABLES phase, done
vars == <<phase, done>>

Shape == [req : 0..MAXLEN, opt : 0..MAXLEN, rest : BOOLEAN, key : 0..MAXLEN]
WellFormed(s) == /\ s.req + s.opt + s.key + (IF s.rest THEN 1 ELSE 0) <= MAXLEN
                 /\ ~(s.rest /\ s.key > 0)          \* variadic functions cannot have keyword parameters
Shapes == {s \in Shape : WellFormed(s)}

\* ------------------------------------------------------------ the binder
\* k plain (non-keyword) argument values
DynPlain(s, k) ==
  IF k < s.req THEN "arity"                          \* a required formal finds no argument
  ELSE LET afterOpt == IF k - s.req > s.opt THEN k - s.req - s.opt ELSE 0 IN
       IF s.rest THEN "ok"
       ELSE IF s.key > 0
            THEN IF afterOpt = 0 THEN "ok"
                 ELSE IF afterOpt % 2 = 1 THEN "kw"   \* odd number of keyword arguments
                 ELSE "kw"                            \* argument is not a keyword
       ELSE IF afterOpt > 0 THEN "arity" ELSE "ok"
\* k arguments of which the ones after required+optional are well-formed :key value pairs
\* naming declared keys (possible only when the remainder is even)
DynKw(s, k) ==
  IF k < s.req THEN "arity"
  ELSE LET afterOpt == IF k - s.req > s.opt THEN k - s.req - s.opt ELSE 0 IN
       IF s.key = 0 THEN DynPlain(s, k)
       ELSE IF afterOpt % 2 = 1 THEN "kw" ELSE "ok"

\* ------------------------------------------------- the linter's static summary
StatMin(s) == s.req
StatMax(s) == IF s.rest \/ s.key > 0 THEN -1 ELSE s.req + s.opt
LintReports(s, k) == k < StatMin(s) \/ (StatMax(s) >= 0 /\ k > StatMax(s))

\* ----------------------------------------------------------- the theorem
Sound(s, k)    == LintReports(s, k) => (DynPlain(s, k) # "ok" /\ DynKw(s, k) # "ok")
Complete(s, k) == (s.key = 0 /\ DynPlain(s, k) # "ok") => LintReports(s, k)
\* a program the linter accepts never fails with invalid-number-of-arguments
NoArityAfterAccept(s, k) == ~LintReports(s, k) => (DynPlain(s, k) # "arity" /\ DynKw(s, k) # "arity")

Agreement == \A s \in Shapes : \A k \in 0..MAXK : Sound(s, k) /\ Complete(s, k) /\ NoArityAfterAccept(s, k)
RegistryAgreement ==
  \A j \in 1..Len(Sigs) :
    LET s == [req |-> Sigs[j].req, opt |-> Sigs[j].opt, rest |-> Sigs[j].rest, key |-> Sigs[j].key] IN
    \A k \in 0..(s.req + s.opt + 2 * s.key + 2) : Sound(s, k) /\ Complete(s, k) /\ NoArityAfterAccept(s, k)

\* --------------------------------------------------------------- shadowing
\* contexts of a call (car a b) relative to a binding of the name `car` taking two arguments
Contexts == {"none", "global-before", "global-after", "let-body", "let-value", "let-after",
             "flet-body", "flet-other-fn-body", "flet-own-body", "labels-body", "labels-own-body", "labels-other-fn-body",
             "lambda-param-body", "defun-param-body", "macrolet-body", "let*-later-value", "let*-own-value"}
\* does the call reach the shadowing binding (TRUE) or the builtin (FALSE)?
Reach(ctx) ==
  CASE ctx = "none" -> FALSE
    [] ctx = "global-before" -> TRUE          \* defined by an earlier top-level form
    [] ctx = "global-after" -> FALSE          \* the call is evaluated before the later defun
    [] ctx = "let-body" -> TRUE
    [] ctx = "let-value" -> FALSE             \* value expressions see the enclosing scope
    [] ctx = "let-after" -> FALSE             \* outside the let
    [] ctx = "flet-body" -> TRUE
    [] ctx = "flet-other-fn-body" -> FALSE    \* flet functions do not see each other
    [] ctx = "flet-own-body" -> FALSE         \* nor themselves
    [] ctx = "labels-body" -> TRUE
    [] ctx = "labels-own-body" -> TRUE
    [] ctx = "labels-other-fn-body" -> TRUE
    [] ctx = "lambda-param-body" -> TRUE
    [] ctx = "defun-param-body" -> TRUE
    [] ctx = "macrolet-body" -> TRUE
    [] ctx = "let*-later-value" -> TRUE
    [] ctx = "let*-own-value" -> FALSE
\* what the arity checks must say about (car x1..xk) in ctx when the shadow takes exactly two arguments
\* and the builtin exactly one:  "must" report, "mustnot" report
Expected(ctx, k) ==
  IF Reach(ctx) THEN (IF k = 2 THEN "mustnot" ELSE "may")           \* builtin's check suppressed; shadow's own arity may be reported
  ELSE (IF k = 1 THEN "mustnot" ELSE "must")

\* ------------------------------------------------------------ enumeration
\* one initial state per case; the single step prints the specification's prediction for it
ShapeCases == {[src |-> "shape", s |-> s, k |-> k, name |-> "", kind |-> "", ctx |-> ""] : s \in Shapes, k \in 0..MAXK}
RegSig(j) == [req |-> Sigs[j].req, opt |-> Sigs[j].opt, rest |-> Sigs[j].rest, key |-> Sigs[j].key]
RegCases == UNION {{[src |-> "registry", s |-> RegSig(j), k |-> k, name |-> Sigs[j].name, kind |-> Sigs[j].kind, ctx |-> ""]
                     : k \in 0..(Sigs[j].req + Sigs[j].opt + 2 * Sigs[j].key + 2)} : j \in 1..Len(Sigs)}
NoShape == [req |-> 0, opt |-> 0, rest |-> FALSE, key |-> 0]
ShadowCases == {[src |-> "shadow", s |-> NoShape, k |-> k, name |-> "car", kind |-> "fun", ctx |-> c] : c \in Contexts, k \in 0..3}

Init == phase \in (ShapeCases \cup RegCases \cup ShadowCases) /\ done = FALSE
Emit ==
  /\ ~done /\ done' = TRUE /\ UNCHANGED phase
  /\ IF phase.src = "shadow"
     THEN PrintT(ToJson([src |-> "shadow", ctx |-> phase.ctx, k |-> phase.k, reach |-> Reach(phase.ctx), expect |-> Expected(phase.ctx, phase.k)]))
     ELSE PrintT(ToJson([src |-> phase.src, name |-> phase.name, kind |-> phase.kind,
                         req |-> phase.s.req, opt |-> phase.s.opt, rest |-> phase.s.rest, key |-> phase.s.key, k |-> phase.k,
                         lint |-> LintReports(phase.s, phase.k), plain |-> DynPlain(phase.s, phase.k), kw |-> DynKw(phase.s, phase.k)]))
Next == Emit \/ (done /\ UNCHANGED vars)
Spec == Init /\ [][Next]_vars

\* the agreement theorem, evaluated in every state for the state's own case (and once globally by Agreement)
Inv == phase.src = "shadow" \/ (Sound(phase.s, phase.k) /\ Complete(phase.s, phase.k) /\ NoArityAfterAccept(phase.s, phase.k))
=============================================================================
