-------------------------------- MODULE Bind --------------------------------
(***************************************************************************)
(* Bind: the run-time formal-parameter binder (lisp/env.go bind /          *)
(* bindFormalNext) and the static arity summary the linter derives from    *)
(* the same formal lists (lint/analyzers.go buildArityTable / parseFormals *)
(* and analysis.Signature), as two functions of a signature, and the       *)
(* agreement theorem between them (property C19):                          *)
(*                                                                         *)
(*   Soundness     lint reports a direct call with k arguments             *)
(*                   => the binder rejects that call at run time           *)
(*   Completeness  (signatures without &key)                               *)
(*                 the binder rejects the call => lint reports it          *)
(*                                                                         *)
(* A signature is a well-formed formal list  req* [&optional name+]        *)
(* [&rest name | &key name+], represented by its shape.  Signatures come   *)
(* from two sources: every shape up to the length bound (Init enumerates   *)
(* them) and the registry of the real interpreter (names + formals dumped  *)
(* from the code, read from sigs.ndjson).  For each (signature, k,         *)
(* argument mode) the specification prints its prediction; the harness     *)
(* lints and evaluates the corresponding one-call program on the real      *)
(* code and compares both answers (binding B1).                            *)
(*                                                                         *)
(* Shadowing: Reach(ctx) says, for each syntactic context in which a call  *)
(* `(car ...)` can stand relative to a binding that shadows the builtin    *)
(* name, whether the call reaches the shadowing binding or the builtin.    *)
(***************************************************************************)
EXTENDS Integers, Sequences, FiniteSets, TLC, Json

CONSTANTS MAXLEN,     \* bound on the number of parameter names of enumerated shapes
          MAXK,       \* largest argument count tried for enumerated shapes
          MAXHIST     \* longest definition history (top-level forms of one file)

Sigs == ndJsonDeserialize("sigs.ndjson")     \* registry signatures: [name, kind, req, opt, rest, key]

VARIABLES phase, done
vars == <<phase, done>>

Shape == [req : 0..MAXLEN, opt : 0..MAXLEN, rest : BOOLEAN, key : 0..MAXLEN]
WellFormed(s) == /\ s.req + s.opt + s.key + (IF s.rest THEN 1 ELSE 0) <= MAXLEN
                 /\ ~(s.rest /\ s.key > 0)          \* variadic functions cannot have keyword parameters
Shapes == {s \in Shape : WellFormed(s)}

\* ------------------------------------------------------------ the binder
\* k plain (non-keyword) argument values
DynPlain(s, k) ==
  IF k < s.req THEN "arity"                          \* a required formal finds no argument
  ELSE LET afterOpt == IF k - s.req > s.opt THEN k - s.req - s.opt ELSE 0 IN
       IF s.rest THEN "ok"
       ELSE IF s.key > 0
            THEN IF afterOpt = 0 THEN "ok"
                 ELSE IF afterOpt % 2 = 1 THEN "kw"   \* odd number of keyword arguments
                 ELSE "kw"                            \* argument is not a keyword
       ELSE IF afterOpt > 0 THEN "arity" ELSE "ok"
\* k arguments of which the ones after required+optional are well-formed :key value pairs
\* naming declared keys (possible only when the remainder is even)
DynKw(s, k) ==
  IF k < s.req THEN "arity"
  ELSE LET afterOpt == IF k - s.req > s.opt THEN k - s.req - s.opt ELSE 0 IN
       IF s.key = 0 THEN DynPlain(s, k)
       ELSE IF afterOpt % 2 = 1 THEN "kw" ELSE "ok"

\* ------------------------------------------------- the linter's static summary
StatMin(s) == s.req
StatMax(s) == IF s.rest \/ s.key > 0 THEN -1 ELSE s.req + s.opt
LintReports(s, k) == k < StatMin(s) \/ (StatMax(s) >= 0 /\ k > StatMax(s))

\* ----------------------------------------------------------- the theorem
Sound(s, k)    == LintReports(s, k) => (DynPlain(s, k) # "ok" /\ DynKw(s, k) # "ok")
Complete(s, k) == (s.key = 0 /\ DynPlain(s, k) # "ok") => LintReports(s, k)
\* a program the linter accepts never fails with invalid-number-of-arguments
NoArityAfterAccept(s, k) == ~LintReports(s, k) => (DynPlain(s, k) # "arity" /\ DynKw(s, k) # "arity")

Agreement == \A s \in Shapes : \A k \in 0..MAXK : Sound(s, k) /\ Complete(s, k) /\ NoArityAfterAccept(s, k)
RegistryAgreement ==
  \A j \in 1..Len(Sigs) :
    LET s == [req |-> Sigs[j].req, opt |-> Sigs[j].opt, rest |-> Sigs[j].rest, key |-> Sigs[j].key] IN
    \A k \in 0..(s.req + s.opt + 2 * s.key + 2) : Sound(s, k) /\ Complete(s, k) /\ NoArityAfterAccept(s, k)

\* --------------------------------------------------------------- shadowing
\* contexts of a call (car a b) relative to a binding of the name `car` taking two arguments
Contexts == {"none", "global-before", "global-after", "let-body", "let-value", "let-after",
             "flet-body", "flet-other-fn-body", "flet-own-body", "labels-body", "labels-own-body", "labels-other-fn-body",
             "lambda-param-body", "defun-param-body", "macrolet-body", "let*-later-value", "let*-own-value",
             "flet-param-body", "labels-param-body", "lambda-optional-param-body", "let-value-lambda"}
\* does the call reach the shadowing binding (TRUE) or the builtin (FALSE)?
Reach(ctx) ==
  CASE ctx = "none" -> FALSE
    [] ctx = "global-before" -> TRUE          \* defined by an earlier top-level form
    [] ctx = "global-after" -> FALSE          \* the call is evaluated before the later defun
    [] ctx = "let-body" -> TRUE
    [] ctx = "let-value" -> FALSE             \* value expressions see the enclosing scope
    [] ctx = "let-after" -> FALSE             \* outside the let
    [] ctx = "flet-body" -> TRUE
    [] ctx = "flet-other-fn-body" -> FALSE    \* flet functions do not see each other
    [] ctx = "flet-own-body" -> FALSE         \* nor themselves
    [] ctx = "labels-body" -> TRUE
    [] ctx = "labels-own-body" -> TRUE
    [] ctx = "labels-other-fn-body" -> TRUE
    [] ctx = "lambda-param-body" -> TRUE
    [] ctx = "defun-param-body" -> TRUE
    [] ctx = "macrolet-body" -> TRUE
    [] ctx = "let*-later-value" -> TRUE
    [] ctx = "let*-own-value" -> FALSE
    [] ctx = "flet-param-body" -> TRUE        \* the call stands in the binding list of the flet, inside a function whose PARAMETER has the name
    [] ctx = "labels-param-body" -> TRUE
    [] ctx = "lambda-optional-param-body" -> TRUE
    \* FOLLOWS THE CODE (named deviation, the C01 finding let-value-closure): a lambda made in a let VALUE keeps the
    \* let's own environment, so a call in its body reaches the sibling binding once the lambda is called from the body
    [] ctx = "let-value-lambda" -> TRUE
\* what the arity checks must say about (car x1..xk) in ctx when the shadow takes exactly two arguments
\* and the builtin exactly one:  "must" report, "mustnot" report
Expected(ctx, k) ==
  IF Reach(ctx) THEN (IF k = 2 THEN "mustnot" ELSE "may")           \* builtin's check suppressed; shadow's own arity may be reported
  ELSE (IF k = 1 THEN "mustnot" ELSE "must")

NoShape == [req |-> 0, opt |-> 0, rest |-> FALSE, key |-> 0]
\* ----------------------------------------------------- definition histories
\* One file is a sequence of top-level forms; which function a direct call reaches is decided by what has been
\* EVALUATED before it: the latest definition of the name in the package current at the call.  The forms:
\*   D1 (defun f (a) a)      D2 (defun f (a b) a)     C1 (f 1)     C2 (f 1 2)
\*   PA (in-package 'pa)     PB (in-package 'pb)      (a package made by in-package uses the language package)
\*   BP (defun g (car) car)  a parameter that merely shares its name with a builtin, in another form
\*   B0 (car)                B1 (car '(1))            direct calls of the builtin outside that parameter's scope
HForms == {"D1", "D2", "C1", "C2", "PA", "PB", "BP", "B0", "B1"}
HCalls == {"C1", "C2", "B0", "B1"}
HPkgs == {"user", "pa", "pb"}
Histories == {h \in UNION {[1..m -> HForms] : m \in 1..MAXHIST} : \E i \in DOMAIN h : h[i] \in HCalls}
\* the outcome of every form, left to right: "-" for a form that is not a call
RECURSIVE HWalk(_, _, _, _)
HWalk(h, i, pkg, defs) ==
  IF i > Len(h) THEN <<>>
  ELSE LET f == h[i] IN
    CASE f = "D1" -> <<"-">> \o HWalk(h, i + 1, pkg, [defs EXCEPT ![pkg] = 1])
      [] f = "D2" -> <<"-">> \o HWalk(h, i + 1, pkg, [defs EXCEPT ![pkg] = 2])
      [] f = "PA" -> <<"-">> \o HWalk(h, i + 1, "pa", defs)
      [] f = "PB" -> <<"-">> \o HWalk(h, i + 1, "pb", defs)
      [] f = "BP" -> <<"-">> \o HWalk(h, i + 1, pkg, defs)
      [] f = "B0" -> <<"arity">> \o HWalk(h, i + 1, pkg, defs)
      [] f = "B1" -> <<"ok">> \o HWalk(h, i + 1, pkg, defs)
      [] f \in {"C1", "C2"} ->
           LET k == IF f = "C1" THEN 1 ELSE 2 IN
           <<IF defs[pkg] = 0 THEN "unbound" ELSE IF defs[pkg] = k THEN "ok" ELSE "arity">> \o HWalk(h, i + 1, pkg, defs)
HOutcome(h) == HWalk(h, 1, "user", [p \in HPkgs |-> 0])
\* what the arity checks must say about the form at each position (the property's two directions; a call of a
\* name that is not defined when it is evaluated is not a call of a defun'd function: either answer is allowed)
HExpect(h) == [i \in DOMAIN h |-> LET o == HOutcome(h)[i] IN
                 IF o = "arity" THEN "must" ELSE IF o = "ok" THEN "mustnot" ELSE IF o = "unbound" THEN "may" ELSE "-"]
\* a history-insensitive summary (one signature per bare name for the whole file: the LAST definition) cannot satisfy
\* HExpect: the specification says where it must fail, so that exactly those positions are the recorded findings
LastDef(h) == LET ds == {i \in DOMAIN h : h[i] \in {"D1", "D2"}} IN
              IF ds = {} THEN 0 ELSE IF h[CHOOSE i \in ds : \A j \in ds : j <= i] = "D1" THEN 1 ELSE 2
FlowBlind(h) == [i \in DOMAIN h |->
                  IF h[i] \in {"C1", "C2"} THEN LastDef(h) # 0 /\ LastDef(h) # (IF h[i] = "C1" THEN 1 ELSE 2)
                  ELSE IF h[i] = "B0" THEN \A j \in DOMAIN h : h[j] # "BP" ELSE FALSE]
HistCases == {[src |-> "hist", s |-> NoShape, k |-> 0, name |-> "", kind |-> "", ctx |-> "", h |-> h] : h \in Histories}

\* ------------------------------------------------------------ enumeration
\* one initial state per case; the single step prints the specification's prediction for it
ShapeCases == {[src |-> "shape", s |-> s, k |-> k, name |-> "", kind |-> "", ctx |-> "", h |-> <<>>] : s \in Shapes, k \in 0..MAXK}
RegSig(j) == [req |-> Sigs[j].req, opt |-> Sigs[j].opt, rest |-> Sigs[j].rest, key |-> Sigs[j].key]
RegCases == UNION {{[src |-> "registry", s |-> RegSig(j), k |-> k, name |-> Sigs[j].name, kind |-> Sigs[j].kind, ctx |-> "", h |-> <<>>]
                     : k \in 0..(Sigs[j].req + Sigs[j].opt + 2 * Sigs[j].key + 2)} : j \in 1..Len(Sigs)}
ShadowCases == {[src |-> "shadow", s |-> NoShape, k |-> k, name |-> "car", kind |-> "fun", ctx |-> c, h |-> <<>>] : c \in Contexts, k \in 0..3}

Init == phase \in (ShapeCases \cup RegCases \cup ShadowCases \cup HistCases) /\ done = FALSE
Emit ==
  /\ ~done /\ done' = TRUE /\ UNCHANGED phase
  /\ IF phase.src = "shadow"
     THEN PrintT(ToJson([src |-> "shadow", ctx |-> phase.ctx, k |-> phase.k, reach |-> Reach(phase.ctx), expect |-> Expected(phase.ctx, phase.k)]))
     ELSE IF phase.src = "hist"
     THEN PrintT(ToJson([src |-> "hist", h |-> phase.h, out |-> HOutcome(phase.h), expect |-> HExpect(phase.h), blind |-> FlowBlind(phase.h)]))
     ELSE PrintT(ToJson([src |-> phase.src, name |-> phase.name, kind |-> phase.kind,
                         req |-> phase.s.req, opt |-> phase.s.opt, rest |-> phase.s.rest, key |-> phase.s.key, k |-> phase.k,
                         lint |-> LintReports(phase.s, phase.k), plain |-> DynPlain(phase.s, phase.k), kw |-> DynKw(phase.s, phase.k)]))
Next == Emit \/ (done /\ UNCHANGED vars)
Spec == Init /\ [][Next]_vars

\* the agreement theorem, evaluated in every state for the state's own case (and once globally by Agreement)
Inv == phase.src \in {"shadow", "hist"} \/ (Sound(phase.s, phase.k) /\ Complete(phase.s, phase.k) /\ NoArityAfterAccept(phase.s, phase.k))
=============================================================================
