------------------------------- MODULE Kernel -------------------------------
(***************************************************************************)
(* Kernel: the program-agnostic control skeleton of the ELPS evaluator     *)
(* (lisp/env.go eval / evalSExprCells / funCall / specialOpCall /          *)
(* macroCall / call / load, lisp/stack.go, lisp/runtime.go, the            *)
(* handler-bind / ignore-errors operators and the load-* builtins).        *)
(*                                                                         *)
(* The *program* is abstract: wherever the real evaluator consults the     *)
(* program text (which sub-form is next, is it the last body form, which   *)
(* function is called, does a builtin fail or panic) Next offers every     *)
(* alternative the evaluator's structure allows.  TLC therefore visits     *)
(* every control shape within the bounds and evaluates the invariants      *)
(* K1..K10 in each of them.                                                *)
(*                                                                         *)
(* `go` is the Go stack of the evaluator, one record per active Go         *)
(* function that owns deferred work; `frames` is Runtime.Stack.Frames;     *)
(* `ret` is the value travelling back up (value / error / tail-recursion   *)
(* mark / macro expansion).                                                *)
(*                                                                         *)
(* FIXTERM = TRUE models the tree with the repair "clear Terminal when a   *)
(* frame is reused by a tail iteration" (commit `fix: clear the Terminal   *)
(* flag ...`); FIXTERM = FALSE is the original behaviour and violates K7   *)
(* (a mark delivered to a non-tail position and dropped) - kept as the     *)
(* non-vacuity demonstration of K7.                                        *)
(***************************************************************************)
EXTENDS Integers, Sequences, FiniteSets, TLC

CONSTANTS FIDS, G, MAXPHYS, MAXTAIL, MAXNEST, MAXMACRO, KIDS, TRO,
          BUDGET,     \* 0 = unlimited
          ENTRIES,    \* number of top-level evaluations in a history
          FIXTERM,    \* TRUE: model the repair "clear Terminal when a frame is reused" (C02)
          CTXFIX      \* TRUE: model the repair "restore the bridged evaluation context" (C05)

VARIABLES frames, go, ret, steps, depth, conds, ctx, nentry, dropped
vars == <<frames, go, ret, steps, depth, conds, ctx, nentry, dropped>>

NoRet == [t |-> "none"]
Val   == [t |-> "val"]
Err(c, p) == [t |-> "err", c |-> c, panic |-> p]
Mark(r, f) == [t |-> "mark", rem |-> r, fid |-> f]
MacExp == [t |-> "macexp"]

Top(s) == s[Len(s)]
Pop(s) == SubSeq(s, 1, Len(s) - 1)
SetTop(s, x) == [s EXCEPT ![Len(s)] = x]
Frame(fid, kind) == [fid |-> fid, kind |-> kind, term |-> FALSE, tro |-> FALSE, iters |-> 0]

RECURSIVE Chain(_, _, _)
Chain(fs, i, fid) ==
  IF i = 0 THEN 0
  ELSE IF ~fs[i].term THEN 0
  ELSE IF fs[i].tro THEN -1
  ELSE IF fs[i].fid = fid THEN Len(fs) - i + 1
  ELSE Chain(fs, i - 1, fid)
TerminalFID(fs, fid) == Chain(fs, Len(fs), fid)

Act == Top(go)
Idle == ret.t = "none"
Nesting == Cardinality({i \in 1..Len(go) : go[i].t # "entry" /\ go[i].t # "loadk"})
\* is the current activation evaluated directly in the root environment?
\* (top-level form of an entry or of a nested load)
InRoot == Len(go) >= 2 /\ go[Len(go) - 1].t \in {"entry", "loadk"}

Init == /\ frames = <<>> /\ go = << [t |-> "entry"] >> /\ ret = NoRet
        /\ steps = 0 /\ depth = 0 /\ conds = 0 /\ ctx = "clean" /\ nentry = 0
        /\ dropped = FALSE

\* ---- top-level entry points (LoadStringContext-like) ----
Begin == /\ Act.t = "entry" /\ Idle /\ depth = 0 /\ nentry < ENTRIES
         /\ depth' = 1 /\ steps' = 0 /\ nentry' = nentry + 1
         /\ go' = Append(go, [t |-> "eval", md |-> 0])
         /\ UNCHANGED <<frames, ret, conds, ctx, dropped>>
End == /\ Act.t = "entry" /\ ~Idle /\ depth = 1
       /\ depth' = 0 /\ ret' = NoRet
       /\ UNCHANGED <<frames, go, steps, conds, ctx, nentry, dropped>>

\* ---- checkLimits ----
Charge(s) == IF BUDGET = 0 THEN s ELSE s + 1
Exhausted(s) == BUDGET > 0 /\ s > BUDGET

\* ---- eval activation ----
\* entry of eval: nesting check then step
EvalStart == /\ Idle /\ Act.t = "eval"
             /\ IF Nesting > MAXNEST
                THEN /\ ret' = Err("nest", FALSE) /\ go' = Pop(go) /\ UNCHANGED steps
                ELSE /\ steps' = Charge(steps)
                     /\ IF Exhausted(steps')
                        THEN ret' = Err("steps", FALSE) /\ go' = Pop(go)
                        ELSE ret' = NoRet /\ go' = SetTop(go, [Act EXCEPT !.t = "evalr"])
             /\ UNCHANGED <<frames, depth, conds, ctx, nentry, dropped>>
EvalAtom == /\ Idle /\ Act.t = "evalr"
            /\ ret' = Val /\ go' = Pop(go)
            /\ UNCHANGED <<frames, steps, depth, conds, ctx, nentry, dropped>>
EvalUnbound == /\ Idle /\ Act.t = "evalr"
               /\ ret' = Err("error", FALSE) /\ go' = Pop(go)
               /\ UNCHANGED <<frames, steps, depth, conds, ctx, nentry, dropped>>
EvalSExpr == /\ Idle /\ Act.t = "evalr" /\ Len(go) < G
             /\ LET hadTerm == Len(frames) > 0 /\ Top(frames).term IN
                /\ frames' = IF hadTerm THEN SetTop(frames, [Top(frames) EXCEPT !.term = FALSE]) ELSE frames
                /\ go' = SetTop(go, [t |-> "cells", restore |-> hadTerm, kids |-> 0, md |-> Act.md, root |-> InRoot])
             /\ UNCHANGED <<ret, steps, depth, conds, ctx, nentry, dropped>>

\* ---- cells ----
CellsArg == /\ Idle /\ Act.t = "cells" /\ Act.kids < KIDS /\ Len(go) < G
            /\ go' = Append(SetTop(go, [Act EXCEPT !.kids = @ + 1]), [t |-> "eval", md |-> 0])
            /\ UNCHANGED <<frames, ret, steps, depth, conds, ctx, nentry, dropped>>
CellsRestore(fs, a) == IF a.restore THEN SetTop(fs, [Top(fs) EXCEPT !.term = TRUE]) ELSE fs
CellsArgFailed == /\ ret.t = "err" /\ Act.t = "cells"
                  /\ frames' = CellsRestore(frames, Act) /\ go' = Pop(go)
                  /\ UNCHANGED <<ret, steps, depth, conds, ctx, nentry, dropped>>
CellsArgOk == /\ ret.t = "val" /\ Act.t = "cells"
              /\ ret' = NoRet /\ UNCHANGED <<frames, go, steps, depth, conds, ctx, nentry, dropped>>
CellsArgMark == /\ ret.t = "mark" /\ Act.t = "cells"      \* would be log.Panicf in evalSExprCells
                /\ FALSE /\ UNCHANGED vars

PushOr(fs, fr, onOk, onFail) == IF Len(fs) >= MAXPHYS THEN onFail ELSE onOk

CellsCallFun(fid) ==
  /\ Idle /\ Act.t = "cells"
  /\ LET fs == CellsRestore(frames, Act)
         npop == IF TRO THEN TerminalFID(fs, fid) ELSE 0 IN
     /\ npop >= 0
     /\ IF Len(fs) >= MAXPHYS
        THEN ret' = Err("stack", FALSE) /\ go' = Pop(go) /\ frames' = fs
        ELSE IF npop > 0
        THEN ret' = Mark(npop, fid) /\ go' = Pop(go) /\ frames' = fs
        ELSE /\ frames' = Append(fs, Frame(fid, "fun"))
             /\ go' = SetTop(go, [t |-> "fun", kids |-> 0, md |-> Act.md, root |-> Act.root])
             /\ ret' = NoRet
  /\ UNCHANGED <<steps, depth, conds, ctx, nentry, dropped>>

\* special operators / builtins with control structure:
\*   "op"    terminal-capable (if, progn, let ...)         "ie"   ignore-errors
\*   "hb"    handler-bind                                  "load" load-string (a builtin function frame)
\*   "mac"   macro call
OPS == {"op", "ie", "hb", "load", "mac"}
CellsCallOp(kind) ==
  /\ Idle /\ Act.t = "cells"
  /\ LET fs == CellsRestore(frames, Act) IN
     IF Len(fs) >= MAXPHYS
     THEN ret' = Err("stack", FALSE) /\ go' = Pop(go) /\ frames' = fs /\ UNCHANGED ctx
     ELSE /\ frames' = Append(fs, [Frame(kind, kind) EXCEPT !.tro = (kind \in {"ie", "hb", "load", "mac"})])
          /\ go' = SetTop(go, [t |-> kind, kids |-> 0, md |-> Act.md, root |-> Act.root, phase |-> "body", prevctx |-> ctx])
          /\ ret' = NoRet
          \* call(): evalCtx bridged onto the calling env around a builtin (not for lisp macros)
          /\ ctx' = IF Act.root /\ kind # "mac" THEN "set" ELSE ctx
  /\ UNCHANGED <<steps, depth, conds, nentry, dropped>>

\* ---- bodies ----
InBody == Act.t \in ({"fun"} \cup OPS)
BodyNonTail == /\ Idle /\ InBody /\ Act.kids >= 0 /\ Act.kids < KIDS /\ Len(go) < G
               /\ Act.t # "load" /\ (Act.t = "hb" => Act.phase = "body")
               /\ go' = Append(SetTop(go, [Act EXCEPT !.kids = @ + 1]), [t |-> "eval", md |-> 0])
               /\ UNCHANGED <<frames, ret, steps, depth, conds, ctx, nentry, dropped>>
\* value of a non-tail child: ignored by call()'s loop / progn's loop, unless error.
\* A MARK here is silently dropped by call() (fun bodies); record it.
BodyNonTailOk == /\ ret.t \in {"val", "mark"} /\ InBody /\ Act.kids >= 0 /\ Act.t # "load"
                 /\ (Act.t = "hb" => Act.phase = "body")
                 /\ ret' = NoRet /\ dropped' = (dropped \/ ret.t = "mark")
                 /\ UNCHANGED <<frames, go, steps, depth, conds, ctx, nentry>>
BodyTail == /\ Idle /\ Act.t \in {"fun", "op"} /\ Act.kids >= 0 /\ Len(go) < G
            /\ frames' = SetTop(frames, [Top(frames) EXCEPT !.term = TRUE])
            /\ go' = Append(SetTop(go, [Act EXCEPT !.kids = -1]), [t |-> "eval", md |-> 0])
            \* builtin returned a terminal expression: termEnv.evalCtx = ctx, never restored
            \* (repaired: the terminal environment's previous context is put back after the tail evaluation)
            /\ ctx' = IF Act.t = "op" /\ Act.root THEN (IF CTXFIX THEN "set" ELSE "leaked") ELSE ctx
            /\ UNCHANGED <<ret, steps, depth, conds, nentry, dropped>>

\* leaving an op activation normally restores the bridged context (not deferred)
RestoreCtx(a, c) == IF a.t \in OPS /\ a.t # "mac" /\ a.root /\ c # "leaked" THEN a.prevctx ELSE c

BodyReturn(r) == /\ Idle /\ Act.t \in {"op", "ie", "hb"} /\ Act.kids >= 0
                 /\ (Act.t = "hb" => Act.phase = "body")
                 /\ ret' = r /\ go' = Pop(go) /\ frames' = Pop(frames)
                 /\ ctx' = RestoreCtx(Act, ctx)
                 /\ UNCHANGED <<steps, depth, conds, nentry, dropped>>
\* host builtin panics: recovered by the enclosing eval; defers run, but the
\* non-deferred context restore in call() is skipped
BodyPanic == /\ Idle /\ Act.t = "op" /\ Act.kids >= 0
             /\ ret' = Err("internal-panic", TRUE) /\ go' = Pop(go) /\ frames' = Pop(frames)
             /\ ctx' = IF CTXFIX THEN RestoreCtx(Act, ctx) ELSE ctx       \* repaired: the restore is deferred
             /\ UNCHANGED <<steps, depth, conds, nentry, dropped>>
\* macro body returns its expansion: eval re-evaluates it in place (goto eval)
MacroReturn == /\ Idle /\ Act.t = "mac" /\ Act.kids >= 0
               /\ frames' = Pop(frames)
               /\ IF Act.md + 1 > MAXMACRO
                  THEN ret' = Err("macro", FALSE) /\ go' = Pop(go) /\ UNCHANGED steps
                  ELSE /\ steps' = Charge(steps)
                       /\ IF Exhausted(steps')
                          THEN ret' = Err("steps", FALSE) /\ go' = Pop(go)
                          ELSE ret' = NoRet /\ go' = SetTop(go, [t |-> "evalr", md |-> Act.md + 1])
               /\ UNCHANGED <<depth, conds, ctx, nentry, dropped>>

\* ignore-errors
IgnoreSwallow == /\ ret.t = "err" /\ Act.t = "ie"
                 /\ ret' = IF ret.panic THEN ret ELSE Val
                 /\ go' = Pop(go) /\ frames' = Pop(frames) /\ ctx' = RestoreCtx(Act, ctx)
                 /\ UNCHANGED <<steps, depth, conds, nentry, dropped>>

\* handler-bind: error from a body form
HBNoMatch == /\ ret.t = "err" /\ Act.t = "hb" /\ Act.phase = "body"
             /\ go' = Pop(go) /\ frames' = Pop(frames) /\ ctx' = RestoreCtx(Act, ctx)
             /\ UNCHANGED <<ret, steps, depth, conds, nentry, dropped>>
HBMatch == /\ ret.t = "err" /\ Act.t = "hb" /\ Act.phase = "body" /\ Len(go) < G
           \* "condition" never matches a real panic; an explicit name may (abstracted as a choice)
           /\ ret' = NoRet
           /\ go' = Append(SetTop(go, [Act EXCEPT !.phase = "hexpr"]), [t |-> "eval", md |-> 0])
           /\ UNCHANGED <<frames, steps, depth, conds, ctx, nentry, dropped>>
HBExprDone == /\ Act.t = "hb" /\ Act.phase = "hexpr" /\ ret.t \in {"val", "err"}
              /\ IF ret.t = "err"
                 THEN /\ go' = Pop(go) /\ frames' = Pop(frames) /\ ctx' = RestoreCtx(Act, ctx)
                      /\ UNCHANGED <<ret, conds>>
                 ELSE /\ Len(go) < G
                      /\ conds' = conds + 1 /\ ret' = NoRet
                      /\ go' = Append(SetTop(go, [Act EXCEPT !.phase = "hcall"]), [t |-> "eval", md |-> 0])
                      /\ UNCHANGED <<frames, ctx>>
              /\ UNCHANGED <<steps, depth, nentry, dropped>>
HBCallDone == /\ Act.t = "hb" /\ Act.phase = "hcall" /\ ~Idle
              /\ conds' = conds - 1
              /\ go' = Pop(go) /\ frames' = Pop(frames) /\ ctx' = RestoreCtx(Act, ctx)
              /\ UNCHANGED <<ret, steps, depth, nentry, dropped>>

\* load-string: nested top-level evaluation in the root environment
LoadBegin == /\ Idle /\ Act.t = "load" /\ Act.kids = 0 /\ Len(go) + 1 < G
             /\ depth' = depth + 1
             /\ go' = Append(Append(SetTop(go, [Act EXCEPT !.kids = 1]), [t |-> "loadk"]), [t |-> "eval", md |-> 0])
             /\ UNCHANGED <<frames, ret, steps, conds, ctx, nentry, dropped>>
LoadFormDone == /\ Act.t = "loadk" /\ ~Idle
                /\ depth' = depth - 1 /\ go' = Pop(go)
                /\ UNCHANGED <<frames, ret, steps, conds, ctx, nentry, dropped>>
LoadReturn == /\ Act.t = "load" /\ Act.kids = 1 /\ ~Idle
              /\ go' = Pop(go) /\ frames' = Pop(frames) /\ ctx' = RestoreCtx(Act, ctx)
              /\ UNCHANGED <<ret, steps, depth, conds, nentry, dropped>>

\* result arrives at a fun/op activation awaiting its tail child, or an error anywhere in a body
BodyResult ==
  /\ Act.t \in {"fun", "op", "mac"} /\ ~Idle
  /\ \/ Act.kids = -1
     \/ ret.t = "err"
  /\ IF ret.t = "mark"
     THEN IF ret.rem - 1 <= 0
          THEN IF Top(frames).iters + 1 > MAXTAIL
               THEN /\ ret' = Err("tail", FALSE) /\ go' = Pop(go) /\ frames' = Pop(frames)
                    /\ ctx' = RestoreCtx(Act, ctx) /\ UNCHANGED steps
               ELSE /\ steps' = Charge(steps)
                    /\ IF Exhausted(steps')
                       THEN /\ ret' = Err("steps", FALSE) /\ go' = Pop(go) /\ frames' = Pop(frames)
                            /\ ctx' = RestoreCtx(Act, ctx)
                       ELSE /\ frames' = SetTop(frames, [Top(frames) EXCEPT !.iters = @ + 1,
                                                          !.term = IF FIXTERM THEN FALSE ELSE @])
                            /\ go' = SetTop(go, [Act EXCEPT !.kids = 0])
                            /\ ret' = NoRet /\ UNCHANGED ctx
          ELSE /\ ret' = [ret EXCEPT !.rem = @ - 1] /\ go' = Pop(go) /\ frames' = Pop(frames)
               /\ ctx' = RestoreCtx(Act, ctx) /\ UNCHANGED steps
     ELSE /\ go' = Pop(go) /\ frames' = Pop(frames) /\ ctx' = RestoreCtx(Act, ctx)
          /\ UNCHANGED <<ret, steps>>
  /\ UNCHANGED <<depth, conds, nentry, dropped>>

Next == \/ Begin \/ End
        \/ EvalStart \/ EvalAtom \/ EvalUnbound \/ EvalSExpr
        \/ CellsArg \/ CellsArgFailed \/ CellsArgOk
        \/ \E f \in FIDS : CellsCallFun(f)
        \/ \E k \in OPS : CellsCallOp(k)
        \/ BodyNonTail \/ BodyNonTailOk \/ BodyTail
        \/ BodyReturn(Val) \/ BodyReturn(Err("error", FALSE)) \/ BodyPanic \/ MacroReturn
        \/ IgnoreSwallow \/ HBNoMatch \/ HBMatch \/ HBExprDone \/ HBCallDone
        \/ LoadBegin \/ LoadFormDone \/ LoadReturn
        \/ BodyResult

Spec == Init /\ [][Next]_vars

\* ---- invariants ----
K1 == Len(frames) <= MAXPHYS
K2 == Nesting <= MAXNEST + 1
K5 == \A i \in 1..Len(frames) : ~(frames[i].term /\ frames[i].tro)
NoPanicChain == \A f \in FIDS : TerminalFID(frames, f) >= 0
K7 == ~dropped
K7b == ret.t = "mark" => Act.t \in {"fun", "op"}
K9 == \A i \in 1..Len(frames) : frames[i].iters <= MAXTAIL
AtRest == Act.t = "entry" /\ depth = 0
K10 == AtRest => (frames = <<>> /\ conds = 0 /\ Len(go) = 1)
K10ctx == AtRest => ctx = "clean"
\* K12 CondDiscipline: a condition is pending for rethrow exactly while a matched handler is being called
K12 == conds = Cardinality({i \in 1..Len(go) : go[i].t = "hb" /\ go[i].phase = "hcall"})
FramesMatchGo == Len(frames) = Cardinality({i \in 1..Len(go) : go[i].t \in ({"fun"} \cup OPS)})
\* K4 BudgetStops: once the budget is exhausted every further charged step fails with the
\* step-limit error (no evaluation step succeeds any more); the counter never decreases
\* within an entry (K3)
BudgetStops == [][(BUDGET > 0 /\ steps > BUDGET /\ steps' > steps) => (ret'.t = "err" /\ ret'.c = "steps")]_vars
StepMonotone == [][steps' >= steps \/ (depth = 0 /\ steps' = 0)]_vars
View == <<frames, go, ret, steps, depth, conds, ctx, nentry, dropped>>
=============================================================================
