-------------------------------- MODULE Bytes --------------------------------
(***************************************************************************)
(* Bytes: byte strings as mutable objects (property C11, the append-bytes  *)
(* family that Heap.tla leaves out).  A byte string is an object holding a *)
(* sequence of bytes; variables name objects.  append-bytes! grows the     *)
(* object its FIRST argument names, in place, by the content of its second *)
(* argument (another byte string, a string or a list of ints); append-bytes *)
(* and to-bytes make a new object; append! adds one byte in place.  No two  *)
(* objects ever share storage: a mutation is seen through exactly the      *)
(* variables bound to the mutated object.                                  *)
(*                                                                         *)
(* The initial heap is chosen so that storage sharing would show: g1 has   *)
(* been grown in place (the implementation holds spare capacity behind     *)
(* it), g2 is empty, g3 was made in one piece.  TLC enumerates every       *)
(* history of LEN operations and prints the content of every variable      *)
(* after every step; the harness replays the history on the real           *)
(* interpreter and compares every variable after every step (B1).          *)
(***************************************************************************)
EXTENDS Integers, Sequences, FiniteSets, TLC, Json

CONSTANTS LEN

VARS == {"g1", "g2", "g3"}
SRCS == VARS \cup {"str", "list"}          \* a second argument: a variable, the string "yz", the list (7 8)
Content(src, obj, env) == IF src \in VARS THEN obj[env[src]] ELSE IF src = "str" THEN <<121, 122>> ELSE <<7, 8>>

VARIABLES env,     \* variable -> object id
          obj,     \* object id -> sequence of bytes
          hist     \* operations so far, each with the content of every variable after it
vars == <<env, obj, hist>>

Init == /\ env = [v \in VARS |-> CASE v = "g1" -> 1 [] v = "g2" -> 2 [] v = "g3" -> 3]
        /\ obj = <<(<<97, 98, 99, 100>>), (<<>>), (<<120, 121, 122>>)>>
        /\ hist = <<>>

Snapshot(e, o) == [v \in VARS |-> o[e[v]]]
Record(op, e, o) == Append(hist, [op |-> op, after |-> Snapshot(e, o)])

\* (append-bytes! x src)
AppendM(x, src) == /\ obj' = [obj EXCEPT ![env[x]] = @ \o Content(src, obj, env)]
                   /\ env' = env
                   /\ hist' = Record([op |-> "append-bytes!", x |-> x, src |-> src], env, obj')
\* (set 'x (append-bytes y src)): a new object
AppendC(x, y, src) == /\ obj' = Append(obj, obj[env[y]] \o Content(src, obj, env))
                      /\ env' = [env EXCEPT ![x] = Len(obj) + 1]
                      /\ hist' = Record([op |-> "append-bytes", x |-> x, y |-> y, src |-> src], env', obj')
\* (append! x 33)
Push(x) == /\ obj' = [obj EXCEPT ![env[x]] = Append(@, 33)]
           /\ env' = env
           /\ hist' = Record([op |-> "append!", x |-> x], env, obj')
\* (set 'x y): two names for one object
Alias(x, y) == /\ x # y /\ env' = [env EXCEPT ![x] = env[y]] /\ obj' = obj
               /\ hist' = Record([op |-> "alias", x |-> x, y |-> y], env', obj)

Step == /\ Len(hist) < LEN
        /\ \/ \E x \in VARS, src \in SRCS : AppendM(x, src)
           \/ \E x \in VARS, y \in VARS : AppendC(x, y, "str")
           \/ \E x \in VARS : Push(x)
           \/ \E x \in VARS, y \in VARS : Alias(x, y)
Emit == /\ Len(hist) = LEN /\ PrintT(ToJson([hist |-> hist])) /\ hist' = Append(hist, [op |-> [op |-> "end"], after |-> Snapshot(env, obj)])
        /\ UNCHANGED <<env, obj>>
Next == Step \/ Emit
Spec == Init /\ [][Next]_vars

\* the discipline, stated on the model itself: a step changes the content of at most one object
Frame == [][Cardinality({i \in 1..Len(obj) : obj'[i] # obj[i]}) <= 1]_vars
=============================================================================
