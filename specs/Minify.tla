------------------------------- MODULE Minify -------------------------------
(***************************************************************************)
(* Minify: the relation between a source and its minified form that can be *)
(* decided structurally from the two expression trees and the symbol map   *)
(* the minifier reports (property C17, binding B3):                        *)
(*                                                                         *)
(*   InverseOK      replacing every symbol of the minified tree that the   *)
(*                  map lists by its original name reproduces the original *)
(*                  tree exactly (same shape, atoms, quoting): the map     *)
(*                  inverts every rename and nothing else was changed      *)
(*   KeptOK         keywords, symbols inside quoted data and excluded      *)
(*                  names are spelled as before; a package-qualified       *)
(*                  reference keeps its package prefix (its name part may  *)
(*                  follow the definition's rename).  With rename-exports  *)
(*                  the names listed by top-level (export ...) forms are   *)
(*                  names, not data: they follow the map too              *)
(*   Injective      no two originals share a minified name                 *)
(*                                                                         *)
(* Meaning preservation itself (no capture, exported and top-level names   *)
(* still reachable across packages and files) is decided by evaluating     *)
(* original and minified sessions in fresh real runtimes.                  *)
(***************************************************************************)
EXTENDS Integers, Sequences, FiniteSets, TLC, Json

MCases == ndJsonDeserialize("mincases.ndjson")   \* [id, orig : Seq(tree), min : Seq(tree), m2o : seq of pairs, excl : Seq(name), rex : rename-exports]
VARIABLES cur, done
vars == <<cur, done>>

\* trees: [t, s, q, c, kw, pk, nm]  (pk: package prefix of a qualified symbol, nm: its name part)   t in int float str sym list ; ints / floats / strings carry their printed form in s
Map(c) == [p \in {c.m2o[j][1] : j \in 1..Len(c.m2o)} |-> (CHOOSE j \in 1..Len(c.m2o) : c.m2o[j][1] = p)]
Orig(c, name) == LET js == {j \in 1..Len(c.m2o) : c.m2o[j][1] = name} IN IF js = {} THEN name ELSE c.m2o[CHOOSE j \in js : TRUE][2]

IsExport(t) == t.t = "list" /\ t.q = 0 /\ Len(t.c) > 0 /\ t.c[1].t = "sym" /\ t.c[1].s = "export"
\* strs: string literals are names too (inside an export form under rename-exports)
RECURSIVE Unrename(_, _, _)
Unrename(c, t, strs) ==
  IF t.t = "sym" THEN (IF t.pk # "" THEN [t EXCEPT !.nm = Orig(c, t.nm), !.s = t.pk \o ":" \o Orig(c, t.nm)] ELSE [t EXCEPT !.s = Orig(c, t.s), !.nm = Orig(c, t.s)])
  ELSE IF t.t = "str" /\ strs THEN [t EXCEPT !.s = Orig(c, t.s)]
  ELSE IF t.t = "list" THEN [t EXCEPT !.c = [j \in 1..Len(t.c) |-> Unrename(c, t.c[j], strs)]]
  ELSE t
InverseOK(c) == Len(c.orig) = Len(c.min) /\ \A j \in 1..Len(c.orig) : Unrename(c, c.min[j], c.rex /\ IsExport(c.min[j])) = c.orig[j]

\* parallel walk over trees of the same shape: which original symbols must keep their spelling
RECURSIVE Kept(_, _, _, _)
Kept(c, o, m, quoted) ==
  IF o.t # m.t THEN FALSE
  ELSE IF o.t = "sym"
       THEN LET must == quoted \/ o.q > 0 \/ o.kw \/ (\E j \in 1..Len(c.excl) : c.excl[j] = o.nm) IN (must => m.s = o.s) /\ m.pk = o.pk
  ELSE IF o.t = "list"
       THEN Len(o.c) = Len(m.c) /\ \A j \in 1..Len(o.c) : Kept(c, o.c[j], m.c[j], quoted \/ o.q > 0)
  ELSE TRUE
KeptOK(c) == Len(c.orig) = Len(c.min) /\ \A j \in 1..Len(c.orig) : (c.rex /\ IsExport(c.orig[j])) \/ Kept(c, c.orig[j], c.min[j], FALSE)
Injective(c) == \A i, j \in 1..Len(c.m2o) : (c.m2o[i][1] = c.m2o[j][1]) => i = j

Init == \E i \in 1..Len(MCases) : cur = MCases[i] /\ done = FALSE
Emit == /\ ~done /\ done' = TRUE /\ UNCHANGED cur
        /\ PrintT(ToJson([id |-> cur.id, inverse |-> InverseOK(cur), kept |-> KeptOK(cur), injective |-> Injective(cur)]))
Next == Emit \/ (done /\ UNCHANGED vars)
Spec == Init /\ [][Next]_vars
=============================================================================
