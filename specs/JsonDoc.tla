------------------------------- MODULE JsonDoc -------------------------------
(***************************************************************************)
(* JsonDoc: what json:load-* must accept and what it must return, what        *)
(* json:dump-* must write, and that the two are inverse (property C13).    *)
(*                                                                         *)
(* A document is a sequence of characters (each a short name, the harness  *)
(* owns the mapping to bytes).  Parse is a character-level recursive       *)
(* descent over the RFC 8259 grammar; it yields acceptance and the decoded *)
(* structure with every number kept as its literal text plus the two       *)
(* syntactic facts the load options depend on (written as an integer; fits *)
(* a 64-bit int), and every string as its sequence of code points after    *)
(* escape processing (invalid UTF-8 and lone surrogates become U+FFFD).    *)
(* Encode is the canonical writer: members in key order, no white space,   *)
(* the escapes of encodeString, integers in decimal, floats positional     *)
(* between 1e-6 and 1e21 and exponential outside with the one-digit        *)
(* negative exponent cleaned up.                                           *)
(*                                                                         *)
(* MODE = "docs":   every document over ALPHA (chunks of characters) up to *)
(*                  MAXLEN chunks, optionally wrapped (WRAP), is printed   *)
(*                  with Parse's verdict - replayed into the real          *)
(*                  json:load-* under the four option combinations (B1).   *)
(* MODE = "values": every value of a bounded domain read from              *)
(*                  jsonvals.ndjson is printed with Encode's text -        *)
(*                  compared with the real json:dump-* byte for byte; and  *)
(*                  TLC checks, inside the model, RoundTrip: Parse accepts *)
(*                  Encode(v) and decodes it to v.                         *)
(***************************************************************************)
EXTENDS Integers, Sequences, FiniteSets, TLC, Json

CONSTANTS MODE, ALPHA, MAXLEN, WRAP

\* ---------------------------------------------------------------- characters
Chars(chunk) ==
  CASE chunk = "true" -> <<"t", "r", "u", "e">>
    [] chunk = "false" -> <<"f", "a", "l", "s", "e">>
    [] chunk = "null" -> <<"n", "u", "l", "l">>
    [] chunk = "big" -> <<"9", "2", "2", "3", "3", "7", "2", "0", "3", "6", "8", "5", "4", "7", "7", "5", "8", "0">>
    [] chunk = "e20" -> <<"1", "0", "0", "0", "0", "0", "0", "0", "0", "0", "0", "0", "0", "0", "0", "0", "0", "0", "0", "0", "0">>        \* 10^20: 21 digits
    [] chunk = "e21" -> <<"1", "0", "0", "0", "0", "0", "0", "0", "0", "0", "0", "0", "0", "0", "0", "0", "0", "0", "0", "0", "0", "0">>   \* 10^21: 22 digits
    [] chunk = "str" -> <<"\"", "a", "\"">>
    [] chunk = "q" -> <<"\"">>
    [] chunk = "bs" -> <<"\\">>
    [] chunk = "sp" -> <<" ">>
    [] chunk = "u0041" -> <<"u", "0", "0", "4", "1">>
    [] chunk = "u000a" -> <<"u", "0", "0", "0", "a">>
    [] chunk = "ud83d" -> <<"u", "d", "8", "3", "d">>
    [] chunk = "ude00" -> <<"u", "d", "e", "0", "0">>
    [] OTHER -> <<chunk>>

Digits == {"0", "1", "2", "3", "4", "5", "6", "7", "8", "9"}
DigitVal(c) == CASE c = "0" -> 0 [] c = "1" -> 1 [] c = "2" -> 2 [] c = "3" -> 3 [] c = "4" -> 4
                 [] c = "5" -> 5 [] c = "6" -> 6 [] c = "7" -> 7 [] c = "8" -> 8 [] c = "9" -> 9
HexChars == Digits \cup {"a", "b", "c", "d", "e", "f", "A", "B", "C", "D", "E", "F"}
HexVal(c) == IF c \in Digits THEN DigitVal(c)
             ELSE CASE c \in {"a", "A"} -> 10 [] c \in {"b", "B"} -> 11 [] c \in {"c", "C"} -> 12
                    [] c \in {"d", "D"} -> 13 [] c \in {"e", "E"} -> 14 [] c \in {"f", "F"} -> 15
Ws == {" ", "nl", "tab", "cr"}
\* characters that may not appear raw inside a string
RawControl == {"nl", "tab", "cr", "ctl"}
\* code point of a raw character inside a string ("bad" is an invalid UTF-8 byte: read as U+FFFD)
CodeOf(c) ==
  CASE c = "hi" -> 233 [] c = "ls" -> 8232 [] c = "bad" -> 65533 [] c = "fffd" -> 65533 [] c = "del" -> 127 [] c = "emoji" -> 128512
    [] c = " " -> 32 [] c = "a" -> 97 [] c = "b" -> 98 [] c = "e" -> 101 [] c = "f" -> 102 [] c = "l" -> 108 [] c = "n" -> 110
    [] c = "r" -> 114 [] c = "s" -> 115 [] c = "t" -> 116 [] c = "u" -> 117 [] c = "d" -> 100 [] c = "c" -> 99
    [] c = "E" -> 69 [] c = "A" -> 65 [] c = "i" -> 105
    [] c = "{" -> 123 [] c = "}" -> 125 [] c = "[" -> 91 [] c = "]" -> 93 [] c = ":" -> 58 [] c = "," -> 44
    [] c = "-" -> 45 [] c = "+" -> 43 [] c = "." -> 46 [] c = "/" -> 47 [] c = "<" -> 60 [] c = ">" -> 62 [] c = "&" -> 38
    [] c \in Digits -> 48 + DigitVal(c)

Fail == [ok |-> FALSE, pos |-> 0, val |-> [t |-> "none"]]
Ok(p, v) == [ok |-> TRUE, pos |-> p, val |-> v]

RECURSIVE SkipWs(_, _)
SkipWs(d, i) == IF i <= Len(d) /\ d[i] \in Ws THEN SkipWs(d, i + 1) ELSE i

\* ---------------------------------------------------------------- numbers
RECURSIVE DigitRun(_, _)
DigitRun(d, i) == IF i <= Len(d) /\ d[i] \in Digits THEN DigitRun(d, i + 1) ELSE i      \* first index after the run

MaxInt == <<9, 2, 2, 3, 3, 7, 2, 0, 3, 6, 8, 5, 4, 7, 7, 5, 8, 0, 7>>
RECURSIVE LexLeq(_, _, _)
LexLeq(a, b, i) == IF i > Len(a) THEN TRUE ELSE IF a[i] < b[i] THEN TRUE ELSE IF a[i] > b[i] THEN FALSE ELSE LexLeq(a, b, i + 1)
\* digits: sequence of digit values without sign or leading zeros
FitsInt(neg, digits) ==
  \/ Len(digits) < 19
  \/ Len(digits) = 19 /\ LexLeq(digits, IF neg THEN [MaxInt EXCEPT ![19] = 8] ELSE MaxInt, 1)

ParseNumber(d, i) ==
  LET neg == d[i] = "-"
      s == IF neg THEN i + 1 ELSE i IN
  IF s > Len(d) \/ d[s] \notin Digits THEN Fail
  ELSE LET intEnd == IF d[s] = "0" THEN s + 1 ELSE DigitRun(d, s)
           hasFrac == intEnd <= Len(d) /\ d[intEnd] = "."
           fracEnd == IF hasFrac THEN DigitRun(d, intEnd + 1) ELSE intEnd
           fracOk == ~hasFrac \/ fracEnd > intEnd + 1
           hasExp == fracEnd <= Len(d) /\ d[fracEnd] \in {"e", "E"}
           es == IF hasExp /\ fracEnd + 1 <= Len(d) /\ d[fracEnd + 1] \in {"+", "-"} THEN fracEnd + 2 ELSE fracEnd + 1
           expEnd == IF hasExp THEN DigitRun(d, es) ELSE fracEnd
           expOk == ~hasExp \/ expEnd > es
           lit == SubSeq(d, i, expEnd - 1)
           isInt == ~hasFrac /\ ~hasExp /\ lit # <<"-", "0">>
           digs == [k \in 1..(intEnd - s) |-> DigitVal(d[s + k - 1])] IN
       IF ~fracOk \/ ~expOk THEN Fail
       ELSE Ok(expEnd, [t |-> "num", lit |-> lit, int |-> isInt, fits |-> isInt /\ FitsInt(neg, digs)])

\* ---------------------------------------------------------------- strings
IsHex4(d, i) == i + 3 <= Len(d) /\ \A k \in 0..3 : d[i + k] \in HexChars
Hex4(d, i) == 4096 * HexVal(d[i]) + 256 * HexVal(d[i + 1]) + 16 * HexVal(d[i + 2]) + HexVal(d[i + 3])
EscCode(c) == CASE c = "\"" -> 34 [] c = "\\" -> 92 [] c = "/" -> 47 [] c = "b" -> 8 [] c = "f" -> 12
                [] c = "n" -> 10 [] c = "r" -> 13 [] c = "t" -> 9

\* the code points of the string whose opening quote is at d[i - 1]; j scans, acc accumulates
RECURSIVE StrBody(_, _, _)
StrBody(d, j, acc) ==
  IF j > Len(d) THEN Fail
  ELSE IF d[j] = "\"" THEN Ok(j + 1, [t |-> "str", s |-> acc])
  ELSE IF d[j] \in RawControl THEN Fail
  ELSE IF d[j] = "\\" THEN
       (IF j + 1 > Len(d) THEN Fail
        ELSE IF d[j + 1] \in {"\"", "\\", "/", "b", "f", "n", "r", "t"} THEN StrBody(d, j + 2, Append(acc, EscCode(d[j + 1])))
        ELSE IF d[j + 1] = "u" /\ IsHex4(d, j + 2) THEN
             (LET u == Hex4(d, j + 2) IN
              IF u >= 55296 /\ u <= 56319                        \* high surrogate: needs a low one right behind it
              THEN (IF j + 7 <= Len(d) /\ d[j + 6] = "\\" /\ d[j + 7] = "u" /\ IsHex4(d, j + 8)
                       /\ Hex4(d, j + 8) >= 56320 /\ Hex4(d, j + 8) <= 57343
                    THEN StrBody(d, j + 12, Append(acc, 65536 + (u - 55296) * 1024 + (Hex4(d, j + 8) - 56320)))
                    ELSE StrBody(d, j + 6, Append(acc, 65533)))
              ELSE IF u >= 56320 /\ u <= 57343 THEN StrBody(d, j + 6, Append(acc, 65533))
              ELSE StrBody(d, j + 6, Append(acc, u)))
        ELSE Fail)
  ELSE StrBody(d, j + 1, Append(acc, CodeOf(d[j])))

Literal(d, i, word) == i + Len(word) - 1 <= Len(d) /\ SubSeq(d, i, i + Len(word) - 1) = word

\* ---------------------------------------------------------------- values
RECURSIVE ParseValue(_, _, _), ParseElems(_, _, _, _), ParseMembers(_, _, _, _, _)
\* depth guards the recursion only against TLC's own stack; documents here nest a few levels
ParseValue(d, i0, depth) ==
  LET i == SkipWs(d, i0) IN
  IF i > Len(d) THEN Fail
  ELSE CASE d[i] = "{" ->
            (LET j == SkipWs(d, i + 1) IN
             IF j <= Len(d) /\ d[j] = "}" THEN Ok(j + 1, [t |-> "obj", k |-> <<>>, c |-> <<>>])
             ELSE ParseMembers(d, j, <<>>, <<>>, depth))
         [] d[i] = "[" ->
            (LET j == SkipWs(d, i + 1) IN
             IF j <= Len(d) /\ d[j] = "]" THEN Ok(j + 1, [t |-> "arr", c |-> <<>>])
             ELSE ParseElems(d, j, <<>>, depth))
         [] d[i] = "\"" -> StrBody(d, i + 1, <<>>)
         [] d[i] = "-" \/ d[i] \in Digits -> ParseNumber(d, i)
         [] d[i] = "t" -> IF Literal(d, i, <<"t", "r", "u", "e">>) THEN Ok(i + 4, [t |-> "true"]) ELSE Fail
         [] d[i] = "f" -> IF Literal(d, i, <<"f", "a", "l", "s", "e">>) THEN Ok(i + 5, [t |-> "false"]) ELSE Fail
         [] d[i] = "n" -> IF Literal(d, i, <<"n", "u", "l", "l">>) THEN Ok(i + 4, [t |-> "null"]) ELSE Fail
         [] OTHER -> Fail
ParseElems(d, i, acc, depth) ==
  LET r == ParseValue(d, i, depth + 1) IN
  IF ~r.ok THEN Fail
  ELSE LET j == SkipWs(d, r.pos) IN
       IF j > Len(d) THEN Fail
       ELSE IF d[j] = "]" THEN Ok(j + 1, [t |-> "arr", c |-> Append(acc, r.val)])
       ELSE IF d[j] = "," THEN ParseElems(d, j + 1, Append(acc, r.val), depth)
       ELSE Fail
ParseMembers(d, i0, ks, vs, depth) ==
  LET i == SkipWs(d, i0) IN
  IF i > Len(d) \/ d[i] # "\"" THEN Fail
  ELSE LET k == StrBody(d, i + 1, <<>>) IN
       IF ~k.ok THEN Fail
       ELSE LET c == SkipWs(d, k.pos) IN
            IF c > Len(d) \/ d[c] # ":" THEN Fail
            ELSE LET r == ParseValue(d, c + 1, depth + 1) IN
                 IF ~r.ok THEN Fail
                 ELSE LET j == SkipWs(d, r.pos) IN
                      IF j > Len(d) THEN Fail
                      ELSE IF d[j] = "}" THEN Ok(j + 1, [t |-> "obj", k |-> Append(ks, k.val.s), c |-> Append(vs, r.val)])
                      ELSE IF d[j] = "," THEN ParseMembers(d, j + 1, Append(ks, k.val.s), Append(vs, r.val), depth)
                      ELSE Fail

Parse(d) == LET r == ParseValue(d, 1, 0) IN
            IF r.ok /\ SkipWs(d, r.pos) = Len(d) + 1 THEN r ELSE Fail

\* ---------------------------------------------------------------- the canonical writer
RECURSIVE NatChars(_)
NatChars(n) == IF n < 10 THEN <<ToString(n)>> ELSE NatChars(n \div 10) \o <<ToString(n % 10)>>
Hex1(n) == SubSeq(<<"0", "1", "2", "3", "4", "5", "6", "7", "8", "9", "a", "b", "c", "d", "e", "f">>, n + 1, n + 1)
\* the character naming a code point that is written raw
RawOf(cp) ==
  CASE cp = 233 -> "hi" [] cp = 65533 -> "fffd" [] cp = 127 -> "del" [] cp = 128512 -> "emoji"
    [] cp = 32 -> " " [] cp = 97 -> "a" [] cp = 98 -> "b" [] cp = 101 -> "e" [] cp = 110 -> "n" [] cp = 117 -> "u"
    [] cp = 65 -> "A" [] cp = 47 -> "/" [] cp = 123 -> "{" [] cp = 58 -> ":" [] cp = 44 -> "," [] cp = 48 -> "0" [] cp = 49 -> "1" [] cp = 57 -> "9"
    [] cp = 45 -> "-" [] cp = 116 -> "t" [] cp = 114 -> "r" [] cp = 108 -> "l" [] cp = 115 -> "s" [] cp = 102 -> "f" [] cp = 105 -> "i"
\* code point -1 stands for a byte that is not valid UTF-8: written as the escape of U+FFFD (a real U+FFFD is written raw)
EncChar(cp) ==
  CASE cp = -1 -> <<"\\", "u", "f", "f", "f", "d">>
    [] cp = 34 -> <<"\\", "\"">> [] cp = 92 -> <<"\\", "\\">>
    [] cp = 8 -> <<"\\", "b">> [] cp = 12 -> <<"\\", "f">> [] cp = 10 -> <<"\\", "n">> [] cp = 13 -> <<"\\", "r">> [] cp = 9 -> <<"\\", "t">>
    [] cp < 32 \/ cp \in {60, 62, 38} -> <<"\\", "u", "0", "0">> \o Hex1(cp \div 16) \o Hex1(cp % 16)
    [] cp = 8232 -> <<"\\", "u", "2", "0", "2", "8">> [] cp = 8233 -> <<"\\", "u", "2", "0", "2", "9">>
    [] OTHER -> <<RawOf(cp)>>
RECURSIVE EncStr(_, _)
EncStr(s, i) == IF i > Len(s) THEN <<>> ELSE EncChar(s[i]) \o EncStr(s, i + 1)
EncString(s) == <<"\"">> \o EncStr(s, 1) \o <<"\"">>

RECURSIVE Zeros(_)
Zeros(n) == IF n <= 0 THEN <<>> ELSE <<"0">> \o Zeros(n - 1)
DigChars(ds) == [k \in 1..Len(ds) |-> ToString(ds[k])]
\* a float is [neg, ds, p]: value = 0.d1 d2 .. dn * 10^p with ds its shortest round-trip digits (ds = <<0>>: zero)
EncFloat(f) ==
  LET sign == IF f.neg THEN <<"-">> ELSE <<>>
      n == Len(f.ds)
      p == f.p IN
  IF f.ds = <<0>> THEN sign \o <<"0">>
  ELSE IF p >= -5 /\ p <= 21 THEN
       sign \o (IF p <= 0 THEN <<"0", ".">> \o Zeros(-p) \o DigChars(f.ds)
                ELSE IF p < n THEN DigChars(SubSeq(f.ds, 1, p)) \o <<".">> \o DigChars(SubSeq(f.ds, p + 1, n))
                ELSE DigChars(f.ds) \o Zeros(p - n))
  ELSE LET e == p - 1
           mant == <<ToString(f.ds[1])>> \o (IF n > 1 THEN <<".">> \o DigChars(SubSeq(f.ds, 2, n)) ELSE <<>>) IN
       sign \o mant \o <<"e">> \o (IF e < 0 THEN <<"-">> \o NatChars(-e) ELSE <<"+">> \o NatChars(e))

\* sn: the :string-numbers writer puts every number between quotes
Quoted(sn, cs) == IF sn THEN <<"\"">> \o cs \o <<"\"">> ELSE cs
RECURSIVE EncodeSN(_, _), EncElems(_, _, _), EncMembers(_, _, _)
EncodeSN(v, sn) ==
  CASE v.t = "null" -> <<"n", "u", "l", "l">>
    [] v.t = "true" -> <<"t", "r", "u", "e">>
    [] v.t = "false" -> <<"f", "a", "l", "s", "e">>
    [] v.t = "int" -> Quoted(sn, (IF v.neg THEN <<"-">> ELSE <<>>) \o DigChars(v.ds))
    [] v.t = "float" -> Quoted(sn, EncFloat(v))
    [] v.t = "str" -> EncString(v.s)
    [] v.t = "arr" -> <<"[">> \o EncElems(v.c, 1, sn) \o <<"]">>
    [] v.t = "obj" -> <<"{">> \o EncMembers(v, 1, sn) \o <<"}">>        \* v.k is in key order (the domain file lists it so)
EncElems(c, i, sn) == IF i > Len(c) THEN <<>> ELSE (IF i > 1 THEN <<",">> ELSE <<>>) \o EncodeSN(c[i], sn) \o EncElems(c, i + 1, sn)
EncMembers(v, i, sn) == IF i > Len(v.k) THEN <<>>
                    ELSE (IF i > 1 THEN <<",">> ELSE <<>>) \o EncString(v.k[i]) \o <<":">> \o EncodeSN(v.c[i], sn) \o EncMembers(v, i + 1, sn)
Encode(v) == EncodeSN(v, FALSE)

\* what Parse makes of a value's own encoding
Valid(s) == [i \in 1..Len(s) |-> IF s[i] = -1 THEN 65533 ELSE s[i]]
RECURSIVE SameValue(_, _)
SameValue(v, w) ==
  CASE v.t \in {"null", "true", "false"} -> w.t = v.t
    [] v.t = "int" -> w.t = "num" /\ w.int /\ w.fits /\ w.lit = (IF v.neg THEN <<"-">> ELSE <<>>) \o DigChars(v.ds)
    [] v.t = "float" -> w.t = "num" /\ w.lit = EncFloat(v)
    [] v.t = "str" -> w.t = "str" /\ w.s = Valid(v.s)
    [] v.t = "arr" -> w.t = "arr" /\ Len(w.c) = Len(v.c) /\ \A i \in 1..Len(v.c) : SameValue(v.c[i], w.c[i])
    [] v.t = "obj" -> w.t = "obj" /\ w.k = [i \in 1..Len(v.k) |-> Valid(v.k[i])] /\ Len(w.c) = Len(v.c) /\ \A i \in 1..Len(v.c) : SameValue(v.c[i], w.c[i])
RoundTrip(v) == LET r == Parse(Encode(v)) IN r.ok /\ SameValue(v, r.val)

-----------------------------------------------------------------------------
Values == IF MODE = "values" THEN ndJsonDeserialize("jsonvals.ndjson") ELSE <<>>
VARIABLES doc, val, done
vars == <<doc, val, done>>

RECURSIVE Flatten(_, _)
Flatten(chunks, i) == IF i > Len(chunks) THEN <<>> ELSE Chars(chunks[i]) \o Flatten(chunks, i + 1)
Wrapped(body) == CASE WRAP = "string" -> <<"\"">> \o body \o <<"\"">>
                   [] WRAP = "array" -> <<"[">> \o body \o <<"]">>
                   [] OTHER -> body

Init == /\ done = FALSE
        /\ IF MODE = "docs" THEN doc = <<>> /\ val = [t |-> "none"]
           ELSE doc = <<>> /\ \E i \in 1..Len(Values) : val = Values[i]
Grow == MODE = "docs" /\ ~done /\ Len(doc) < MAXLEN /\ \E c \in ALPHA : doc' = Append(doc, c) /\ UNCHANGED <<val, done>>
EmitDoc == /\ MODE = "docs" /\ ~done /\ done' = TRUE /\ UNCHANGED <<doc, val>>
           /\ LET r == Parse(Wrapped(Flatten(doc, 1))) IN
              PrintT(ToJson([doc |-> doc, accept |-> r.ok, val |-> r.val]))
EmitVal == /\ MODE = "values" /\ ~done /\ done' = TRUE /\ UNCHANGED <<doc, val>>
           /\ PrintT(ToJson([id |-> val.id, text |-> Encode(val), textsn |-> EncodeSN(val, TRUE)]))
Next == Grow \/ EmitDoc \/ EmitVal \/ (done /\ UNCHANGED vars)
Spec == Init /\ [][Next]_vars

\* checked by TLC on every value of the domain: the writer's output is read back to the same value
RoundTripInv == MODE = "values" => RoundTrip(val)
=============================================================================
