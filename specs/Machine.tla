------------------------------ MODULE Machine ------------------------------
(***************************************************************************)
(* Machine: a definitional small-step machine for the core of ELPS,        *)
(* structured after lisp/env.go so that it can be bound to the code.       *)
(*                                                                         *)
(* The control part of the state is exactly the Kernel's: `frames`         *)
(* (Runtime.Stack.Frames with Terminal / TROBlock / TailIterations),       *)
(* `k` (the Go stack of the evaluator: one record per active eval /        *)
(* evalSExprCells / funCall / specialOpCall / macroCall / call / load),    *)
(* tail-recursion marks travelling as return values, the step counter,     *)
(* evaluator nesting, the condition stack and the current package.  The    *)
(* program is data (JSON, read with ndJsonDeserialize): every node and     *)
(* every value is a record with the uniform fields                         *)
(*    t (type) n (int) s (string) p (package qualifier) q (quoted flag)    *)
(*    c (cells) i (source node id, 0 = synthesized).                       *)
(*                                                                         *)
(* The whole machine state is ONE record-valued variable `m`, and every    *)
(* action is an operator on that record, so that product specifications    *)
(* (tail-call elimination on/off, budget n / unlimited, twin runtimes) can *)
(* step several machines with the same operators.                          *)
(*                                                                         *)
(* For every program TLC computes the machine's transcript: the value or   *)
(* error condition of every top-level evaluation and every `probe` call    *)
(* with the complete frame snapshot, step count, nesting and package.      *)
(* The Go driver runs the same program on the real interpreter and the     *)
(* transcripts are compared field by field (binding B1).                   *)
(***************************************************************************)
EXTENDS Integers, Sequences, FiniteSets, TLC, Json

Progs == ndJsonDeserialize("progs.ndjson")

VARIABLE m
vars == <<m>>

\* ---------------------------------------------------------------- helpers
Top(s) == s[Len(s)]
Pop(s) == SubSeq(s, 1, Len(s) - 1)
SetTop(s, x) == [s EXCEPT ![Len(s)] = x]
Rest(s) == SubSeq(s, 2, Len(s))
Max(a, b) == IF a > b THEN a ELSE b

\* ----------------------------------------------------------------- values
V(t, n, s, p, q, c) == [t |-> t, n |-> n, s |-> s, p |-> p, q |-> q, c |-> c, i |-> 0]
VInt(n)     == V("int", n, "", "", FALSE, <<>>)
VStr(s)     == V("str", 0, s, "", FALSE, <<>>)
\* floats: n = 16 x the value (dyadic rationals with four binary places are exact in float64, and so are their sums
\* and the products that stay on that grid); s = "?" is a float whose magnitude the machine does not track (a product
\* that leaves the grid): only its TYPE is predicted
VFloat(n)   == V("float", n, "", "", FALSE, <<>>)
VFloatAny   == V("float", 0, "?", "", FALSE, <<>>)
VSym(s)     == V("sym", 0, s, "", FALSE, <<>>)
VQSym(s)    == V("sym", 0, s, "", TRUE, <<>>)
VPSym(p, s) == V("sym", 0, s, p, FALSE, <<>>)
VNil        == V("list", 0, "", "", FALSE, <<>>)
VList(c)    == V("list", 0, "", "", FALSE, c)         \* an s-expression (code)
VQList(c)   == V("list", 0, "", "", TRUE, c)          \* QExpr: data list
\* vectors (one-dimensional arrays) and sorted-maps as immutable data: the in-place builtins live in Heap.tla.
\* A map's c is its entry sequence in key order; each entry is a two-element list <<key as first spelled, value>>
VVec(c)     == V("vec", 0, "", "", FALSE, c)
VMap(c)     == V("map", 0, "", "", FALSE, c)
IsSeq(v)    == v.t \in {"list", "vec"}
VTrue       == VSym("true")
VFalse      == VSym("false")
VBool(b)    == IF b THEN VTrue ELSE VFalse
\* functions: n = 0 builtin named s (p = "fun" | "op" | "macro"), n > 0 closure m.funs[n]
VBuiltin(name, kind) == V("fun", 0, name, kind, FALSE, <<>>)
VClosure(idx, name)  == V("fun", idx, name, "", FALSE, <<>>)
\* control values (never bound): mark c = <<fun>> \o args, n = remaining, s = fid, i = elided
VMark(n, fid, fun, args) == [V("mark", n, fid, "", FALSE, <<fun>> \o args) EXCEPT !.i = n]
VMacExp(e)  == V("macexp", 0, "", "", FALSE, <<e>>)

IsNilV(v) == v.t = "list" /\ Len(v.c) = 0
IsErr(v)  == v.t = "err"
IsMark(v) == v.t = "mark"
IsFun(v)  == v.t = "fun"
Truthy(v) == ~IsNilV(v) /\ ~(v.t = "sym" /\ v.s = "false" /\ v.p = "")
\* lisp.Quote
QuoteV(v) == IF ~v.q THEN [v EXCEPT !.q = TRUE] ELSE [V("quote", 0, "", "", TRUE, <<v>>) EXCEPT !.i = v.i]

\* ------------------------------------------------------- builtin registry
\* (name -> kind) of everything this machine knows in package lisp
OPS    == {"quote", "if", "progn", "let", "let*", "flet", "labels", "lambda", "cond", "and", "or",
           "set!", "handler-bind", "ignore-errors", "dotimes", "quasiquote", "thread-first", "thread-last", "macrolet", "boom-op",
           "function", "assert", "expr"}
MACROS == {"defun", "defmacro", "boom-macro", "defconst", "curry-function", "get-default"}
FUNS   == {"+", "-", "*", "/", "=", "<", ">", "<=", ">=", "not", "list", "cons", "car", "cdr", "first", "rest",
           "length", "identity", "nil?", "set", "funcall", "apply", "error", "rethrow", "probe", "boom",
           "load-string", "in-package", "use-package", "export", "capture",
           "macroexpand", "macroexpand-1", "eval", "gensym", "equal?",
           "map", "foldl", "foldr", "select", "reject", "any?", "all?", "nth", "second", "append", "concat", "reverse", "empty?",
           "mod", "max", "min", "list?", "int?", "symbol?", "true?", "float?", "number?",
           "vector", "vector?", "array?", "aref", "string?", "sorted-map", "sorted-map?", "get", "key?", "keys", "assoc", "dissoc",
           "to-string", "string=", "slice", "make-sequence", "zip", "insert-index",
           "compose", "flip", "unpack", "bool?", "symbol=",
           "stable-sort", "insert-sorted", "search-sorted"}
BuiltinKind(name) == IF name \in OPS THEN "op" ELSE IF name \in MACROS THEN "macro" ELSE "fun"
BuiltinFID(v) == IF v.p = "op" THEN "<special-op ``" \o v.s \o "''>"
                 ELSE IF v.p = "macro" THEN "<builtin-macro ``" \o v.s \o "''>"
                 ELSE "<builtin-function ``" \o v.s \o "''>"

\* required / variadic arity of builtin *functions* and ops as registered (Formals(...)) :
\* <<min, max>> with max = -1 for &rest
Arity(name) ==
  CASE name \in {"not", "car", "cdr", "first", "rest", "length", "identity", "nil?", "quote", "quasiquote", "macroexpand", "macroexpand-1", "eval"} -> <<1, 1>>
    [] name = "gensym" -> <<0, 0>>
    [] name \in {"second", "empty?", "list?", "int?", "symbol?", "true?", "float?", "number?", "vector?", "array?", "string?", "sorted-map?", "keys"} -> <<1, 1>>
    [] name \in {"vector", "sorted-map"} -> <<0, -1>>
    [] name \in {"get", "key?", "dissoc", "string="} -> <<2, 2>>
    [] name = "to-string" -> <<1, 1>>
    [] name \in {"slice", "insert-index"} -> <<4, 4>>
    [] name = "make-sequence" -> <<2, 3>>
    [] name = "zip" -> <<2, -1>>
    [] name = "assoc" -> <<3, 3>>
    [] name = "aref" -> <<1, -1>>
    [] name \in {"nth", "mod", "any?", "all?", "reverse"} -> <<2, 2>>
    [] name \in {"map", "foldl", "foldr", "select", "reject"} -> <<3, 3>>
    [] name \in {"max", "min", "concat"} -> <<1, -1>>
    [] name = "append" -> <<2, -1>>
    [] name = "equal?" -> <<2, 2>>
    [] name \in {"=", "<", ">", "<=", ">=", "cons"} -> <<2, 2>>
    [] name = "if" -> <<3, 3>>
    [] name = "set!" -> <<2, 2>>
    [] name = "set" -> <<2, -1>>
    [] name \in {"funcall", "apply", "error", "in-package"} -> <<1, -1>>
    [] name = "load-string" -> <<1, 3>>
    [] name \in {"rethrow", "capture"} -> <<0, 0>>
    [] name = "boom" -> <<0, -1>>
    [] name \in {"let", "let*", "flet", "labels", "lambda", "handler-bind", "dotimes", "thread-first", "thread-last", "macrolet"} -> <<1, -1>>
    [] name \in {"defun", "defmacro", "defconst"} -> <<2, -1>>
    [] name \in {"curry-function", "assert"} -> <<1, -1>>
    [] name = "get-default" -> <<3, 3>>
    [] name \in {"compose", "unpack", "symbol=", "search-sorted"} -> <<2, 2>>
    [] name = "stable-sort" -> <<2, -1>>
    [] name = "insert-sorted" -> <<4, -1>>
    [] name \in {"flip", "bool?", "function", "expr"} -> <<1, 1>>
    [] OTHER -> <<0, -1>>
ArityOK(name, k) == k >= Arity(name)[1] /\ (Arity(name)[2] = -1 \/ k <= Arity(name)[2])

\* -------------------------------------------------------------- the state
Frame(fid, name, src) == [fid |-> fid, name |-> name, term |-> FALSE, tro |-> FALSE, iters |-> 0, src |-> src]

RECURSIVE Chain(_, _, _)
Chain(fs, i, fid) ==
  IF i = 0 THEN 0
  ELSE IF ~fs[i].term THEN 0
  ELSE IF fs[i].tro THEN -1
  ELSE IF fs[i].fid = fid THEN Len(fs) - i + 1
  ELSE Chain(fs, i - 1, fid)
TerminalFID(fs, fid) == Chain(fs, Len(fs), fid)

FrameView(fs) == [j \in 1..Len(fs) |-> [name |-> fs[j].name, term |-> fs[j].term, tro |-> fs[j].tro, iters |-> fs[j].iters]]

EmptyVars == [x \in {} |-> VNil]
NewEnvRec(parent, loc) == [vars |-> EmptyVars, parent |-> parent, loc |-> loc]

\* package registry: user "uses" lisp (bindings copied by value at init)
LispSyms == [x \in (OPS \cup MACROS \cup FUNS) |-> VBuiltin(x, BuiltinKind(x))]
InitPkgs == [lisp |-> [syms |-> LispSyms, exports |-> OPS \cup MACROS \cup FUNS, fnames |-> [x \in {} |-> ""]],
             user |-> [syms |-> LispSyms, exports |-> {}, fnames |-> [x \in {} |-> ""]]]

InitM(p) ==
  [ prog    |-> p,
    cfg     |-> p.cfg,
    ctl     |-> [mode |-> "next"],
    k       |-> <<>>,
    frames  |-> <<>>,
    envs    |-> << NewEnvRec(0, 0) >>,
    funs    |-> <<>>,
    pkgs    |-> InitPkgs,
    pkg     |-> "user",
    conds   |-> <<>>,
    steps   |-> 0,
    polls   |-> 0,
    neid    |-> 0,
    ngen    |-> 0,              \* gensym counter of the runtime
    estk    |-> <<>>,           \* estk[eid] = the call stack copied onto error eid when it was created
    evi     |-> 1,              \* index of the top-level evaluation in progress
    fi      |-> 0,              \* forms of it already started
    probes  |-> <<>>,           \* probe transcript of the current evaluation
    results |-> <<>>,           \* one record per finished evaluation
    savedpkg |-> "user",
    last    |-> VNil,
    dropped |-> FALSE,
    halted  |-> FALSE ]

Init == \E j \in 1..Len(Progs) : m = InitM(Progs[j])

Eval(e, env) == [mode |-> "eval", e |-> e, env |-> env]
Ret(v)       == [mode |-> "ret", v |-> v]

Nest(s) == Cardinality({j \in 1..Len(s.k) : s.k[j].t = "ev"})

\* ------------------------------------------------------------------ errors
\* env.Errorf / ErrorCondition: stamped with the creating environment's loc and a copy of the stack
MkErr(s, cond, data, env, panic) ==
  [V("err", s.neid + 1, cond, "", panic, data) EXCEPT !.i = s.envs[env].loc]
StackCopy(s) == [j \in 1..Len(s.frames) |-> [name |-> s.frames[j].name, src |-> s.frames[j].src]]
WithErr(s, cond, data, env) ==
  [s EXCEPT !.neid = @ + 1, !.estk = Append(@, StackCopy(s)), !.ctl = Ret(MkErr(s, cond, data, env, FALSE))]
\* errors raised by the interpreter itself carry one data cell: the formatted message (or the
\* native Go error).  Message texts are opaque to the specification: "#msg" matches any value.
Msg == <<VStr("#msg")>>
Fail(s, env) == WithErr(s, "error", Msg, env)
\* REFERENCE MEANING (C18), where the code is known to differ: a call that was collapsed into an earlier frame by
\* tail-call elimination and is then REJECTED by the binder is located at its own call expression (site), not at the
\* call site of the frame that was reused.  The location the code reports (the reused frame's environment register)
\* travels in the error's p field so that the check can tell this finding from any other difference.
FailAt(s, env, site) ==
  [s EXCEPT !.neid = @ + 1, !.estk = Append(@, StackCopy(s)),
            !.ctl = Ret([V("err", s.neid + 1, "error", "", FALSE, Msg) EXCEPT !.i = site, !.p = s.envs[env].loc])]

\* ------------------------------------------------------------- checkLimits
\* returns <<state', ok>>; one step is charged, then the budget, then the context poll
\* (the first cfg.noctx evaluations of a history are made through the context-less entry point with no
\* step limit: checkLimits then returns at once and nothing is counted.  With cfg.ctxfirst = k > 0 it is the other
\* way round: evaluations 1..k carry a context, which is cancelled once evaluation k has returned, and the later
\* ones are context-less - what was defined under the dead context must work all the same)
Charge(s, env) ==
  IF (s.evi <= s.cfg.noctx \/ (s.cfg.ctxfirst > 0 /\ s.evi > s.cfg.ctxfirst)) /\ s.cfg.budget = 0 THEN <<s, TRUE>> ELSE
  LET s1 == [s EXCEPT !.steps = @ + 1] IN
  IF s1.cfg.budget > 0 /\ s1.steps > s1.cfg.budget
  THEN <<WithErr(s1, "step-limit-exceeded", Msg, env), FALSE>>
  ELSE LET s2 == [s1 EXCEPT !.polls = @ + 1] IN
       IF s2.cfg.cancel > 0 /\ s2.polls >= s2.cfg.cancel
       THEN <<WithErr(s2, "context-cancelled", Msg, env), FALSE>>
       ELSE <<s2, TRUE>>

RECURSIVE ChargeN(_, _, _)
ChargeN(s, env, k) == IF k = 0 THEN <<s, TRUE>>
                      ELSE LET ch == Charge(s, env) IN IF ~ch[2] THEN ch ELSE ChargeN(ch[1], env, k - 1)

\* ------------------------------------------------------------------ lookup
RECURSIVE LexLookup(_, _, _)
LexLookup(envs, e, name) ==
  IF e = 0 THEN [found |-> FALSE, v |-> VNil]
  ELSE IF name \in DOMAIN envs[e].vars THEN [found |-> TRUE, v |-> envs[e].vars[name]]
  ELSE LexLookup(envs, envs[e].parent, name)

RECURSIVE LexOwner(_, _, _)
LexOwner(envs, e, name) ==
  IF e = 0 THEN 0
  ELSE IF name \in DOMAIN envs[e].vars THEN e
  ELSE LexOwner(envs, envs[e].parent, name)

PkgHas(s, p, name) == p \in DOMAIN s.pkgs /\ name \in DOMAIN s.pkgs[p].syms

\* env.Get for a symbol node; result is a value or "unbound" marker
SymValue(s, sym, env) ==
  IF sym.p = ":" THEN [ok |-> TRUE, v |-> sym]                          \* keyword
  ELSE IF sym.p # "" THEN                                               \* pkg:name
       IF sym.p \notin DOMAIN s.pkgs THEN [ok |-> FALSE, v |-> VNil]
       ELSE IF sym.s = "true" THEN [ok |-> TRUE, v |-> VTrue]
       ELSE IF sym.s = "false" THEN [ok |-> TRUE, v |-> VFalse]
       ELSE IF PkgHas(s, sym.p, sym.s) THEN [ok |-> TRUE, v |-> s.pkgs[sym.p].syms[sym.s]]
       ELSE [ok |-> FALSE, v |-> VNil]
  ELSE IF sym.s = "true" THEN [ok |-> TRUE, v |-> VTrue]
  ELSE IF sym.s = "false" THEN [ok |-> TRUE, v |-> VFalse]
  ELSE LET lx == LexLookup(s.envs, env, sym.s) IN
       IF lx.found THEN [ok |-> TRUE, v |-> lx.v]
       ELSE IF PkgHas(s, s.pkg, sym.s) THEN [ok |-> TRUE, v |-> s.pkgs[s.pkg].syms[sym.s]]
       ELSE [ok |-> FALSE, v |-> VNil]

\* FunRef: a function fetched through a symbol carries that symbol's spelling as its name
NameFun(v, sym) == IF v.t = "fun" /\ v.n > 0 THEN [v EXCEPT !.s = sym.s] ELSE v

\* name shown in a stack frame: pkg.funNames[fid] (name it was bound to in its package) else the reference name
FunFID(s, f)  == IF f.n = 0 THEN BuiltinFID(f) ELSE s.funs[f.n].fid
FunPkg(s, f)  == IF f.n = 0 THEN "lisp" ELSE s.funs[f.n].pkg
FunKind(s, f) == IF f.n = 0 THEN f.p ELSE s.funs[f.n].kind
FunName(s, f) ==
  LET fid == FunFID(s, f)  p == FunPkg(s, f) IN
  IF f.n = 0 THEN f.s
  ELSE IF fid \in DOMAIN s.pkgs[p].fnames THEN s.pkgs[p].fnames[fid] ELSE f.s
FrameName(s, f) == FunPkg(s, f) \o ":" \o FunName(s, f)

\* ---------------------------------------------------------------- top level
CanNext(s) == s.ctl.mode = "next" /\ ~s.halted
StartEval(s) ==   \* begin of a top-level evaluation (load): budget refilled, package remembered
  [s EXCEPT !.steps = 0, !.probes = <<>>, !.savedpkg = s.pkg, !.fi = 0]
FinishEval(s, v0) ==
  \* (the entry points other than load do not restore the package; a macro / operator entry point hands
  \* back whatever marker the call produced)
  LET v == IF v0.t \in {"macexp", "mark"} THEN VNil ELSE v0
      endpkg == IF s.savedpkg = "*" THEN s.pkg ELSE s.savedpkg IN
  LET reg == [p \in DOMAIN s.pkgs \ {"lisp"} |-> [exports |-> s.pkgs[p].exports, names |-> DOMAIN s.pkgs[p].syms \ DOMAIN LispSyms]] IN
  LET r == [v |-> v, steps |-> s.steps, probes |-> s.probes, pkg |-> endpkg, reg |-> reg,
            estack |-> IF v.t = "err" /\ v.n >= 1 /\ v.n <= Len(s.estk) THEN s.estk[v.n] ELSE <<>>,
            frames |-> Len(s.frames), conds |-> Len(s.conds), k |-> Len(s.k)] IN
  [s EXCEPT !.results = Append(@, r), !.pkg = endpkg, !.evi = @ + 1, !.fi = 0, !.ctl = [mode |-> "next"], !.k = <<>>]
NextForm(s) ==
  IF s.evi > Len(s.prog.evals) THEN [s EXCEPT !.halted = TRUE] ELSE
  LET forms == s.prog.evals[s.evi] IN
  \* (a load with nothing in it returns before the evaluation is begun: the step counter keeps its last reading)
  LET s0 == IF s.fi = 0 THEN (IF Len(forms) = 0 THEN [s EXCEPT !.probes = <<>>, !.savedpkg = s.pkg] ELSE StartEval(s)) ELSE s IN
  IF s0.fi = Len(forms)
  THEN FinishEval(s0, IF s0.fi = 0 THEN VNil ELSE s0.last)
  ELSE IF s.prog.modes[s.evi] = "call"
  THEN \* FunCall / MacroCall / SpecialOpCall entry points: the head is resolved (GetFun) in the root
       \* environment and invoked with the arguments as written; no package save/restore, no load
       LET form == forms[1]  r == SymValue(s0, form.c[1], 1) IN
       IF ~r.ok \/ ~IsFun(r.v)
       THEN [Fail(s0, 1) EXCEPT !.fi = 1, !.k = << [t |-> "top"] >>, !.savedpkg = "*"]
       ELSE [s0 EXCEPT !.fi = 1, !.k = << [t |-> "top"] >>, !.savedpkg = "*",
                       !.ctl = [mode |-> "dispatch", f |-> NameFun(r.v, form.c[1]), args |-> Rest(form.c), env |-> 1]]
  ELSE [s0 EXCEPT !.fi = @ + 1, !.k = << [t |-> "top"] >>, !.ctl = Eval(forms[s0.fi + 1], 1)]

\* -------------------------------------------------------------------- eval
\* LEnv.eval: nesting check, step charge, dispatch on the value's type.  Atoms
\* return in the same step; an s-expression pushes the eval activation ("ev")
\* and the evalSExprCells activation ("cells").
CanEval(s) == s.ctl.mode = "eval"
EvalBody(s, v, env, md, pushed) ==
  \* the code after the `eval:` label; `pushed` = the "ev" activation already exists
  \* the location register names the form about to be evaluated BEFORE the limits are checked: a limit error raised at
  \* the first step of a form (also of the first form of a Load) is located at that form, never at a form of an earlier Load
  LET ch == Charge([s EXCEPT !.envs[env].loc = v.i], env) IN
  IF ~ch[2] THEN (IF pushed THEN [ch[1] EXCEPT !.k = Pop(@)] ELSE ch[1])
  ELSE LET s1 == ch[1] IN
       LET done(x) == IF pushed THEN [x EXCEPT !.k = Pop(@)] ELSE x IN
  IF v.q THEN done([s1 EXCEPT !.ctl = Ret(v)])
  ELSE CASE v.t = "sym" ->
              LET r == SymValue(s1, v, env) IN
              IF r.ok THEN done([s1 EXCEPT !.ctl = Ret(NameFun(r.v, v))])
              ELSE done([s1 EXCEPT !.neid = @ + 1, !.estk = Append(@, StackCopy(s1)),
                                  !.ctl = Ret([V("err", s1.neid + 1, "error", "", FALSE, Msg) EXCEPT !.i = v.i])])
         [] v.t = "list" ->
              IF Len(v.c) = 0 THEN done([s1 EXCEPT !.ctl = Ret(VNil)])
              ELSE \* evalSExprCells: clear Terminal of the top frame while head and arguments are evaluated
                   LET had == Len(s1.frames) > 0 /\ Top(s1.frames).term
                       kk  == IF pushed THEN s1.k ELSE Append(s1.k, [t |-> "ev", md |-> md, env |-> env, e |-> v])
                       kk2 == IF pushed THEN SetTop(kk, [Top(kk) EXCEPT !.md = md, !.e = v]) ELSE kk IN
                   [s1 EXCEPT !.frames = IF had THEN SetTop(@, [Top(@) EXCEPT !.term = FALSE]) ELSE @,
                              !.k = Append(kk2, [t |-> "cells", e |-> v, env |-> env, j |-> 0, vals |-> <<>>,
                                                 restore |-> had, loc |-> v.i]),
                              !.ctl = [mode |-> "cellstep"]]
         [] v.t = "quote" ->       \* an LQuote that was unquoted: evaluate the underlying value (charges again)
              [s1 EXCEPT !.ctl = [mode |-> "reeval", e |-> v.c[1], env |-> env, md |-> md, pushed |-> pushed]]
         [] OTHER -> done([s1 EXCEPT !.ctl = Ret(v)])
DoEval(s) ==
  LET e == s.ctl.e  env == s.ctl.env IN
  IF s.cfg.maxnest > 0 /\ Nest(s) + 1 > s.cfg.maxnest
  THEN WithErr(s, "eval-nesting-exceeded", Msg, env)
  ELSE EvalBody(s, e, env, 0, FALSE)
CanReEval(s) == s.ctl.mode = "reeval"
DoReEval(s) == EvalBody(s, s.ctl.e, s.ctl.env, s.ctl.md, s.ctl.pushed)

\* ------------------------------------------------------------------- cells
CanCellStep(s) == s.ctl.mode = "cellstep"
RestoreTerm(fs, c) == IF c.restore THEN SetTop(fs, [Top(fs) EXCEPT !.term = TRUE]) ELSE fs
\* leaving evalSExprCells: deferred restores of the Terminal flag and of env.loc
LeaveCells(s, c) == [s EXCEPT !.frames = RestoreTerm(@, c), !.k = Pop(@), !.envs[c.env].loc = c.loc]

CellStep(s) ==
  LET c == Top(s.k) IN
  IF c.j = 0
  THEN [s EXCEPT !.k = SetTop(@, [c EXCEPT !.j = 1]), !.ctl = Eval(c.e.c[1], c.env)]
  ELSE LET f == c.vals[1] IN
       IF ~IsFun(f)                                            \* first element of expression is not a function:
       THEN LET e == Fail(s, c.env) IN [LeaveCells(e, c) EXCEPT !.ctl = e.ctl]   \* created with env.loc as the head's evaluation left it
       ELSE LET kind == FunKind(s, f) IN
            IF kind # "fun"
            THEN \* special function: arguments are passed unevaluated over a fresh array
                 [LeaveCells(s, c) EXCEPT !.ctl = [mode |-> "dispatch", f |-> f, args |-> Rest(c.e.c), env |-> c.env]]
            ELSE IF c.j < Len(c.e.c)
            THEN [s EXCEPT !.k = SetTop(@, [c EXCEPT !.j = @ + 1]), !.ctl = Eval(c.e.c[c.j + 1], c.env)]
            ELSE [LeaveCells(s, c) EXCEPT !.ctl = [mode |-> "dispatch", f |-> f, args |-> Rest(c.vals), env |-> c.env]]

\* ---------------------------------------------------- funCall / opCall / macroCall
\* PushFID: physical height check, then the frame
CanDispatch(s) == s.ctl.mode = "dispatch"
Dispatch(s) ==
  LET f == s.ctl.f  args == s.ctl.args  env == s.ctl.env
      kind == FunKind(s, f)  fid == FunFID(s, f)
      \* (only calls of lisp functions are collapsed: a builtin would be run again by the frame it collapses into, in
      \* that frame's package)
      npop == IF kind = "fun" /\ f.n > 0 /\ s.cfg.tro THEN TerminalFID(s.frames, fid) ELSE 0 IN
  IF s.cfg.maxphys > 0 /\ Len(s.frames) >= s.cfg.maxphys THEN Fail(s, env)
  ELSE IF npop > 0 THEN [s EXCEPT !.ctl = Ret([VMark(npop, fid, f, args) EXCEPT !.p = s.envs[env].loc])]   \* p: the tail call's own position
  ELSE [s EXCEPT !.frames = Append(@, [Frame(fid, FrameName(s, f), s.envs[env].loc) EXCEPT !.tro = (kind = "macro")]),
                 !.k = Append(@, [t |-> "call", kind |-> kind, f |-> f, env |-> env, site |-> s.envs[env].loc]),
                 !.ctl = [mode |-> "call", f |-> f, args |-> args, env |-> env]]

\* ------------------------------------------------------------------- bind
\* formals: a list value of symbols possibly containing &optional / &rest / &key.
\* Returns [ok, vars] - the binder of lisp/env.go bind / bindFormalNext.
IsCtl(x) == x.s \in {"&optional", "&rest", "&key"}
RECURSIVE BindReq(_, _, _)
RECURSIVE BindOpt(_, _, _)
BindReq(fs, as, acc) ==
  IF Len(fs) = 0 THEN [ok |-> Len(as) = 0, vars |-> acc]
  ELSE LET f == fs[1] IN
  IF f.s = "&rest"
  THEN IF Len(fs) # 2 \/ IsCtl(fs[2]) THEN [ok |-> FALSE, vars |-> acc]
       ELSE [ok |-> TRUE, vars |-> [x \in DOMAIN acc \cup {fs[2].s} |-> IF x = fs[2].s THEN VQList(as) ELSE acc[x]]]
  ELSE IF f.s = "&optional"
  THEN IF Len(fs) = 1 THEN [ok |-> FALSE, vars |-> acc] ELSE BindOpt(Rest(fs), as, acc)
  ELSE IF f.s = "&key"
  THEN LET ks == Rest(fs)  np == Len(as) \div 2 IN
       IF Len(ks) = 0 \/ (\E j \in 1..Len(ks) : IsCtl(ks[j])) THEN [ok |-> FALSE, vars |-> acc]
       ELSE IF Len(as) % 2 # 0 THEN [ok |-> FALSE, vars |-> acc]                         \* odd number of keyword arguments
       ELSE IF \E j \in 1..np : ~(as[2 * j - 1].t = "sym" /\ as[2 * j - 1].p = ":") THEN [ok |-> FALSE, vars |-> acc]   \* not a keyword
       ELSE IF \E j \in 1..np : \A i \in 1..Len(ks) : ks[i].s # as[2 * j - 1].s THEN [ok |-> FALSE, vars |-> acc]      \* unrecognized keyword
       ELSE LET val(name) == LET js == {j \in 1..np : as[2 * j - 1].s = name} IN
                             IF js = {} THEN VNil ELSE as[2 * (CHOOSE j \in js : \A j2 \in js : j2 <= j)]
                names == {ks[i].s : i \in 1..Len(ks)} IN
            [ok |-> TRUE, vars |-> [x \in DOMAIN acc \cup names |-> IF x \in names THEN val(x) ELSE acc[x]]]
  ELSE IF Len(as) = 0 THEN [ok |-> FALSE, vars |-> acc]
  ELSE BindReq(Rest(fs), Rest(as), [x \in DOMAIN acc \cup {f.s} |-> IF x = f.s THEN as[1] ELSE acc[x]])
BindOpt(fs, as, acc) ==
  IF Len(fs) = 0 THEN [ok |-> Len(as) = 0, vars |-> acc]
  ELSE LET f == fs[1] IN
  IF IsCtl(f) THEN BindReq(fs, as, acc)
  ELSE IF Len(as) = 0 THEN BindOpt(Rest(fs), as, [x \in DOMAIN acc \cup {f.s} |-> IF x = f.s THEN VNil ELSE acc[x]])
  ELSE BindOpt(Rest(fs), Rest(as), [x \in DOMAIN acc \cup {f.s} |-> IF x = f.s THEN as[1] ELSE acc[x]])

\* -------------------------------------------------------------------- call
\* env.call: bind, then run the builtin or the body forms
CanCall(s) == s.ctl.mode = "call"

IntArgs(args) == \A j \in 1..Len(args) : args[j].t = "int"
\* the numeric tower: the result is an int if every argument is an int, otherwise a float
NumArgs(args) == \A j \in 1..Len(args) : args[j].t \in {"int", "float"}
AnyUntracked(args) == \E j \in 1..Len(args) : args[j].t = "float" /\ args[j].s = "?"
Scaled(v) == IF v.t = "int" THEN 16 * v.n ELSE v.n
RECURSIVE ScaledSum(_)
ScaledSum(a) == IF Len(a) = 0 THEN 0 ELSE Scaled(a[1]) + ScaledSum(Rest(a))
\* division: an int when both are ints and the division is exact, otherwise a float (on the grid when it lands there;
\* division by zero gives an infinity or NaN, floats the machine does not track)
Abs(x) == IF x < 0 THEN 0 - x ELSE x
Sgn(x, y) == IF (x < 0) = (y < 0) THEN 1 ELSE 0 - 1
Div2(x, y) ==
  IF (x.t = "float" /\ x.s = "?") \/ (y.t = "float" /\ y.s = "?") THEN VFloatAny
  ELSE IF x.t = "int" /\ y.t = "int"
       THEN (IF y.n = 0 THEN VFloatAny
             ELSE IF Abs(x.n) % Abs(y.n) = 0 THEN VInt(Sgn(x.n, y.n) * (Abs(x.n) \div Abs(y.n)))
             ELSE IF (16 * Abs(x.n)) % Abs(y.n) = 0 THEN VFloat(Sgn(x.n, y.n) * ((16 * Abs(x.n)) \div Abs(y.n)))
             ELSE VFloatAny)
  ELSE LET sx == Scaled(x)  sy == Scaled(y) IN
       IF sy = 0 THEN VFloatAny
       ELSE IF (16 * Abs(sx)) % Abs(sy) = 0 THEN VFloat(Sgn(sx, sy) * ((16 * Abs(sx)) \div Abs(sy)))
       ELSE VFloatAny
RECURSIVE DivFold(_, _)
DivFold(acc, rest) == IF Len(rest) = 0 THEN acc ELSE DivFold(Div2(acc, rest[1]), Rest(rest))
\* product on the grid: acc and every factor are 16 x their value; -1 in the second component when it leaves the grid
RECURSIVE ScaledProd(_, _)
ScaledProd(a, acc) == IF Len(a) = 0 THEN <<acc, 0>>
                      ELSE LET p == acc * Scaled(a[1]) IN
                           IF p % 16 # 0 THEN <<0, -1>> ELSE ScaledProd(Rest(a), p \div 16)
RECURSIVE SumSeq(_)
SumSeq(a) == IF Len(a) = 0 THEN 0 ELSE a[1].n + SumSeq(Rest(a))
RECURSIVE ProdSeq(_)
ProdSeq(a) == IF Len(a) = 0 THEN 1 ELSE a[1].n * ProdSeq(Rest(a))
Cmp(name, a, b) == CASE name = "=" -> a = b [] name = "<" -> a < b [] name = ">" -> a > b
                     [] name = "<=" -> a <= b [] name = ">=" -> a >= b

\* Go's % (truncated towards zero)
GoMod(x, y) == LET ax == IF x < 0 THEN 0 - x ELSE x  ay == IF y < 0 THEN 0 - y ELSE y  r == ax % ay IN IF x < 0 THEN 0 - r ELSE r
RECURSIVE SeqMax(_)
SeqMax(a) == IF Len(a) = 1 THEN a[1].n ELSE LET r == SeqMax(Rest(a)) IN IF a[1].n > r THEN a[1].n ELSE r
RECURSIVE FlatCells(_)
FlatCells(ls) == IF Len(ls) = 0 THEN <<>> ELSE ls[1].c \o FlatCells(Rest(ls))

\* equal?: structural equality of data (quoting flags and source positions ignored)
RECURSIVE ValEqual(_, _)
ValEqual(a, b) ==
  \* numbers are compared by value across int and float (a float the machine does not track is never known equal)
  IF a.t \in {"int", "float"} /\ b.t \in {"int", "float"}
  THEN a.s # "?" /\ b.s # "?" /\ (IF a.t = "int" THEN 16 * a.n ELSE a.n) = (IF b.t = "int" THEN 16 * b.n ELSE b.n)
  ELSE IF a.t # b.t THEN FALSE
  ELSE CASE a.t = "int" -> a.n = b.n
         [] a.t = "str" -> a.s = b.s
         [] a.t = "sym" -> a.s = b.s /\ a.p = b.p
         [] a.t \in {"list", "vec"} -> Len(a.c) = Len(b.c) /\ \A j \in 1..Len(a.c) : ValEqual(a.c[j], b.c[j])
         \* maps: same key NAMES (a string and a symbol spelling the same name are one key) and equal values
         [] a.t = "map" -> Len(a.c) = Len(b.c) /\ \A j \in 1..Len(a.c) : a.c[j].c[1].s = b.c[j].c[1].s /\ ValEqual(a.c[j].c[2], b.c[j].c[2])
         [] a.t = "float" -> a.s # "?" /\ b.s # "?" /\ a.n = b.n
         \* functions and quote objects have no structural equality: never equal, not even to themselves - and so is
         \* every container that holds one, compared with itself or with anything else
         [] OTHER -> FALSE

\* ---- sorted-maps.  Keys are strings or symbols, identified by NAME; entries are kept in the sorted order of the names.
\* TLC cannot compare strings, so the order is that of KeyRank over the key names the generated programs use.
KeyRank(x) == CASE x = "a" -> 1 [] x = "b" -> 2 [] x = "c" -> 3 [] x = "k" -> 4 [] x = "x" -> 5 [] x = "y" -> 6 [] x = "z" -> 7 [] OTHER -> 100
IsKey(v) == v.t \in {"str", "sym"}
MapIndex(mp, name) == LET js == {j \in 1..Len(mp.c) : mp.c[j].c[1].s = name} IN IF js = {} THEN 0 ELSE CHOOSE j \in js : TRUE
\* insert or replace.  Presentation of a key: once a name has been given as a SYMBOL it is shown as a symbol until the
\* entry is removed (setting it again through a string does not change that); otherwise it is shown as a string
MapPut(mp, k, v) ==
  LET j == MapIndex(mp, k.s) IN
  IF j > 0 THEN (LET shown == IF k.t = "sym" \/ mp.c[j].c[1].t = "sym" THEN VQSym(k.s) ELSE VStr(k.s) IN
                 VMap([mp.c EXCEPT ![j] = VQList(<<shown, v>>)]))
  ELSE LET before == SelectSeq(mp.c, LAMBDA e : KeyRank(e.c[1].s) < KeyRank(k.s))
           after == SelectSeq(mp.c, LAMBDA e : KeyRank(e.c[1].s) > KeyRank(k.s)) IN
       VMap(before \o <<VQList(<<IF k.t = "sym" THEN VQSym(k.s) ELSE VStr(k.s), v>>)>> \o after)
RECURSIVE MapFromArgs(_, _, _)
MapFromArgs(a, j, mp) == IF j > Len(a) THEN mp ELSE MapFromArgs(a, j + 2, MapPut(mp, a[j], a[j + 1]))
KnownKeys(a) == \A j \in 1..Len(a) : (j % 2 = 1) => (IsKey(a[j]) /\ KeyRank(a[j].s) < 100)

RECURSIVE MinLen(_)
MinLen(a) == IF Len(a) = 1 THEN Len(a[1].c) ELSE LET r == MinLen(Rest(a)) IN IF Len(a[1].c) < r THEN Len(a[1].c) ELSE r
RECURSIVE JoinStr(_)
JoinStr(a) == IF Len(a) = 0 THEN "" ELSE (IF a[1].t = "str" THEN a[1].s ELSE "") \o JoinStr(Rest(a))
\* a sequence type specifier ('list or 'vector) and the sequence it makes of cells (concat gives () for no cells)
SeqSpec(v) == v.t = "sym" /\ v.p = "" /\ v.s \in {"list", "vector"}
MakeSeq(spec, cells, nilIfEmpty) == IF spec.s = "vector" THEN VVec(cells)
                                    ELSE IF nilIfEmpty /\ Len(cells) = 0 THEN VNil ELSE VQList(cells)

\* pure builtins: value, or "fail" marker
PureBuiltin(name, a) ==
  LET n == Len(a)  bad == [ok |-> FALSE, v |-> VNil]  good(v) == [ok |-> TRUE, v |-> v] IN
  CASE name = "+" -> IF IntArgs(a) THEN good(VInt(SumSeq(a)))
                     ELSE IF ~NumArgs(a) THEN bad
                     ELSE IF AnyUntracked(a) THEN good(VFloatAny) ELSE good(VFloat(ScaledSum(a)))
    [] name = "*" -> IF IntArgs(a) THEN good(VInt(ProdSeq(a)))
                     ELSE IF ~NumArgs(a) THEN bad
                     ELSE IF AnyUntracked(a) THEN good(VFloatAny)
                     ELSE LET pr == ScaledProd(a, 16) IN IF pr[2] < 0 THEN good(VFloatAny) ELSE good(VFloat(pr[1]))
    [] name = "-" -> IF n = 0 THEN good(VInt(0))
                     ELSE IF ~NumArgs(a) THEN bad
                     ELSE IF IntArgs(a) THEN (IF n = 1 THEN good(VInt(0 - a[1].n)) ELSE good(VInt(a[1].n - SumSeq(Rest(a)))))
                     ELSE IF AnyUntracked(a) THEN good(VFloatAny)
                     ELSE IF n = 1 THEN good(VFloat(0 - a[1].n)) ELSE good(VFloat(Scaled(a[1]) - ScaledSum(Rest(a))))
    [] name = "/" -> IF ~NumArgs(a) THEN bad
                     ELSE IF n = 0 THEN good(VInt(1))
                     ELSE IF n = 1 THEN good(Div2(VInt(1), a[1]))
                     ELSE good(DivFold(a[1], Rest(a)))
    [] name \in {"=", "<", ">", "<=", ">="} ->
                     IF IntArgs(a) THEN good(VBool(Cmp(name, a[1].n, a[2].n)))
                     ELSE IF NumArgs(a) /\ ~AnyUntracked(a) THEN good(VBool(Cmp(name, Scaled(a[1]), Scaled(a[2]))))     \* tracked floats compare by value
                     ELSE bad
    [] name = "bool?" -> good(VBool(a[1].t = "sym" /\ a[1].p = "" /\ a[1].s \in {"true", "false"}))
    [] name = "symbol=" -> IF a[1].t = "sym" /\ a[2].t = "sym" THEN good(VBool(a[1].p = a[2].p /\ a[1].s = a[2].s)) ELSE bad
    [] name = "not" -> good(VBool(~Truthy(a[1])))
    [] name = "nil?" -> good(VBool(IsNilV(a[1])))
    [] name = "identity" -> good(a[1])
    [] name = "list" -> good(VQList(a))             \* QExpr over the argument array: (list) is a quoted empty list
    [] name = "cons" -> IF a[2].t = "list" THEN good(VQList(<<a[1]>> \o a[2].c)) ELSE bad
    [] name = "car" -> IF a[1].t # "list" THEN bad ELSE IF Len(a[1].c) = 0 THEN good(VNil) ELSE good(a[1].c[1])
    [] name = "first" -> IF ~IsSeq(a[1]) THEN bad ELSE IF Len(a[1].c) = 0 THEN good(VNil) ELSE good(a[1].c[1])
    [] name = "cdr" -> IF a[1].t # "list" THEN bad ELSE IF Len(a[1].c) <= 1 THEN good(VNil) ELSE good(VQList(Rest(a[1].c)))
    [] name = "rest" -> IF ~IsSeq(a[1]) THEN bad ELSE IF Len(a[1].c) <= 1 THEN good(VNil) ELSE good(VQList(Rest(a[1].c)))
    [] name = "length" -> IF a[1].t \in {"list", "vec", "map"} THEN good(VInt(Len(a[1].c))) ELSE IF a[1].t = "str" THEN good(VInt(Len(a[1].s))) ELSE bad
    [] name = "to-string" -> CASE a[1].t = "int" -> good(VStr(ToString(a[1].n)))
                               [] a[1].t = "str" -> good(a[1])
                               [] a[1].t = "sym" /\ a[1].p = "" -> good(VStr(a[1].s))
                               [] OTHER -> bad
    [] name = "string=" -> IF a[1].t = "str" /\ a[2].t = "str" THEN good(VBool(a[1].s = a[2].s)) ELSE bad
    [] name = "vector" -> good(VVec(a))
    [] name \in {"vector?", "array?"} -> good(VBool(a[1].t = "vec"))
    [] name = "string?" -> good(VBool(a[1].t = "str"))
    [] name = "sorted-map?" -> good(VBool(a[1].t = "map"))
    [] name = "aref" -> IF n # 2 \/ a[1].t # "vec" \/ a[2].t # "int" \/ a[2].n < 0 \/ a[2].n >= Len(a[1].c) THEN bad ELSE good(a[1].c[a[2].n + 1])
    [] name = "sorted-map" -> IF n % 2 = 1 \/ ~KnownKeys(a) THEN bad ELSE good(MapFromArgs(a, 1, VMap(<<>>)))
    [] name = "get" -> IF a[1].t # "map" \/ ~IsKey(a[2]) THEN bad
                       ELSE LET j == MapIndex(a[1], a[2].s) IN IF j = 0 THEN good(VNil) ELSE good(a[1].c[j].c[2])
    [] name = "key?" -> IF a[1].t # "map" \/ ~IsKey(a[2]) THEN bad ELSE good(VBool(MapIndex(a[1], a[2].s) > 0))
    [] name = "keys" -> IF a[1].t # "map" THEN bad ELSE good(VQList([j \in 1..Len(a[1].c) |-> a[1].c[j].c[1]]))
    [] name = "assoc" -> IF a[1].t # "map" \/ ~IsKey(a[2]) \/ KeyRank(a[2].s) >= 100 THEN bad ELSE good(MapPut(a[1], a[2], a[3]))
    [] name = "dissoc" -> IF a[1].t # "map" \/ ~IsKey(a[2]) THEN bad
                          ELSE good(VMap(SelectSeq(a[1].c, LAMBDA e : e.c[1].s # a[2].s)))
    [] name = "equal?" -> good(VBool(ValEqual(a[1], a[2])))
    [] name = "second" -> IF ~IsSeq(a[1]) THEN bad ELSE IF Len(a[1].c) < 2 THEN good(VNil) ELSE good(a[1].c[2])
    [] name = "nth" -> IF ~IsSeq(a[1]) \/ a[2].t # "int" \/ a[2].n < 0 THEN bad
                       ELSE IF Len(a[1].c) <= a[2].n THEN good(VNil) ELSE good(a[1].c[a[2].n + 1])
    [] name = "empty?" -> IF a[1].t \in {"list", "str", "vec", "map"} THEN good(VBool(IF a[1].t = "str" THEN a[1].s = "" ELSE Len(a[1].c) = 0)) ELSE bad
    [] name = "list?" -> good(VBool(a[1].t = "list"))
    [] name = "int?" -> good(VBool(a[1].t = "int"))
    [] name = "float?" -> good(VBool(a[1].t = "float"))
    [] name = "number?" -> good(VBool(a[1].t \in {"int", "float"}))
    [] name = "symbol?" -> good(VBool(a[1].t = "sym"))
    [] name = "true?" -> good(VBool(Truthy(a[1])))
    [] name = "mod" -> IF IntArgs(a) /\ a[2].n # 0 THEN good(VInt(GoMod(a[1].n, a[2].n))) ELSE bad
    \* max / min over the numeric tower: the answer is the FIRST argument that no other argument exceeds (the argument
    \* itself, int or float as it was given); floats the machine does not track make the choice unknown
    [] name = "max" -> IF IntArgs(a) THEN good(VInt(SeqMax(a)))
                       ELSE IF NumArgs(a) /\ ~AnyUntracked(a)
                       THEN good(a[CHOOSE j \in 1..n : (\A i \in 1..n : Scaled(a[i]) <= Scaled(a[j])) /\ (\A i \in 1..(j - 1) : Scaled(a[i]) < Scaled(a[j]))])
                       ELSE bad
    [] name = "min" -> IF IntArgs(a) THEN good(VInt(0 - SeqMax([j \in 1..n |-> VInt(0 - a[j].n)])))
                       ELSE IF NumArgs(a) /\ ~AnyUntracked(a)
                       THEN good(a[CHOOSE j \in 1..n : (\A i \in 1..n : Scaled(a[i]) >= Scaled(a[j])) /\ (\A i \in 1..(j - 1) : Scaled(a[i]) > Scaled(a[j]))])
                       ELSE bad
    [] name = "slice" -> IF ~SeqSpec(a[1]) \/ ~IsSeq(a[2]) \/ a[3].t # "int" \/ a[4].t # "int" THEN bad
                         ELSE IF a[3].n < 0 \/ a[4].n < 0 \/ a[3].n > Len(a[2].c) \/ a[4].n > Len(a[2].c) \/ a[4].n < a[3].n THEN bad
                         ELSE good(MakeSeq(a[1], SubSeq(a[2].c, a[3].n + 1, a[4].n), FALSE))
    [] name = "make-sequence" -> IF ~IntArgs(a) \/ (n = 3 /\ a[3].n <= 0) THEN bad
                                 ELSE LET st == IF n = 3 THEN a[3].n ELSE 1
                                          cnt == IF a[2].n <= a[1].n THEN 0 ELSE ((a[2].n - a[1].n) + st - 1) \div st IN
                                      good(VQList([j \in 1..cnt |-> VInt(a[1].n + (j - 1) * st)]))
    [] name = "zip" -> IF ~SeqSpec(a[1]) \/ (\E j \in 2..n : ~IsSeq(a[j])) THEN bad
                       ELSE LET mlen == MinLen(Rest(a)) IN
                            good(MakeSeq(a[1], [i \in 1..mlen |-> MakeSeq(a[1], [j \in 1..(n - 1) |-> a[j + 1].c[i]], FALSE)], FALSE))
    [] name = "insert-index" -> IF ~SeqSpec(a[1]) \/ ~IsSeq(a[2]) \/ a[3].t # "int" \/ a[3].n < 0 \/ a[3].n > Len(a[2].c) THEN bad
                                ELSE good(MakeSeq(a[1], SubSeq(a[2].c, 1, a[3].n) \o <<a[4]>> \o SubSeq(a[2].c, a[3].n + 1, Len(a[2].c)), FALSE))
    [] name = "reverse" -> IF ~SeqSpec(a[1]) \/ ~IsSeq(a[2]) THEN bad
                           ELSE good(MakeSeq(a[1], [j \in 1..Len(a[2].c) |-> a[2].c[Len(a[2].c) + 1 - j]], FALSE))
    [] name = "concat" -> IF a[1].t = "sym" /\ a[1].p = "" /\ a[1].s = "string" /\ (\A j \in 2..n : a[j].t = "str" \/ IsNilV(a[j])) THEN good(VStr(JoinStr(Rest(a))))       \* (() is the empty byte sequence)
                          ELSE IF ~SeqSpec(a[1]) \/ (\E j \in 2..n : ~IsSeq(a[j])) THEN bad
                          ELSE good(MakeSeq(a[1], FlatCells(Rest(a)), TRUE))
    [] name = "append" -> IF ~SeqSpec(a[1]) \/ ~IsSeq(a[2]) THEN bad
                          ELSE good(MakeSeq(a[1], a[2].c \o SubSeq(a, 3, n), FALSE))
    [] OTHER -> bad

PopCall(s) == [s EXCEPT !.frames = Pop(@), !.k = Pop(@)]
\* stampMacroExpansion: nodes of the expansion that carry no source position take the macro call site
RECURSIVE Stamp(_, _)
Stamp(v, site) == IF v.t \in {"list", "quote"} THEN [v EXCEPT !.i = IF @ = 0 THEN site ELSE @, !.c = [j \in 1..Len(v.c) |-> Stamp(v.c[j], site)]]
                  ELSE IF v.t \in {"int", "str", "sym", "float"} THEN [v EXCEPT !.i = IF @ = 0 THEN site ELSE @]
                  ELSE v

\* set: PutGlobal in the current package, records the function name for stack traces
SetGlobal(s, sym, v) ==
  LET p == IF sym.p = "" THEN s.pkg ELSE sym.p IN
  LET s1 == [s EXCEPT !.pkgs[p].syms = [x \in DOMAIN @ \cup {sym.s} |-> IF x = sym.s THEN v ELSE @[x]]] IN
  IF v.t = "fun" /\ v.n > 0 /\ s.funs[v.n].pkg = p
  THEN [s1 EXCEPT !.pkgs[p].fnames = [x \in DOMAIN @ \cup {s.funs[v.n].fid} |-> IF x = s.funs[v.n].fid THEN sym.s ELSE @[x]]]
  ELSE s1

MkClosure(s, kind, formals, body, env) ==
  \* env.Lambda: a fresh function environment (child of env) gives the function its identity
  LET idx == Len(s.funs) + 1 IN
  [s EXCEPT !.funs = Append(@, [fid |-> "_fun" \o ToString(idx), kind |-> kind, formals |-> formals.c,
                                 body |-> body, env |-> env, pkg |-> s.pkg])]

\* a package created by in-package uses the language package: the lisp package's current exports, by value
NewPkg(s) == [syms |-> [x \in {y \in s.pkgs["lisp"].exports : y \in DOMAIN s.pkgs["lisp"].syms} |-> s.pkgs["lisp"].syms[x]],
              exports |-> {}, fnames |-> [x \in {} |-> ""]]
\* export: symbols, strings and (nested) lists of them; names collected left to right until a bad argument
RECURSIVE ExportNames(_)
ExportNames(args) ==
  IF Len(args) = 0 THEN [ok |-> TRUE, names |-> {}]
  ELSE LET a == args[1] IN
       IF a.t \in {"sym", "str"}
       THEN LET r == ExportNames(Rest(args)) IN [ok |-> r.ok, names |-> {a.s} \cup r.names]
       ELSE IF a.t = "list"
       THEN LET r1 == ExportNames(a.c) IN
            IF ~r1.ok THEN r1 ELSE LET r == ExportNames(Rest(args)) IN [ok |-> r.ok, names |-> r1.names \cup r.names]
       ELSE [ok |-> FALSE, names |-> {}]
\* use-package: for every named package in order, bind each of its exports (by value, now) in the current package
\* sorted order of the names the package histories export (TLC cannot compare strings); any other name sorts after them
NameRank(x) == CASE x = "api" -> 1 [] x = "f" -> 2 [] x = "false" -> 3 [] x = "g" -> 4 [] x = "h" -> 5 [] x = "m" -> 6
                 [] x = "true" -> 7 [] x = "x" -> 8 [] x = "y" -> 9 [] OTHER -> 500
RECURSIVE UsePackages(_, _, _)
UsePackages(s, args, env) ==
  IF Len(args) = 0 THEN [s EXCEPT !.ctl = Ret(VNil)]
  ELSE LET a == args[1] IN
       IF a.t \notin {"sym", "str"} THEN Fail(s, env)
       ELSE IF a.s \notin DOMAIN s.pkgs THEN Fail(s, env)
       ELSE LET src == s.pkgs[a.s]
                ex == src.exports IN
            \* exports are imported one by one in the sorted order of their names; the first one that is unbound (or is
            \* true / false, which cannot be bound) fails the call and the bindings made before it stay
            LET badx == {x \in ex : x \notin DOMAIN src.syms \/ x \in {"true", "false"}}
                firstbad == IF badx = {} THEN 1000 ELSE CHOOSE r \in {NameRank(x) : x \in badx} : \A x \in badx : r <= NameRank(x)
                got == {x \in ex \ badx : NameRank(x) < firstbad}
                s2 == [s EXCEPT !.pkgs[s.pkg].syms = [x \in DOMAIN @ \cup got |-> IF x \in got THEN src.syms[x] ELSE @[x]]] IN
            IF badx # {} THEN Fail(s2, env) ELSE UsePackages(s2, Rest(args), env)

FormalsOK(fl) == fl.t = "list" /\ \A j \in 1..Len(fl.c) : fl.c[j].t = "sym"

\* GetFunGlobal: a symbol names a binding of the current PACKAGE (or a qualified one), never a lexical one
FunGlobal(s, fa) ==
  IF fa.t = "sym"
  THEN (IF fa.p = "" /\ fa.s \notin {"true", "false"} /\ PkgHas(s, s.pkg, fa.s) THEN NameFun(s.pkgs[s.pkg].syms[fa.s], fa)
        ELSE IF fa.p \notin {"", ":"} /\ PkgHas(s, fa.p, fa.s) THEN NameFun(s.pkgs[fa.p].syms[fa.s], fa) ELSE VNil)
  ELSE fa
\* an unqualified symbol given as a function designator that is not bound in the current package: the unbound-symbol
\* error is the symbol's own (it carries the position the symbol was written at, when it has one)
UnboundDesig(s, fa) == fa.t = "sym" /\ fa.p = "" /\ fa.s \notin {"true", "false"} /\ ~PkgHas(s, s.pkg, fa.s) /\ fa.i # 0
DFail(s, env, fa) == IF UnboundDesig(s, fa) THEN LET e == Fail(s, env) IN [e EXCEPT !.ctl.v.i = fa.i] ELSE Fail(s, env)
\* formal argument list of a builtin as far as arity describes it (the names are immaterial)
BuiltinFormalsV(name) ==
  LET a == Arity(name) IN
  [j \in 1..a[1] |-> VSym("p" \o ToString(j))] \o
  (IF a[2] = -1 THEN <<VSym("&rest"), VSym("r")>>
   ELSE IF a[2] > a[1] THEN <<VSym("&optional")>> \o [j \in 1..(a[2] - a[1]) |-> VSym("o" \o ToString(j))] ELSE <<>>)
FunFormals(s, f) == IF f.n = 0 THEN BuiltinFormalsV(f.s) ELSE s.funs[f.n].formals
\* compose: the arguments g is applied to - every parameter name in order, then the &rest name or ()
RECURSIVE GArgs(_, _)
GArgs(fs, i) ==
  IF i > Len(fs) THEN [ok |-> TRUE, args |-> <<>>, rest |-> VNil]
  ELSE IF fs[i].s \in {"&optional", "&key"} THEN GArgs(fs, i + 1)
  ELSE IF fs[i].s = "&rest" THEN [ok |-> Len(fs) = i + 1, args |-> <<>>, rest |-> IF Len(fs) = i + 1 THEN fs[i + 1] ELSE VNil]
  ELSE LET r == GArgs(fs, i + 1) IN [ok |-> r.ok, args |-> <<fs[i]>> \o r.args, rest |-> r.rest]
GenSymV(k) == [VSym("gen" \o ToString(k)) EXCEPT !.n = k]

\* expr (the #^ shorthand): the formal list is read off the TOP-LEVEL cells of the body; only unquoted SYMBOLS are
\* argument placeholders: % alone, %1 .. %9, %&optional, %&rest
PctIdx(nm) == CASE nm = "%1" -> 1 [] nm = "%2" -> 2 [] nm = "%3" -> 3 [] nm = "%4" -> 4 [] nm = "%5" -> 5 [] nm = "%6" -> 6
                [] nm = "%7" -> 7 [] nm = "%8" -> 8 [] nm = "%9" -> 9 [] OTHER -> 0
IsPct(x) == x.t = "sym" /\ ~x.q /\ x.p = "" /\ (x.s \in {"%", "%&rest", "%&optional"} \/ PctIdx(x.s) > 0)
RECURSIVE ExprScan(_, _, _)
ExprScan(cells, i, st) ==
  IF i > Len(cells) \/ ~st.ok THEN st
  ELSE LET x == cells[i] IN
       IF ~IsPct(x) THEN ExprScan(cells, i + 1, st)
       ELSE IF x.s = "%" THEN (IF st.short THEN ExprScan(cells, i + 1, st)
                               ELSE IF st.n > 0 THEN [st EXCEPT !.ok = FALSE]
                               ELSE ExprScan(cells, i + 1, [st EXCEPT !.short = TRUE]))
       ELSE IF x.s = "%&optional" THEN ExprScan(cells, i + 1, [st EXCEPT !.opt = TRUE])
       ELSE IF x.s = "%&rest" THEN ExprScan(cells, i + 1, [st EXCEPT !.rest = TRUE])
       ELSE IF st.short THEN [st EXCEPT !.ok = FALSE]
       ELSE ExprScan(cells, i + 1, [st EXCEPT !.n = Max(@, PctIdx(x.s))])
ExprSpec(body) ==
  LET none == [ok |-> TRUE, n |-> 0, short |-> FALSE, opt |-> FALSE, rest |-> FALSE] IN
  IF body.q THEN none
  ELSE CASE body.t = "sym" -> (IF ~IsPct(body) THEN none
                               ELSE IF body.s = "%" THEN [none EXCEPT !.short = TRUE]
                               ELSE IF body.s = "%&rest" THEN [none EXCEPT !.rest = TRUE]
                               ELSE IF body.s = "%&optional" THEN [none EXCEPT !.opt = TRUE]
                               ELSE [none EXCEPT !.n = PctIdx(body.s)])
         [] body.t = "list" -> ExprScan(body.c, 1, none)
         [] body.t \in {"int", "float", "str"} -> none
         [] OTHER -> [none EXCEPT !.ok = FALSE]
ExprFormals(sp) ==
  (IF sp.short THEN <<VSym("%")>> ELSE [j \in 1..sp.n |-> VSym("%" \o ToString(j))])
  \o (IF sp.opt THEN <<VSym("&optional"), VSym("%&optional")>> ELSE <<>>)
  \o (IF sp.rest THEN <<VSym("&rest"), VSym("%&rest")>> ELSE <<>>)

DoCall(s) ==
  LET f == s.ctl.f  args == s.ctl.args  env == s.ctl.env  n == Len(args)
      kind == FunKind(s, f) IN
  IF f.n > 0
  THEN \* ---- lambda: bind into a copy of the function's environment, swap package, run the body
       LET fd == s.funs[f.n]
           b  == BindReq(fd.formals, args, EmptyVars) IN
       IF ~b.ok THEN (IF "site" \in DOMAIN s.ctl THEN FailAt(s, env, s.ctl.site) ELSE Fail(s, env))
       ELSE LET envs2 == Append(s.envs, [vars |-> b.vars, parent |-> fd.env, loc |-> s.envs[fd.env].loc])
                eid == Len(envs2) IN
            [s EXCEPT !.envs = envs2,
                      !.k = Append(@, [t |-> "body", f |-> f, env |-> eid, j |-> 0, outer |-> s.pkg, kind |-> kind]),
                      !.pkg = IF fd.pkg \in DOMAIN s.pkgs THEN fd.pkg ELSE @,
                      !.ctl = [mode |-> "bodystep"]]
  ELSE IF ~ArityOK(f.s, n) THEN Fail(s, env)
  ELSE IF f.s \in {"boom-op", "boom-macro"}
  THEN \* host special operator / host macro of the test programs whose Go body panics: the activation's
       \* frame (TRO-blocked for the macro) is on the stack at that point and is removed by the unwinding
       [s EXCEPT !.ctl = [mode |-> "panic"]]
  ELSE IF kind = "op" THEN [s EXCEPT !.k = Append(@, [t |-> "op", op |-> f.s, args |-> args, env |-> env, j |-> 0, vals |-> <<>>,
                                                       tail |-> FALSE, env2 |-> env, phase |-> "body", pushed |-> FALSE,
                                                       n |-> 0, cnt |-> VNil, turn |-> 0, bi |-> 0, err |-> VNil,
                                                       qs |-> <<>>, pend |-> [k |-> "", ql |-> 0]]),
                                     !.ctl = [mode |-> "opstep"]]
  ELSE IF kind = "macro"
  THEN IF f.s = "defconst"
       THEN \* (lisp:progn (lisp:set 'name value docstring...) (lisp:export 'name) ())
            IF args[1].t # "sym" THEN Fail(s, env)
            ELSE [s EXCEPT !.ctl = Ret(VList(<< VPSym("lisp", "progn"),
                                               VList(<< VPSym("lisp", "set"), QuoteV(args[1]), args[2] >> \o SubSeq(args, 3, n)),
                                               VList(<< VPSym("lisp", "export"), QuoteV(args[1]) >>),
                                               VNil >>))]
       ELSE IF f.s = "curry-function"
       THEN \* (lambda (&rest G) (lisp:apply fun args... G)) with G a fresh gensym
            LET g == GenSymV(s.ngen + 1) IN
            [s EXCEPT !.ngen = @ + 1,
                      !.ctl = Ret(VList(<< VSym("lambda"), VList(<< VSym("&rest"), g >>),
                                          VList(<< VPSym("lisp", "apply"), args[1] >> \o SubSeq(args, 2, n) \o << g >>) >>))]
       ELSE IF f.s = "get-default"
       THEN \* '(lisp:let ((M map) (K key)) (lisp:if (lisp:key? M K) (lisp:get M K) default)) with two fresh gensyms
            LET g1 == GenSymV(s.ngen + 1)  g2 == GenSymV(s.ngen + 2) IN
            [s EXCEPT !.ngen = @ + 2,
                      !.ctl = Ret(VQList(<< VPSym("lisp", "let"),
                                           VList(<< VList(<< g1, args[1] >>), VList(<< g2, args[2] >>) >>),
                                           VList(<< VPSym("lisp", "if"), VList(<< VPSym("lisp", "key?"), g1, g2 >>),
                                                    VList(<< VPSym("lisp", "get"), g1, g2 >>), args[3] >>) >>))]
       ELSE
       \* defun / defmacro: expansion (lisp:progn (lisp:set 'name <fun>) ())
       LET sym == args[1]  fl == args[2] IN
       IF sym.t # "sym" \/ ~(fl.t = "list") THEN Fail(s, env)
       ELSE LET s1 == MkClosure(s, IF f.s = "defmacro" THEN "macro" ELSE "fun", fl, SubSeq(args, 3, n), env)
                fv == VClosure(Len(s1.funs), "") IN
            [s1 EXCEPT !.ctl = Ret(VList(<< VPSym("lisp", "progn"),
                                           VList(<< VPSym("lisp", "set"), QuoteV(sym), fv >>),
                                           VNil >>))]
  ELSE \* ---- builtin functions
  CASE f.s = "probe" ->
         [s EXCEPT !.probes = Append(@, [tag |-> args, frames |-> FrameView(Pop(s.frames)), steps |-> s.steps,
                                         nest |-> Nest(s), pkg |-> s.pkg]),
                   !.ctl = Ret(VNil)]
    [] f.s = "capture" ->
         \* host builtin: identity (error id) of the condition being handled, 0 when none
         [s EXCEPT !.probes = Append(@, [tag |-> <<VQSym("capture"), VInt(IF Len(s.conds) = 0 THEN 0 ELSE Top(s.conds).n)>>,
                                         frames |-> FrameView(Pop(s.frames)), steps |-> s.steps, nest |-> Nest(s), pkg |-> s.pkg]),
                   !.ctl = Ret(VNil)]
    [] f.s = "boom" ->
         \* a Go panic in a host builtin: recovered by the innermost active eval; every activation
         \* above it is unwound by its defers
         [s EXCEPT !.ctl = [mode |-> "panic"]]
    [] f.s = "set" ->
         IF args[1].t # "sym" \/ args[1].p = ":" \/ args[1].s \in {"true", "false"} THEN Fail(s, env)
         ELSE IF args[1].p # "" /\ args[1].p \notin DOMAIN s.pkgs THEN Fail(s, env)
         ELSE [SetGlobal(s, args[1], args[2]) EXCEPT !.ctl = Ret(NameFun(args[2], args[1]))]
    [] f.s = "error" ->
         IF args[1].t # "sym" THEN Fail(s, env)
         ELSE WithErr(s, args[1].s, Rest(args), env)
    [] f.s = "rethrow" ->
         IF Len(s.conds) = 0 THEN Fail(s, env) ELSE [s EXCEPT !.ctl = Ret(Top(s.conds))]
    [] f.s = "load-string" ->
         \* the source text's forms travel in the string node's cells (the harness renders the same forms as text);
         \* evaluated in the ROOT environment as a nested top-level evaluation: own frame blocked, package saved
         IF args[1].t # "str" THEN Fail(s, env)
         ELSE IF n = 2 \/ (n = 3 /\ ~(args[2].t = "sym" /\ args[2].p = ":" /\ args[2].s = "name" /\ args[3].t = "str")) THEN Fail(s, env)
         ELSE LET s1 == [s EXCEPT !.frames = SetTop(@, [Top(@) EXCEPT !.tro = TRUE])] IN
              IF Len(args[1].c) = 0 THEN [s1 EXCEPT !.ctl = Ret(VNil)]
              ELSE [s1 EXCEPT !.k = Append(@, [t |-> "load", forms |-> args[1].c, j |-> 1, saved |-> s.pkg]),
                              !.ctl = Eval(args[1].c[1], 1)]
    [] f.s = "in-package" ->
         IF args[1].t \notin {"sym", "str"} THEN Fail(s, env)
         ELSE LET name == args[1].s IN
              IF \E j \in 2..n : args[j].t # "str" THEN
                   \* (the package switch has already happened when the docstring check fails)
                   Fail([s EXCEPT !.pkgs = IF name \in DOMAIN @ THEN @ ELSE [x \in DOMAIN @ \cup {name} |-> IF x = name THEN NewPkg(s) ELSE @[x]], !.pkg = name], env)
              ELSE [s EXCEPT !.pkgs = IF name \in DOMAIN @ THEN @ ELSE [x \in DOMAIN @ \cup {name} |-> IF x = name THEN NewPkg(s) ELSE @[x]],
                             !.pkg = name, !.ctl = Ret(VNil)]
    [] f.s = "use-package" -> UsePackages(s, args, env)
    [] f.s = "export" ->
         IF ExportNames(args).ok THEN [s EXCEPT !.pkgs[s.pkg].exports = @ \cup ExportNames(args).names, !.ctl = Ret(VNil)]
         ELSE Fail([s EXCEPT !.pkgs[s.pkg].exports = @ \cup ExportNames(args).names], env)
    [] f.s \in {"map", "foldl", "foldr", "select", "reject", "any?", "all?"} ->
         \* the function argument is resolved with GetFunGlobal (a symbol names a binding of the current PACKAGE)
         LET typed == f.s \in {"map", "select", "reject"}
             fa == IF typed THEN args[2] ELSE args[1]
             lis == IF f.s \in {"any?", "all?"} THEN args[2] ELSE args[3]
             fv == IF fa.t = "sym"
                   THEN (IF fa.p = "" /\ fa.s \notin {"true", "false"} /\ PkgHas(s, s.pkg, fa.s) THEN NameFun(s.pkgs[s.pkg].syms[fa.s], fa)
                         ELSE IF fa.p \notin {"", ":"} /\ PkgHas(s, fa.p, fa.s) THEN NameFun(s.pkgs[fa.p].syms[fa.s], fa) ELSE VNil)
                   ELSE fa IN
         IF typed /\ ~SeqSpec(args[1]) THEN Fail(s, env)
         ELSE IF ~IsFun(fv) \/ (f.s \notin {"any?", "all?"} /\ FunKind(s, fv) # "fun") THEN DFail(s, env, fa)
         ELSE IF ~IsSeq(lis) THEN Fail(s, env)
         ELSE [s EXCEPT !.k = Append(@, [t |-> "hof", name |-> f.s, f |-> fv, spec |-> IF typed THEN args[1] ELSE VQSym("list"), items |-> IF f.s = "foldr" THEN [j \in 1..Len(lis.c) |-> lis.c[Len(lis.c) + 1 - j]] ELSE lis.c,
                                         j |-> 0, acc |-> IF f.s \in {"foldl", "foldr"} THEN args[2] ELSE VNil, out |-> <<>>, env |-> env]),
                        !.ctl = [mode |-> "hofstep"]]
    [] f.s = "gensym" ->
         \* a fresh symbol gen<counter>; the harness prints the counter with the real zero padding
         [s EXCEPT !.ngen = @ + 1, !.ctl = Ret([VSym("gen" \o ToString(s.ngen + 1)) EXCEPT !.n = s.ngen + 1])]
    [] f.s = "eval" ->
         \* an LQuote is unwrapped; anything else is evaluated (unquoted once) in the caller's environment
         IF args[1].t = "quote" THEN [s EXCEPT !.ctl = Ret(args[1].c[1])]
         ELSE [s EXCEPT !.ctl = Eval([args[1] EXCEPT !.q = FALSE], env)]
    [] f.s \in {"macroexpand", "macroexpand-1"} ->
         IF args[1].t # "list" THEN Fail(s, env)
         ELSE [s EXCEPT !.k = Append(@, [t |-> "mx", all |-> (f.s = "macroexpand"), depth |-> 0, env |-> env, form |-> args[1]]),
                        !.ctl = [mode |-> "mxstep"]]
    [] f.s = "stable-sort" ->
         \* sort.Stable on at most 20 elements is one insertion sort: for i = 2..n, element i sinks while
         \* less(element j, element j-1).  The function is applied to the elements (to their keys) as VALUES.
         LET fv == FunGlobal(s, args[1])  lis == args[2]
             kv == IF n >= 3 THEN FunGlobal(s, args[3]) ELSE VNil IN
         IF ~IsFun(fv) THEN DFail(s, env, args[1])
         ELSE IF ~IsSeq(lis) THEN Fail(s, env)
         ELSE IF n > 3 THEN Fail(s, env)
         ELSE IF n = 3 /\ ~IsFun(kv) THEN DFail(s, env, args[3])
         ELSE IF Len(lis.c) > 20 THEN [s EXCEPT !.dropped = TRUE]          \* outside the modelled algorithm
         ELSE [s EXCEPT !.k = Append(@, [t |-> "sort", name |-> "stable-sort", f |-> fv, key |-> kv, items |-> lis.c, box |-> lis,
                                         i |-> 2, j |-> 2, phase |-> "start", ka |-> VNil, kb |-> VNil, err |-> VNil,
                                         item |-> VNil, lo |-> 0, hi |-> 0, env |-> env]),
                        !.ctl = [mode |-> "sortstep"]]
    [] f.s = "insert-sorted" ->
         \* sort.Search: lo = 0, hi = n; h = (lo + hi) div 2; predicate(item, element h) true -> hi = h, else lo = h + 1.
         \* An error answers false and the search goes on (the last error is the one returned).
         LET spec == args[1]  lis == args[2]  pv == args[3]
             kv == IF n >= 5 THEN FunGlobal(s, args[5]) ELSE VNil IN
         IF spec.t # "sym" THEN Fail(s, env)
         ELSE IF ~IsSeq(lis) THEN Fail(s, env)
         ELSE IF ~IsFun(pv) THEN Fail(s, env)
         ELSE IF n > 5 THEN Fail(s, env)
         ELSE IF n = 5 /\ ~IsFun(kv) THEN Fail(s, env)
         ELSE [s EXCEPT !.k = Append(@, [t |-> "sort", name |-> "insert-sorted", f |-> pv, key |-> kv, items |-> lis.c, box |-> spec,
                                         i |-> 0, j |-> 0, phase |-> "start", ka |-> VNil, kb |-> VNil, err |-> VNil,
                                         item |-> args[4], lo |-> 0, hi |-> Len(lis.c), env |-> env]),
                        !.ctl = [mode |-> "sortstep"]]
    [] f.s = "search-sorted" ->
         LET pv == FunGlobal(s, args[2]) IN
         IF args[1].t # "int" THEN Fail(s, env)
         ELSE IF ~IsFun(pv) THEN Fail(s, env)
         ELSE [s EXCEPT !.k = Append(@, [t |-> "sort", name |-> "search-sorted", f |-> pv, key |-> VNil, items |-> <<>>, box |-> VNil,
                                         i |-> 0, j |-> 0, phase |-> "start", ka |-> VNil, kb |-> VNil, err |-> VNil,
                                         item |-> VNil, lo |-> 0, hi |-> IF args[1].n > 0 THEN args[1].n ELSE 0, env |-> env]),
                        !.ctl = [mode |-> "sortstep"]]
    [] f.s \in {"compose", "flip"} ->
         \* both build a new lambda in the CALLER's environment around the function VALUES
         LET fv == FunGlobal(s, args[1]) IN
         IF ~IsFun(fv) \/ FunKind(s, fv) # "fun" THEN Fail(s, env)
         ELSE IF f.s = "flip"
         THEN IF Len(FunFormals(s, fv)) < 2 THEN Fail(s, env)
              ELSE LET s1 == MkClosure(s, "fun", VList(<< VSym("x"), VSym("y") >>), << VList(<< fv, VSym("y"), VSym("x") >>) >>, env) IN
                   [s1 EXCEPT !.ctl = Ret(VClosure(Len(s1.funs), ""))]
         ELSE LET gv == FunGlobal(s, args[2]) IN
              IF ~IsFun(gv) \/ FunKind(s, gv) # "fun" THEN Fail(s, env)
              ELSE LET fs == FunFormals(s, gv)  ga == GArgs(fs, 1) IN
                   IF ~ga.ok THEN Fail(s, env)
                   ELSE LET gcall == VList(<< VPSym("lisp", "apply"), gv >> \o ga.args \o << ga.rest >>)
                            body == VList(<< VPSym("lisp", "funcall"), fv, gcall >>)
                            s1 == MkClosure(s, "fun", VList(fs), << body >>, env) IN
                        [s1 EXCEPT !.ctl = Ret(VClosure(Len(s1.funs), ""))]
    [] f.s \in {"funcall", "apply", "unpack"} ->
         \* GetFunGlobal: a symbol is looked up in the current *package*, not lexically
         LET fa == args[1]
             fv == IF fa.t = "sym"
                   THEN (IF fa.p = "" /\ fa.s \notin {"true", "false"} /\ PkgHas(s, s.pkg, fa.s) THEN NameFun(s.pkgs[s.pkg].syms[fa.s], fa)
                         ELSE IF fa.p \notin {"", ":"} /\ PkgHas(s, fa.p, fa.s) THEN NameFun(s.pkgs[fa.p].syms[fa.s], fa) ELSE VNil)
                   ELSE fa
             rest == Rest(args) IN
         IF ~IsFun(fv) \/ FunKind(s, fv) # "fun" THEN DFail(s, env, fa)
         ELSE IF f.s # "funcall" /\ (Len(rest) = 0 \/ Top(rest).t # "list") THEN Fail(s, env)
         ELSE LET fargs == IF f.s = "funcall" THEN rest ELSE Pop(rest) \o Top(rest).c IN
              \* the builtin's own frame enters its terminal state, then env.FunCall
              [s EXCEPT !.frames = SetTop(@, [Top(@) EXCEPT !.term = TRUE]),
                        !.ctl = [mode |-> "dispatch", f |-> fv, args |-> fargs, env |-> env]]
    [] OTHER ->
         LET r == PureBuiltin(f.s, args) IN
         IF r.ok THEN [s EXCEPT !.ctl = Ret(r.v)] ELSE Fail(s, env)

\* macroexpand / macroexpand-1: one MacroCall per step while the head of the form is bound to a macro
CanMxStep(s) == s.ctl.mode = "mxstep"
MxStep(s) ==
  LET x == Top(s.k)  form == x.form IN
  IF x.all /\ x.depth > s.cfg.maxmacro THEN Fail([s EXCEPT !.k = Pop(@)], x.env)
  ELSE IF Len(form.c) = 0 \/ form.c[1].t # "sym" THEN [s EXCEPT !.k = Pop(@), !.ctl = Ret(form)]
  ELSE LET r == SymValue(s, form.c[1], x.env) IN
       IF ~r.ok \/ ~IsFun(r.v) \/ FunKind(s, r.v) # "macro" THEN [s EXCEPT !.k = Pop(@), !.ctl = Ret(form)]
       ELSE [s EXCEPT !.ctl = [mode |-> "dispatch", f |-> NameFun(r.v, form.c[1]), args |-> Rest(form.c), env |-> x.env]]

\* map / foldl / foldr / select / reject / any? / all? call the function once per element (env.FunCall on the
\* element as a VALUE)
CanHofStep(s) == s.ctl.mode = "hofstep"
HofStep(s) ==
  LET h == Top(s.k)  n == Len(h.items) IN
  IF h.j >= n
  THEN LET r == CASE h.name = "map" -> MakeSeq(h.spec, h.out, FALSE)
                  [] h.name \in {"select", "reject"} -> MakeSeq(h.spec, h.out, FALSE)
                  [] h.name \in {"foldl", "foldr"} -> h.acc
                  [] h.name = "all?" -> VTrue
                  [] h.name = "any?" -> VFalse IN
       [s EXCEPT !.k = Pop(@), !.ctl = Ret(r)]
  ELSE LET x == h.items[h.j + 1]
           h2 == [h EXCEPT !.j = @ + 1] IN
       IF h.name \in {"any?", "all?"} /\ FunKind(s, h.f) # "fun"
       THEN \* a macro or operator as the predicate takes the element as written: the form (pred element) is evaluated
            [s EXCEPT !.k = SetTop(@, h2), !.ctl = Eval(VList(<<h.f, x>>), h.env)]
       ELSE LET fargs == CASE h.name = "foldl" -> <<h.acc, x>> [] h.name = "foldr" -> <<x, h.acc>> [] OTHER -> <<x>> IN
            [s EXCEPT !.k = SetTop(@, h2), !.ctl = [mode |-> "dispatch", f |-> h.f, args |-> fargs, env |-> h.env]]

\* stable-sort / insert-sorted / search-sorted: the comparison calls, one at a time
CanSortStep(s) == s.ctl.mode = "sortstep"
\* apply fun to VALUES: a regular function is called on them; a macro or operator gets the form (fun v ...)
ApplyVals(s, fr, fun, vals) ==
  [s EXCEPT !.k = SetTop(@, fr),
            !.ctl = IF FunKind(s, fun) = "fun" THEN [mode |-> "dispatch", f |-> fun, args |-> vals, env |-> fr.env]
                    ELSE Eval(VList(<<fun>> \o vals), fr.env)]
SortStep(s) ==
  LET x == Top(s.k)  n == Len(x.items) IN
  IF x.name = "stable-sort"
  THEN IF x.i > n \/ x.err # VNil
       THEN [s EXCEPT !.k = Pop(@), !.ctl = Ret(IF x.err # VNil THEN x.err ELSE [x.box EXCEPT !.c = x.items])]
       ELSE IF x.j < 2 THEN [s EXCEPT !.k = SetTop(@, [x EXCEPT !.i = @ + 1, !.j = x.i + 1])]
       ELSE LET a == x.items[x.j]  b == x.items[x.j - 1] IN
            IF x.key = VNil THEN ApplyVals(s, [x EXCEPT !.phase = "cmp"], x.f, <<a, b>>)
            ELSE IF x.phase = "start" THEN ApplyVals(s, [x EXCEPT !.phase = "ka"], x.key, <<a>>)
            ELSE IF x.phase = "ka" THEN ApplyVals(s, [x EXCEPT !.phase = "kb"], x.key, <<b>>)
            ELSE ApplyVals(s, [x EXCEPT !.phase = "cmp"], x.f, <<x.ka, x.kb>>)
  ELSE \* binary search
       IF x.lo >= x.hi
       THEN IF x.err # VNil THEN [s EXCEPT !.k = Pop(@), !.ctl = Ret(x.err)]
            ELSE IF x.name = "search-sorted" THEN [s EXCEPT !.k = Pop(@), !.ctl = Ret(VInt(x.lo))]
            ELSE IF ~SeqSpec(x.box) THEN Fail([s EXCEPT !.k = Pop(@)], x.env)
            ELSE [s EXCEPT !.k = Pop(@), !.ctl = Ret(MakeSeq(x.box, SubSeq(x.items, 1, x.lo) \o <<x.item>> \o SubSeq(x.items, x.lo + 1, n), FALSE))]
       ELSE LET h == (x.lo + x.hi) \div 2 IN
            IF x.name = "search-sorted"
            THEN \* (the form (predicate h) is evaluated)
                 [s EXCEPT !.k = SetTop(@, [x EXCEPT !.phase = "cmp"]), !.ctl = Eval(VList(<<x.f, VInt(h)>>), x.env)]
            ELSE LET a == x.item  b == x.items[h + 1] IN
                 IF x.key = VNil THEN ApplyVals(s, [x EXCEPT !.phase = "cmp"], x.f, <<a, b>>)
                 ELSE IF x.phase = "start" THEN ApplyVals(s, [x EXCEPT !.phase = "ka"], x.key, <<a>>)
                 ELSE IF x.phase = "ka" THEN ApplyVals(s, [x EXCEPT !.phase = "kb"], x.key, <<b>>)
                 ELSE ApplyVals(s, [x EXCEPT !.phase = "cmp"], x.f, <<x.ka, x.kb>>)
\* a comparison call (or a key call) has returned
SortReturn(s, x, v) ==
  LET n == Len(x.items)  again == [mode |-> "sortstep"] IN
  IF x.name = "stable-sort"
  THEN IF IsErr(v) THEN [s EXCEPT !.k = SetTop(@, [x EXCEPT !.err = v]), !.ctl = again]
       ELSE IF x.phase = "ka" THEN [s EXCEPT !.k = SetTop(@, [x EXCEPT !.ka = v]), !.ctl = again]
       ELSE IF x.phase = "kb" THEN [s EXCEPT !.k = SetTop(@, [x EXCEPT !.kb = v]), !.ctl = again]
       ELSE IF Truthy(v)
       THEN [s EXCEPT !.k = SetTop(@, [x EXCEPT !.items = [@ EXCEPT ![x.j] = x.items[x.j - 1], ![x.j - 1] = x.items[x.j]], !.j = @ - 1, !.phase = "start"]), !.ctl = again]
       ELSE [s EXCEPT !.k = SetTop(@, [x EXCEPT !.i = @ + 1, !.j = x.i + 1, !.phase = "start"]), !.ctl = again]
  ELSE LET h == (x.lo + x.hi) \div 2 IN
       IF IsErr(v) THEN [s EXCEPT !.k = SetTop(@, [x EXCEPT !.err = v, !.lo = h + 1, !.phase = "start"]), !.ctl = again]
       ELSE IF x.phase = "ka" THEN [s EXCEPT !.k = SetTop(@, [x EXCEPT !.ka = v]), !.ctl = again]
       ELSE IF x.phase = "kb" THEN [s EXCEPT !.k = SetTop(@, [x EXCEPT !.kb = v]), !.ctl = again]
       ELSE IF Truthy(v) THEN [s EXCEPT !.k = SetTop(@, [x EXCEPT !.hi = h, !.phase = "start"]), !.ctl = again]
       ELSE [s EXCEPT !.k = SetTop(@, [x EXCEPT !.lo = h + 1, !.phase = "start"]), !.ctl = again]

\* body of a lambda: non-last forms are evaluated for effect; the last form puts the frame in its terminal state
CanBodyStep(s) == s.ctl.mode = "bodystep"
BodyStep(s) ==
  LET b == Top(s.k)  fd == s.funs[b.f.n]  n == Len(fd.body) IN
  IF n = 0 THEN [s EXCEPT !.k = Pop(@), !.pkg = b.outer, !.ctl = Ret(VNil)]
  ELSE IF b.j + 1 < n
  THEN [s EXCEPT !.k = SetTop(@, [b EXCEPT !.j = @ + 1]), !.ctl = Eval(fd.body[b.j + 1], b.env)]
  ELSE [s EXCEPT !.frames = IF b.kind = "macro" THEN @ ELSE SetTop(@, [Top(@) EXCEPT !.term = TRUE]),
                 !.k = SetTop(@, [b EXCEPT !.j = n]),
                 !.ctl = Eval(fd.body[n], b.env)]

\* --------------------------------------------------------- special operators
CanOpStep(s) == s.ctl.mode = "opstep"
\* env.Terminal(expr) returned by the operator: call() marks the frame terminal and evaluates in termEnv
TailEval(s, o, e, env) ==
  [s EXCEPT !.frames = SetTop(@, [Top(@) EXCEPT !.term = TRUE]),
            !.k = SetTop(@, [o EXCEPT !.tail = TRUE]),
            !.ctl = Eval(e, env)]
SubEval(s, o, e, env) == [s EXCEPT !.k = SetTop(@, o), !.ctl = Eval(e, env)]
OpReturn(s, v) == [PopCall([s EXCEPT !.k = Pop(@)]) EXCEPT !.ctl = Ret(v)]
\* an error raised by the operator itself is created while the operator's frame is still on the stack
OpFail(s, env) ==
  LET e == Fail(s, env) IN [PopCall([e EXCEPT !.k = Pop(@)]) EXCEPT !.ctl = e.ctl]
NewEnv(s, parent) == [s EXCEPT !.envs = Append(@, NewEnvRec(parent, s.envs[parent].loc))]
PutVar(s, e, name, v) == [s EXCEPT !.envs[e].vars = [x \in DOMAIN @ \cup {name} |-> IF x = name THEN v ELSE @[x]]]
BadKey(x) == x.t # "sym" \/ (x.p = "" /\ x.s \in {"true", "false"})

\* opProgn over forms[from..] in env
Progn(s, o, forms, j, env) ==
  \* j = number of forms already started
  IF Len(forms) = 0 THEN OpReturn(s, VNil)
  ELSE IF j + 1 < Len(forms) THEN SubEval(s, [o EXCEPT !.j = j + 1, !.phase = "progn"], forms[j + 1], env)
  ELSE TailEval(s, [o EXCEPT !.j = j + 1, !.phase = "progn"], forms[Len(forms)], env)


\* ------------------------------------------------------------- quasiquote
\* findAndUnquote / doUnquoteSExpr of lisp/macro.go as an explicit walk: `qs` is the
\* stack of list nodes being rebuilt; an (unquote e) / (unquote-splicing e) suspends
\* the walk, evaluates e in the operator's environment and resumes with the value.
RECURSIVE QuoteN(_, _)
QuoteN(v, n) == IF n = 0 THEN v ELSE QuoteN(QuoteV(v), n - 1)
RECURSIVE QLevel(_)
QLevel(x) == (IF x.q THEN 1 ELSE 0) + (IF x.t = "quote" THEN QLevel(x.c[1]) ELSE 0)
RECURSIVE QInner(_)
QInner(x) == IF x.t = "quote" THEN QInner(x.c[1]) ELSE x
UnqKind(v) == IF v.t = "list" /\ Len(v.c) >= 1 /\ v.c[1].t = "sym" /\ v.c[1].p = "" /\ v.c[1].s \in {"unquote", "unquote-splicing"}
              THEN v.c[1].s ELSE "none"
RECURSIVE FlattenOut(_)
FlattenOut(out) == IF Len(out) = 0 THEN <<>>
                   ELSE (IF out[1].sp THEN out[1].v.c ELSE <<out[1].v>>) \o FlattenOut(Rest(out))

RECURSIVE QDeliver(_, _, _), QContinue(_, _), QChild(_, _, _, _)
QDeliver(s, o, r) ==
  IF Len(o.qs) = 0 THEN OpReturn([s EXCEPT !.k = SetTop(@, o)], QuoteV(r.v))
  ELSE LET fr == Top(o.qs) IN
       QContinue(s, [o EXCEPT !.qs = SetTop(@, [fr EXCEPT !.out = Append(@, r), !.j = @ + 1])])
QContinue(s, o) ==
  LET fr == Top(o.qs) IN
  IF fr.j < Len(fr.node.c) THEN QChild(s, o, fr.node.c[fr.j + 1], fr.depth + 1)
  ELSE IF \E j \in 1..Len(fr.out) : fr.out[j].sp /\ fr.out[j].v.t # "list"
  THEN OpFail([s EXCEPT !.k = SetTop(@, o)], o.env)                  \* cannot splice non-list
  ELSE LET expr == [VList(FlattenOut(fr.out)) EXCEPT !.i = fr.node.i] IN
       QDeliver(s, [o EXCEPT !.qs = Pop(@)], [sp |-> FALSE, v |-> QuoteN(expr, fr.ql)])
QChild(s, o, x, depth) ==
  LET ql == QLevel(x)  inner == QInner(x) IN
  IF inner.t # "list" THEN QDeliver(s, o, [sp |-> FALSE, v |-> x])
  ELSE LET uk == UnqKind(inner) IN
  IF uk # "none" /\ Len(inner.c) # 2
  THEN OpFail([s EXCEPT !.k = SetTop(@, o), !.envs[o.env].loc = inner.i], o.env)
  ELSE IF uk = "unquote-splicing"
  THEN IF depth = 0 \/ ql > 0 THEN OpFail([s EXCEPT !.k = SetTop(@, o), !.envs[o.env].loc = inner.i], o.env)
       ELSE SubEval(s, [o EXCEPT !.pend = [k |-> "splice", ql |-> 0], !.j = 1], inner.c[2], o.env)
  ELSE IF uk = "unquote"
  THEN SubEval(s, [o EXCEPT !.pend = [k |-> "val", ql |-> ql], !.j = 1], inner.c[2], o.env)
  ELSE QContinue(s, [o EXCEPT !.qs = Append(@, [node |-> inner, j |-> 0, out |-> <<>>, depth |-> depth, ql |-> ql])])

OpStep(s) ==
  LET o == Top(s.k)  a == o.args  n == Len(a)  env == o.env IN
  CASE o.op = "quote" -> OpReturn(s, QuoteV(a[1]))
    [] o.op = "quasiquote" ->
         IF o.j = 0 THEN QChild(s, o, a[1], 0)
         ELSE LET v == Top(o.vals)  o1 == [o EXCEPT !.vals = <<>>] IN
              IF o.pend.k = "splice" THEN QDeliver(s, o1, [sp |-> TRUE, v |-> v])
              ELSE QDeliver(s, o1, [sp |-> FALSE, v |-> QuoteN(v, o.pend.ql)])
    [] o.op = "if" ->
         IF o.j = 0 THEN SubEval(s, [o EXCEPT !.j = 1], a[1], env)
         ELSE IF Truthy(o.vals[1]) THEN TailEval(s, o, a[2], env) ELSE TailEval(s, o, a[3], env)
    [] o.op = "progn" -> Progn(s, o, a, o.j, env)
    [] o.op = "function" ->
         \* env.GetFun: a symbol is looked up LEXICALLY first (unlike funcall's GetFunGlobal)
         IF a[1].t = "sym"
         THEN LET r == SymValue(s, a[1], env) IN
              IF r.ok /\ IsFun(r.v) THEN OpReturn(s, NameFun(r.v, a[1])) ELSE OpFail(s, env)
         ELSE IF IsFun(a[1]) THEN OpReturn(s, a[1]) ELSE OpFail(s, env)
    [] o.op = "assert" ->
         \* the test, then (only when it fails and a message is given) the message arguments in order, then the error
         IF n > 1 /\ a[2].t # "str" THEN OpFail(s, env)
         ELSE IF o.j = 0 THEN SubEval(s, [o EXCEPT !.j = 1], a[1], env)
         ELSE IF o.j = 1 /\ Truthy(o.vals[1]) THEN OpReturn(s, VNil)
         ELSE IF n <= 1 THEN OpFail(s, env)
         ELSE IF o.j - 1 < n - 2 THEN SubEval(s, [o EXCEPT !.j = @ + 1], a[o.j + 2], env)
         ELSE OpFail(s, env)
    [] o.op = "expr" ->
         LET sp == ExprSpec(a[1]) IN
         IF ~sp.ok THEN OpFail(s, env)
         ELSE \* (one step is charged per positional parameter: the loop that builds them polls the limits)
              LET ch == ChargeN(s, env, IF sp.short THEN 0 ELSE sp.n) IN
              IF ~ch[2] THEN [PopCall([ch[1] EXCEPT !.k = Pop(@)]) EXCEPT !.ctl = ch[1].ctl]
              ELSE LET s1 == MkClosure(ch[1], "fun", VList(ExprFormals(sp)), << a[1] >>, env) IN OpReturn(s1, VClosure(Len(s1.funs), ""))
    [] o.op = "or" ->
         IF n = 0 THEN OpReturn(s, VFalse)
         ELSE IF o.j > 0 /\ Truthy(Top(o.vals)) THEN OpReturn(s, Top(o.vals))
         ELSE IF o.j + 1 < n THEN SubEval(s, [o EXCEPT !.j = @ + 1], a[o.j + 1], env)
         ELSE TailEval(s, o, a[n], env)
    [] o.op = "and" ->
         IF n = 0 THEN OpReturn(s, VTrue)
         ELSE IF o.j > 0 /\ ~Truthy(Top(o.vals)) THEN OpReturn(s, Top(o.vals))
         ELSE IF o.j < n THEN SubEval(s, [o EXCEPT !.j = @ + 1], a[o.j + 1], env)
         ELSE OpReturn(s, Top(o.vals))
    [] o.op = "lambda" ->
         IF ~FormalsOK(a[1]) THEN OpFail(s, env)
         ELSE LET s1 == MkClosure(s, "fun", a[1], Rest(a), env) IN OpReturn(s1, VClosure(Len(s1.funs), ""))
    [] o.op = "set!" ->
         IF a[1].t # "sym" THEN OpFail(s, env)
         ELSE IF o.j = 0 THEN SubEval(s, [o EXCEPT !.j = 1], a[2], env)
         ELSE LET v == o.vals[1]  key == a[1]
                  s0 == [s EXCEPT !.envs[env].loc = key.i] IN
              IF key.p = "" /\ key.s \in {"true", "false"} THEN OpFail(s0, env)
              ELSE LET own == IF key.p = "" THEN LexOwner(s0.envs, env, key.s) ELSE 0 IN
                   IF own > 0 THEN OpReturn(PutVar(s0, own, key.s, v), VNil)
                   ELSE IF key.p = "" /\ PkgHas(s0, s0.pkg, key.s) THEN OpReturn(SetGlobal(s0, key, v), VNil)
                   ELSE OpFail(s0, env)
    [] o.op \in {"let", "let*"} ->
         IF o.phase = "progn" THEN Progn(s, o, Rest(a), o.j, o.env2)
         ELSE IF o.j = 0 /\ ~o.pushed
         THEN \* letenv := newEnv(env); then the shape checks as they are met
              IF a[1].t # "list" THEN OpFail(s, env)
              ELSE LET s1 == NewEnv(s, env) IN
                   [s1 EXCEPT !.k = SetTop(@, [o EXCEPT !.env2 = Len(s1.envs), !.pushed = TRUE])]
         ELSE LET binds == a[1].c  nb == Len(binds)  le == o.env2 IN
              IF o.j < nb
              THEN LET bnd == binds[o.j + 1] IN
                   IF bnd.t # "list" \/ Len(bnd.c) # 2 THEN OpFail(s, env)
                   ELSE IF o.op = "let*" /\ o.j > 0
                        THEN \* let*: the previous value is bound before the next expression is evaluated
                             LET pk == binds[o.j].c[1] IN
                             IF BadKey(pk) THEN OpFail(s, le)
                             ELSE SubEval(PutVar(s, le, pk.s, Top(o.vals)), [o EXCEPT !.j = @ + 1], bnd.c[2], le)
                        ELSE SubEval(s, [o EXCEPT !.j = @ + 1], bnd.c[2], le)
              ELSE \* all value expressions evaluated
                   IF o.op = "let*"
                   THEN IF nb = 0 THEN Progn(s, [o EXCEPT !.vals = <<>>], Rest(a), 0, le)
                        ELSE LET pk == binds[nb].c[1] IN
                             IF BadKey(pk) THEN OpFail(s, le)
                             ELSE Progn(PutVar(s, le, pk.s, Top(o.vals)), [o EXCEPT !.vals = <<>>], Rest(a), 0, le)
                   ELSE \* let: bind all, left to right (a later duplicate wins)
                        IF \E j \in 1..nb : BadKey(binds[j].c[1]) THEN OpFail(s, le)
                        ELSE LET names == {binds[j].c[1].s : j \in 1..nb}
                                 last(x) == CHOOSE j \in 1..nb : binds[j].c[1].s = x /\ \A j2 \in 1..nb : binds[j2].c[1].s = x => j2 <= j
                                 s1 == [s EXCEPT !.envs[le].vars = [x \in DOMAIN @ \cup names |-> IF x \in names THEN o.vals[last(x)] ELSE @[x]]] IN
                             Progn(s1, [o EXCEPT !.vals = <<>>], Rest(a), 0, le)
    [] o.op \in {"flet", "labels", "macrolet"} ->
         IF o.phase = "progn" THEN Progn(s, o, Rest(a), o.j, o.env2)
         ELSE IF a[1].t # "list" THEN OpFail(s, env)     \* (fletenv allocated first; unobservable)
         ELSE LET binds == a[1].c  nb == Len(binds) IN
              IF \E j \in 1..nb : binds[j].t # "list" \/ Len(binds[j].c) < 2 \/ binds[j].c[2].t # "list" \/ BadKey(binds[j].c[1])
              THEN OpFail(s, env)
              ELSE \* fletenv, then one closure per binding: flet closes over a fresh child of env,
                   \* labels over fletenv itself (so the functions see each other)
                   LET s1 == NewEnv(s, env)  fe == Len(s1.envs)
                       RECURSIVE Def(_, _)
                       Def(st, j) ==
                         IF j > nb THEN st
                         ELSE LET bnd == binds[j]
                                  st1 == IF o.op \in {"flet", "macrolet"} THEN NewEnv(st, env) ELSE st
                                  cenv == IF o.op \in {"flet", "macrolet"} THEN Len(st1.envs) ELSE fe
                                  st2 == MkClosure(st1, IF o.op = "macrolet" THEN "macro" ELSE "fun", bnd.c[2], SubSeq(bnd.c, 3, Len(bnd.c)), cenv)
                                  st3 == PutVar(st2, fe, bnd.c[1].s, VClosure(Len(st2.funs), bnd.c[1].s)) IN
                              Def(st3, j + 1) IN
                   LET s2 == Def(s1, 1) IN
                   Progn(s2, [o EXCEPT !.env2 = fe], Rest(a), 0, fe)
    [] o.op = "cond" ->
         IF o.phase = "progn" THEN Progn(s, o, Rest(a[o.n].c), o.j, env)
         ELSE LET idx == IF o.j = 0 THEN 1 ELSE o.n IN
              \* o.n = index of the clause whose test is being evaluated (kept in field n)
              IF o.j = 1 /\ Truthy(Top(o.vals)) THEN Progn(s, [o EXCEPT !.phase = "progn", !.j = 0], Rest(a[o.n].c), 0, env)
              ELSE LET nxt == IF o.j = 0 THEN 1 ELSE o.n + 1 IN
                   IF nxt > n THEN OpReturn(s, VNil)
                   ELSE LET br == a[nxt] IN
                        IF br.t # "list" \/ Len(br.c) = 0 THEN OpFail(s, env)
                        ELSE IF br.c[1].t = "sym" /\ br.c[1].s = "else" /\ br.c[1].p = ""
                             THEN IF nxt # n THEN OpFail(s, env)
                                  ELSE Progn(s, [o EXCEPT !.phase = "progn", !.j = 0, !.n = nxt], Rest(br.c), 0, env)
                             ELSE SubEval(s, [o EXCEPT !.j = 1, !.n = nxt], br.c[1], env)
    [] o.op = "dotimes" ->
         \* (dotimes (sym count [result]) body...)
         LET cs == a[1] IN
         IF o.phase = "progn" THEN OpReturn(s, VNil)     \* unreachable: result handled by TailEval
         ELSE IF cs.t # "list" \/ Len(cs.c) > 3 \/ Len(cs.c) = 0 THEN OpFail(s, env)
         ELSE IF cs.c[1].t # "sym" \/ Len(cs.c) < 2 THEN OpFail(s, env)
         ELSE IF o.j = 0 THEN SubEval(s, [o EXCEPT !.j = 1, !.phase = "count"], cs.c[2], env)
         ELSE LET body == Rest(a)
                  cnt == IF o.phase = "count" THEN Top(o.vals) ELSE o.cnt IN
              IF o.phase = "count" /\ cnt.t # "int" THEN OpFail(s, env)
              ELSE LET s1 == IF o.phase = "count" THEN NewEnv(s, env) ELSE s
                       le == IF o.phase = "count" THEN Len(s1.envs) ELSE o.env2
                       o1 == IF o.phase = "count" THEN [o EXCEPT !.phase = "loop", !.env2 = le, !.cnt = cnt, !.turn = 0, !.bi = 0, !.vals = <<>>]
                             ELSE [o EXCEPT !.vals = <<>>] IN
                   \* o1.turn = turns started, o1.bi = body forms of this turn started
                   IF o1.turn > 0 /\ o1.bi < Len(body)
                   THEN SubEval(s1, [o1 EXCEPT !.bi = @ + 1], body[o1.bi + 1], le)
                   ELSE IF o1.turn < cnt.n
                   THEN \* a new turn: one step for the turn itself, then bind the variable
                        LET ch == Charge(s1, le) IN
                        IF ~ch[2] THEN [PopCall([ch[1] EXCEPT !.k = Pop(@)]) EXCEPT !.ctl = ch[1].ctl]
                        ELSE IF BadKey(cs.c[1]) THEN OpFail(ch[1], le)
                        ELSE LET s2 == PutVar(ch[1], le, cs.c[1].s, VInt(o1.turn)) IN
                             IF Len(body) = 0 THEN [s2 EXCEPT !.k = SetTop(@, [o1 EXCEPT !.turn = @ + 1, !.bi = 0])]
                             ELSE SubEval(s2, [o1 EXCEPT !.turn = @ + 1, !.bi = 1], body[1], le)
                   ELSE IF BadKey(cs.c[1]) THEN OpFail(s1, le)
                   ELSE LET s2 == PutVar(s1, le, cs.c[1].s, VInt(IF cnt.n > 0 THEN cnt.n ELSE 0)) IN
                        TailEval(s2, o1, IF Len(cs.c) = 3 THEN cs.c[3] ELSE VNil, le)
    [] o.op \in {"thread-first", "thread-last"} ->
         \* the threaded value is spliced into the next call form *as an expression*
         LET exprs == Rest(a)  ne == Len(exprs) IN
         IF \E j \in 1..ne : exprs[j].t # "list" \/ exprs[j].q \/ Len(exprs[j].c) < 1 THEN OpFail(s, env)
         ELSE IF ne = 0 THEN TailEval(s, o, a[1], env)
         ELSE LET val == IF o.j = 0 THEN a[1] ELSE Top(o.vals)
                  ex == exprs[o.j + 1]
                  cells == IF o.op = "thread-first" THEN <<ex.c[1], val>> \o Rest(ex.c) ELSE ex.c \o <<val>>
                  form == VList(cells) IN
              IF o.j + 1 = ne THEN TailEval(s, [o EXCEPT !.j = @ + 1], form, env)
              ELSE SubEval(s, [o EXCEPT !.j = @ + 1, !.vals = <<>>], form, env)
    [] o.op = "ignore-errors" ->
         IF n = 0 THEN OpReturn(s, VNil)
         ELSE LET s1 == IF o.j = 0 THEN [s EXCEPT !.frames = SetTop(@, [Top(@) EXCEPT !.tro = TRUE])] ELSE s IN
              IF o.j < n THEN SubEval(s1, [o EXCEPT !.j = @ + 1], a[o.j + 1], env)
              ELSE OpReturn(s1, Top(o.vals))
    [] o.op = "handler-bind" ->
         LET lb == a[1]  forms == Rest(a) IN
         IF o.phase = "body" /\ o.j = 0
         THEN IF lb.t # "list" THEN OpFail(s, env)
              ELSE IF \E j \in 1..Len(lb.c) : lb.c[j].t # "list" \/ Len(lb.c[j].c) # 2 \/ lb.c[j].c[1].t # "sym" THEN OpFail(s, env)
              ELSE IF Len(forms) = 0 THEN OpFail(s, env)       \* the operator returns a Go nil: "builtin returned nil" error
              ELSE SubEval([s EXCEPT !.frames = SetTop(@, [Top(@) EXCEPT !.tro = TRUE])], [o EXCEPT !.j = 1], forms[1], env)
         ELSE IF o.phase = "body"
         THEN IF o.j < Len(forms) THEN SubEval(s, [o EXCEPT !.j = @ + 1], forms[o.j + 1], env)
              ELSE OpReturn(s, Top(o.vals))
         ELSE IF o.phase = "hexpr"
         THEN \* handler expression evaluated: must be a function; push the condition, call it
              LET hv == Top(o.vals)  er == o.err IN
              IF ~IsFun(hv) THEN OpFail(s, env)
              ELSE LET hargs == <<QuoteV(VSym(er.s))>> \o er.c
                       call == VList(<<hv>> \o hargs) IN
                   \* a regular function is applied to the condition name and the error's data AS VALUES (they are not
                   \* evaluated again); a macro or operator given as handler gets them as a form
                   [s EXCEPT !.conds = Append(@, er),
                             !.k = SetTop(@, [o EXCEPT !.phase = "hcall", !.pushed = TRUE]),
                             !.ctl = IF FunKind(s, hv) = "fun" THEN [mode |-> "dispatch", f |-> hv, args |-> hargs, env |-> env]
                                     ELSE Eval(call, env)]
         ELSE OpReturn(s, Top(o.vals))
    [] OTHER -> OpFail(s, env)

\* ------------------------------------------------------------------ return
\* a value (or error, mark, macro expansion) returns to the topmost activation
CanReturn(s) == s.ctl.mode = "ret"
\* env.ErrorAssociate on the way out of eval / evalSExpr: an error that carries no position yet (it was raised while a
\* form without a position of its own was current - a call form built by thread-first / thread-last, say) takes the
\* location the environment has at that moment
Assoc(v, loc) == IF IsErr(v) /\ v.i = 0 THEN [v EXCEPT !.i = loc] ELSE v
DoReturn(s) ==
  LET v == s.ctl.v  c == Top(s.k) IN
  CASE c.t = "top" ->
         IF IsErr(v) THEN FinishEval(s, v)
         ELSE [s EXCEPT !.k = <<>>, !.last = v, !.ctl = [mode |-> "next"]]
    [] c.t = "ev" ->
         \* back in eval after evalSExpr: macro expansions are re-evaluated in place
         IF v.t = "macexp"
         THEN IF c.md + 1 > s.cfg.maxmacro THEN Fail([s EXCEPT !.k = Pop(@)], c.env)
              ELSE [s EXCEPT !.ctl = [mode |-> "reeval", e |-> v.c[1], env |-> c.env, md |-> c.md + 1, pushed |-> TRUE]]
         ELSE [s EXCEPT !.k = Pop(@), !.ctl = Ret(Assoc(v, s.envs[c.env].loc))]
    [] c.t = "cells" ->
         IF IsErr(v) THEN [LeaveCells(s, c) EXCEPT !.ctl = Ret(Assoc(v, c.loc))]
         ELSE [s EXCEPT !.k = SetTop(@, [c EXCEPT !.vals = Append(@, v)]), !.ctl = [mode |-> "cellstep"]]
    [] c.t = "hof" ->
         IF IsErr(v) THEN [s EXCEPT !.k = Pop(@)]
         ELSE LET x == c.items[c.j] IN
              (CASE c.name = "map" -> [s EXCEPT !.k = SetTop(@, [c EXCEPT !.out = Append(@, v)]), !.ctl = [mode |-> "hofstep"]]
                [] c.name = "select" -> [s EXCEPT !.k = SetTop(@, [c EXCEPT !.out = IF Truthy(v) THEN Append(@, x) ELSE @]), !.ctl = [mode |-> "hofstep"]]
                [] c.name = "reject" -> [s EXCEPT !.k = SetTop(@, [c EXCEPT !.out = IF Truthy(v) THEN @ ELSE Append(@, x)]), !.ctl = [mode |-> "hofstep"]]
                [] c.name \in {"foldl", "foldr"} -> [s EXCEPT !.k = SetTop(@, [c EXCEPT !.acc = v]), !.ctl = [mode |-> "hofstep"]]
                [] c.name = "all?" -> IF Truthy(v) THEN [s EXCEPT !.ctl = [mode |-> "hofstep"]] ELSE [s EXCEPT !.k = Pop(@), !.ctl = Ret(VFalse)]
                [] c.name = "any?" -> IF Truthy(v) THEN [s EXCEPT !.k = Pop(@), !.ctl = Ret(v)] ELSE [s EXCEPT !.ctl = [mode |-> "hofstep"]])
    [] c.t = "sort" -> SortReturn(s, c, v)
    [] c.t = "mx" ->
         IF IsErr(v) THEN [s EXCEPT !.k = Pop(@)]
         ELSE IF v.t # "macexp" THEN Fail([s EXCEPT !.k = Pop(@)], c.env)
         ELSE LET q == QuoteV(v.c[1]) IN
              IF ~c.all \/ q.t # "list" THEN [s EXCEPT !.k = Pop(@), !.ctl = Ret(q)]
              ELSE [s EXCEPT !.k = SetTop(@, [c EXCEPT !.form = q, !.depth = @ + 1]), !.ctl = [mode |-> "mxstep"]]
    [] c.t = "load" ->
         \* load: forms in order, stop at the first error; the package current at entry is restored (deferred)
         IF IsErr(v) \/ c.j = Len(c.forms) THEN [s EXCEPT !.k = Pop(@), !.pkg = c.saved]
         ELSE [s EXCEPT !.k = SetTop(@, [c EXCEPT !.j = @ + 1]), !.ctl = Eval(c.forms[c.j + 1], 1)]
    [] c.t = "body" ->
         LET n == Len(s.funs[c.f.n].body) IN
         IF IsErr(v) \/ c.j = n THEN [s EXCEPT !.k = Pop(@), !.pkg = c.outer]
         ELSE [s EXCEPT !.ctl = [mode |-> "bodystep"]]       \* value of a non-last form is ignored
    [] c.t = "call" ->
         IF c.kind = "macro"
         THEN IF IsErr(v) THEN PopCall(s)
              ELSE [PopCall(s) EXCEPT !.ctl = Ret(VMacExp([Stamp(v, c.site) EXCEPT !.q = FALSE]))]     \* stamp, shallowUnquote
         ELSE IF IsMark(v)
         THEN IF v.n - 1 <= 0
              THEN \* the mark reached its target: reuse the frame for the next iteration
                   IF c.kind # "fun" THEN Fail(PopCall(s), c.env)
                   ELSE IF s.cfg.maxtail > 0 /\ Top(s.frames).iters + 1 > s.cfg.maxtail
                   THEN Fail(PopCall([s EXCEPT !.frames = SetTop(@, [Top(@) EXCEPT !.iters = @ + 1, !.term = FALSE])]), c.env)
                   ELSE LET s1 == [s EXCEPT !.frames = SetTop(@, [Top(@) EXCEPT !.iters = @ + 1, !.term = FALSE])]
                            ch == Charge(s1, c.env) IN
                        IF ~ch[2] THEN [PopCall(ch[1]) EXCEPT !.ctl = ch[1].ctl]
                        ELSE [ch[1] EXCEPT !.k = SetTop(@, [c EXCEPT !.f = v.c[1]]),
                                           !.ctl = [mode |-> "call", f |-> v.c[1], args |-> Rest(v.c), env |-> c.env, site |-> v.p]]
              ELSE [PopCall(s) EXCEPT !.ctl = Ret([v EXCEPT !.n = @ - 1])]
         ELSE PopCall(s)
    [] c.t = "op" ->
         IF c.op = "ignore-errors" /\ IsErr(v)
         THEN IF v.q THEN OpReturn(s, v) ELSE OpReturn(s, VNil)
         ELSE IF c.op = "handler-bind" /\ IsErr(v) /\ c.phase = "body"
         THEN \* scan the bindings in order; `condition` matches everything but a real panic
              LET lb == c.args[1].c
                  ms == {j \in 1..Len(lb) : lb[j].c[1].s = v.s \/ (lb[j].c[1].s = "condition" /\ ~v.q)} IN
              IF ms = {} THEN OpReturn(s, v)
              ELSE LET j == CHOOSE j \in ms : \A j2 \in ms : j <= j2 IN
                   [s EXCEPT !.k = SetTop(@, [c EXCEPT !.phase = "hexpr", !.err = v, !.vals = <<>>]),
                             !.ctl = Eval(lb[j].c[2], c.env)]
         ELSE IF c.op = "handler-bind" /\ c.phase = "hcall"
         THEN [OpReturn(s, v) EXCEPT !.conds = Pop(@)]                           \* deferred PopCondition
         ELSE IF IsErr(v) THEN OpReturn(s, v)
         ELSE IF c.tail THEN (IF IsMark(v) THEN OpReturn(s, [v EXCEPT !.n = @ - 1]) ELSE OpReturn(s, v))
         ELSE IF IsMark(v) THEN [s EXCEPT !.dropped = TRUE]                       \* cannot happen (K7)
         ELSE [s EXCEPT !.k = SetTop(@, [c EXCEPT !.vals = Append(@, v)]), !.ctl = [mode |-> "opstep"]]

\* a Go panic unwinds the Go stack to the innermost active eval, running every defer on the way
CanPanic(s) == s.ctl.mode = "panic"
RECURSIVE Unwind(_)
Unwind(s) ==
  LET c == Top(s.k) IN
  CASE c.t = "ev" -> [s EXCEPT !.k = Pop(@)]
    [] c.t = "cells" -> Unwind(LeaveCells(s, c))
    [] c.t = "call" -> Unwind(PopCall(s))
    [] c.t = "body" -> Unwind([s EXCEPT !.k = Pop(@), !.pkg = c.outer])
    [] c.t = "load" -> Unwind([s EXCEPT !.k = Pop(@), !.pkg = c.saved])
    [] c.t = "mx" -> Unwind([s EXCEPT !.k = Pop(@)])
    [] c.t = "hof" -> Unwind([s EXCEPT !.k = Pop(@)])
    [] c.t = "sort" -> Unwind([s EXCEPT !.k = Pop(@)])
    [] c.t = "op" -> Unwind([s EXCEPT !.k = Pop(@), !.conds = IF c.op = "handler-bind" /\ c.pushed /\ c.phase = "hcall" THEN Pop(@) ELSE @])
    [] OTHER -> [s EXCEPT !.k = Pop(@)]
DoPanic(s) ==
  LET s1 == Unwind(s) IN
  \* (the error is created by the recovering eval: location of that eval's environment, stack as left by the unwinding)
  LET env == Top(s.k).env IN
  [s1 EXCEPT !.neid = @ + 1, !.estk = Append(@, StackCopy(s1)),
             !.ctl = Ret([V("err", s1.neid + 1, "internal-panic", "", TRUE, Msg) EXCEPT !.i = s1.envs[env].loc])]

\* ---------------------------------------------------------------- Next
Result(s) == [id |-> s.prog.id, results |-> s.results]
Next == \/ /\ CanNext(m) /\ m' = NextForm(m)
           /\ (m'.halted => PrintT(ToJson(Result(m'))))
        \/ CanEval(m)     /\ m' = DoEval(m)
        \/ CanReEval(m)   /\ m' = DoReEval(m)
        \/ CanCellStep(m) /\ m' = CellStep(m)
        \/ CanDispatch(m) /\ m' = Dispatch(m)
        \/ CanCall(m)     /\ m' = DoCall(m)
        \/ CanBodyStep(m) /\ m' = BodyStep(m)
        \/ CanMxStep(m)   /\ m' = MxStep(m)
        \/ CanHofStep(m)  /\ m' = HofStep(m)
        \/ CanSortStep(m) /\ m' = SortStep(m)
        \/ CanOpStep(m)   /\ m' = OpStep(m)
        \/ CanReturn(m)   /\ m' = DoReturn(m)
        \/ CanPanic(m)    /\ m' = DoPanic(m)
        \/ m.halted /\ UNCHANGED m          \* a finished machine stutters, so a deadlock is a stuck machine

Spec == Init /\ [][Next]_vars

\* ------------------------------------------------------------ invariants
K1 == m.cfg.maxphys > 0 => Len(m.frames) <= m.cfg.maxphys
K5 == \A j \in 1..Len(m.frames) : ~(m.frames[j].term /\ m.frames[j].tro)
K7 == ~m.dropped
K10 == m.ctl.mode = "next" => (m.frames = <<>> /\ m.k = <<>> /\ m.conds = <<>>)
Balanced == Len(m.frames) = Cardinality({j \in 1..Len(m.k) : m.k[j].t = "call"})
NoPanicChain == \A j \in 1..Len(m.frames) : TerminalFID(m.frames, m.frames[j].fid) >= 0
=============================================================================
