------------------------------ MODULE Launder ------------------------------
(***************************************************************************)
(* The sharing discipline as a statement about EVERY callable of the       *)
(* registry (language package and standard library), validated record by   *)
(* record against a sweep of the real interpreter (elpsdrive launder).     *)
(*                                                                         *)
(* A sweep record summarises all applications of one callable to argument  *)
(* tuples in which one position holds a tracked value: a program literal   *)
(* (or a cdr / rest / slice view of one) or a runtime-built list, vector,  *)
(* map or byte string bound to a global.  After each application the       *)
(* driver looks at every tracked value, then changes the RESULT in place   *)
(* with every mutator the language has and looks at the literals again.    *)
(* The record counts, per class, the applications after which something    *)
(* read differently:                                                       *)
(*   literal      a program literal evaluates to another value             *)
(*   fingerprint  the structural fingerprint of the parsed program moved   *)
(*   macrolit     the literal a macro TEMPLATE wrote into a function it    *)
(*                defined (counted apart: a known finding, see below)      *)
(*   target       the runtime value that was handed to the callable        *)
(*   other        a runtime value that was not even an argument            *)
(*                                                                         *)
(* ProgramFrozen / LiteralStable are C09's statement ("a quoted literal    *)
(* yields the same value every time it is evaluated whatever was done to   *)
(* values obtained from it earlier").  NonMutating is C11's: only the      *)
(* operations documented as mutating - the constant MUTATORS, which is the *)
(* specification's statement of that documentation - change a value that   *)
(* existed before the call, and they change exactly their target.          *)
(***************************************************************************)
EXTENDS Integers, Sequences, TLC, Json

CONSTANT MUTATORS

Trace == ndJsonDeserialize("laundertrace.ndjson")

VARIABLE l
vars == <<l>>

\* A literal written inside a macro template reaches the function the expansion defines as a REBUILT, unsealed list: a
\* value obtained from it can be sorted in place and the function returns the sorted list from then on.  That is a
\* violation of LiteralStable confined to one runtime (the parsed program itself is not touched), recorded as C09's known
\* finding macro-template-literal; the records count it apart so that every other literal stays under the strict rule.
ProgramFrozen(r) == r.fingerprint = 0
LiteralStable(r) == r.literal = 0
NonMutating(r)   == r.other = 0 /\ (r.name \notin MUTATORS => r.target = 0)
\* (non-vacuity: a documented mutator that never changes the value it is handed would mean the sweep cannot see changes)
MutatorsSeen(r)  == r.name \in MUTATORS => r.target > 0

Init == l = 1
Step == /\ l <= Len(Trace)
        /\ Trace[l].calls > 0
        /\ ProgramFrozen(Trace[l]) /\ LiteralStable(Trace[l]) /\ NonMutating(Trace[l]) /\ MutatorsSeen(Trace[l])
        /\ l' = l + 1
        /\ TLCSet(1, l)
Next == Step \/ (l > Len(Trace) /\ UNCHANGED vars)
Spec == Init /\ [][Next]_vars

Accepted == TLCGet(1) = Len(Trace)
=============================================================================
