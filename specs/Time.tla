-------------------------------- MODULE Time --------------------------------
(***************************************************************************)
(* Time: RFC 3339 timestamps, instants, durations and sleep admission      *)
(* (property C15).                                                         *)
(*                                                                         *)
(* A timestamp is a sequence of characters.  Class(s) is decided by a      *)
(* character-level reading of the fixed RFC 3339 layout                    *)
(*      YYYY-MM-DDTHH:MM:SS[.f+](Z|(+|-)HH:MM)                             *)
(*   "accept"       well formed, every field in range (month, day of that  *)
(*                  month and year, hour 00-23, minute and second 00-59,   *)
(*                  offset 00-23:00-59), at most nine fractional digits    *)
(*   "unspecified"  the deviations RFC 3339 itself tolerates or this       *)
(*                  property does not speak about: lower-case t / z, a     *)
(*                  space for T, second 60, more than nine fractional      *)
(*                  digits - neither acceptance nor rejection is demanded  *)
(*   "reject"       everything else                                        *)
(* Denote(s) is the instant [d, s, ns]: days since 1970-01-01, second of   *)
(* the day and nanosecond, after the offset is applied.  Format is the     *)
(* UTC rendering; FormatRoundTrip (checked in the model) says Denote       *)
(* inverts it.                                                             *)
(*                                                                         *)
(* MODE "stamps"  every combination of the field spellings below, and      *)
(*                every single-character deletion / duplication /          *)
(*                substitution of a few base timestamps, printed with      *)
(*                class and instant - replayed into time:parse-rfc3339     *)
(*                and -nano (B1)                                            *)
(* MODE "pairs"   for every ordered pair of the instants in                *)
(*                timepairs.ndjson: their order, and the difference when   *)
(*                it is within the range of a duration                     *)
(* MODE "sleep"   every (duration, :max, host ceiling, deadline,           *)
(*                cancellation) combination with the admission verdict     *)
(***************************************************************************)
EXTENDS Integers, Sequences, FiniteSets, TLC, Json

CONSTANTS MODE, BIG

Digits == {"0", "1", "2", "3", "4", "5", "6", "7", "8", "9"}
DV(c) == CASE c = "0" -> 0 [] c = "1" -> 1 [] c = "2" -> 2 [] c = "3" -> 3 [] c = "4" -> 4
           [] c = "5" -> 5 [] c = "6" -> 6 [] c = "7" -> 7 [] c = "8" -> 8 [] c = "9" -> 9
AllDigits(s, a, b) == \A i \in a..b : i <= Len(s) /\ s[i] \in Digits
RECURSIVE Num(_, _, _)
Num(s, a, b) == IF a > b THEN 0 ELSE Num(s, a, b - 1) * 10 + DV(s[b])

Leap(y) == (y % 4 = 0 /\ y % 100 # 0) \/ y % 400 = 0
DaysIn(y, m) == CASE m \in {1, 3, 5, 7, 8, 10, 12} -> 31 [] m \in {4, 6, 9, 11} -> 30 [] m = 2 -> IF Leap(y) THEN 29 ELSE 28

\* days since 1970-01-01 of a civil date (proleptic Gregorian); years are shifted by 400 so that every term is natural
DaysFromCivil(y0, m, d) ==
  LET y == y0 + 400 - (IF m <= 2 THEN 1 ELSE 0)
      era == y \div 400
      yoe == y - era * 400
      mp == (m + 9) % 12
      doy == (153 * mp + 2) \div 5 + d - 1
      doe == yoe * 365 + yoe \div 4 - yoe \div 100 + doy IN
  era * 146097 + doe - 719468 - 146097
CivilFromDays(z0) ==
  LET z == z0 + 719468 + 146097
      era == z \div 146097
      doe == z - era * 146097
      yoe == (doe - doe \div 1460 + doe \div 36524 - doe \div 146096) \div 365
      doy == doe - (365 * yoe + yoe \div 4 - yoe \div 100)
      mp == (5 * doy + 2) \div 153
      d == doy - (153 * mp + 2) \div 5 + 1
      m == IF mp < 10 THEN mp + 3 ELSE mp - 9
      y == yoe + era * 400 - 400 + (IF m <= 2 THEN 1 ELSE 0) IN
  [y |-> y, m |-> m, d |-> d]

\* ---------------------------------------------------------------- reading a timestamp
RECURSIVE FracEnd(_, _)
FracEnd(s, i) == IF i <= Len(s) /\ s[i] \in Digits THEN FracEnd(s, i + 1) ELSE i
Pow10(k) == CASE k = 0 -> 1 [] k = 1 -> 10 [] k = 2 -> 100 [] k = 3 -> 1000 [] k = 4 -> 10000 [] k = 5 -> 100000
              [] k = 6 -> 1000000 [] k = 7 -> 10000000 [] k = 8 -> 100000000
\* the first nine fractional digits as nanoseconds
RECURSIVE Nanos(_, _, _, _)
Nanos(s, i, e, k) == IF k = 0 THEN 0 ELSE (IF i < e THEN DV(s[i]) ELSE 0) * Pow10(k - 1) + Nanos(s, i + 1, e, k - 1)

\* Read gives the layout verdict and the fields; tolerant = TRUE admits the "unspecified" spellings
Read(s, tolerant) ==
  LET sepOk == Len(s) >= 11 /\ (s[11] = "T" \/ (tolerant /\ s[11] \in {"t", " "}))
      fixed == /\ Len(s) >= 20
               /\ AllDigits(s, 1, 4) /\ s[5] = "-" /\ AllDigits(s, 6, 7) /\ s[8] = "-" /\ AllDigits(s, 9, 10)
               /\ sepOk
               /\ AllDigits(s, 12, 13) /\ s[14] = ":" /\ AllDigits(s, 15, 16) /\ s[17] = ":" /\ AllDigits(s, 18, 19) IN
  IF ~fixed THEN [ok |-> FALSE]
  ELSE LET hasFrac == s[20] = "."
           fe == IF hasFrac THEN FracEnd(s, 21) ELSE 20
           nfrac == IF hasFrac THEN fe - 21 ELSE 0
           fracOk == ~hasFrac \/ nfrac >= 1
           zulu == fe = Len(s) /\ (s[fe] = "Z" \/ (tolerant /\ s[fe] = "z"))
           numeric == fe + 5 = Len(s) /\ s[fe] \in {"+", "-"} /\ AllDigits(s, fe + 1, fe + 2) /\ s[fe + 3] = ":" /\ AllDigits(s, fe + 4, fe + 5) IN
       IF ~fracOk \/ fe > Len(s) \/ ~(zulu \/ numeric) THEN [ok |-> FALSE]
       ELSE LET y == Num(s, 1, 4)  mo == Num(s, 6, 7)  d == Num(s, 9, 10)
                h == Num(s, 12, 13) mi == Num(s, 15, 16) sec == Num(s, 18, 19)
                oh == IF zulu THEN 0 ELSE Num(s, fe + 1, fe + 2)
                om == IF zulu THEN 0 ELSE Num(s, fe + 4, fe + 5)
                sign == IF ~zulu /\ s[fe] = "-" THEN -1 ELSE 1 IN
            [ok |-> TRUE, y |-> y, mo |-> mo, d |-> d, h |-> h, mi |-> mi, sec |-> sec, nfrac |-> nfrac,
             ns |-> IF hasFrac THEN Nanos(s, 21, fe, 9) ELSE 0, off |-> sign * (oh * 3600 + om * 60), oh |-> oh, om |-> om]

InRange(r, maxsec) == /\ r.mo \in 1..12 /\ r.d >= 1 /\ r.d <= DaysIn(r.y, r.mo)
                      /\ r.h <= 23 /\ r.mi <= 59 /\ r.sec <= maxsec /\ r.oh <= 23 /\ r.om <= 59
Class(s) ==
  LET strict == Read(s, FALSE) IN
  IF strict.ok /\ InRange(strict, 59) /\ strict.nfrac <= 9 THEN "accept"
  ELSE LET loose == Read(s, TRUE) IN
       IF loose.ok /\ InRange(loose, 60) THEN "unspecified" ELSE "reject"

Norm(d, secs, ns) == IF secs < 0 THEN [d |-> d - 1, s |-> secs + 86400, ns |-> ns]
                     ELSE IF secs >= 86400 THEN [d |-> d + 1, s |-> secs - 86400, ns |-> ns]
                     ELSE [d |-> d, s |-> secs, ns |-> ns]
Denote(s) == LET r == Read(s, FALSE) IN
             Norm(DaysFromCivil(r.y, r.mo, r.d), r.h * 3600 + r.mi * 60 + r.sec - r.off, r.ns)

\* ---------------------------------------------------------------- the UTC rendering
D2(n) == <<ToString(n \div 10), ToString(n % 10)>>
D4(n) == <<ToString(n \div 1000), ToString((n \div 100) % 10), ToString((n \div 10) % 10), ToString(n % 10)>>
RECURSIVE D9(_, _)
D9(n, k) == IF k = 0 THEN <<>> ELSE D9(n \div 10, k - 1) \o <<ToString(n % 10)>>
Format(t) == LET c == CivilFromDays(t.d) IN
             D4(c.y) \o <<"-">> \o D2(c.m) \o <<"-">> \o D2(c.d) \o <<"T">> \o D2(t.s \div 3600) \o <<":">> \o D2((t.s \div 60) % 60) \o <<":">> \o D2(t.s % 60)
             \o (IF t.ns = 0 THEN <<>> ELSE <<".">> \o D9(t.ns, 9)) \o <<"Z">>
FormatRoundTrip(t) == Class(Format(t)) = "accept" /\ Denote(Format(t)) = t

\* ---------------------------------------------------------------- order and difference
Cmp(a, b) == IF a.d # b.d THEN (IF a.d < b.d THEN -1 ELSE 1)
             ELSE IF a.s # b.s THEN (IF a.s < b.s THEN -1 ELSE 1)
             ELSE IF a.ns # b.ns THEN (IF a.ns < b.ns THEN -1 ELSE 1) ELSE 0
\* b - a as [d, s, ns] with 0 <= s < 86400, 0 <= ns < 1e9; a duration holds 2^63 - 1 ns = 106751 d 23:47:16.854775807
Diff(a, b) == LET ns0 == b.ns - a.ns
                  s0 == b.s - a.s - (IF ns0 < 0 THEN 1 ELSE 0)
                  d0 == b.d - a.d - (IF s0 < 0 THEN 1 ELSE 0) IN
              [d |-> d0, s |-> IF s0 < 0 THEN s0 + 86400 ELSE s0, ns |-> IF ns0 < 0 THEN ns0 + 1000000000 ELSE ns0]
InDurationRange(df) == df.d >= -106751 /\ df.d <= 106750      \* strictly inside on both sides (the boundary days are left unspecified)

\* ---------------------------------------------------------------- sleep admission (all times in milliseconds)
HOUR == 3600000
\* max: 0 stands for "not given"; ceiling: 0 for "none"; deadline: 0 for "none"; cancelled: the context is already cancelled
SleepVerdict(c) ==
  LET limitErr == IF c.max = 0 THEN "none"
                  ELSE IF c.max < 0 THEN "error"                              \* :max must be positive
                  ELSE IF c.ceiling > 0 /\ c.max > c.ceiling THEN "sleep-limit-exceeded"
                  ELSE "none"
      limit == IF c.max = 0 THEN (IF c.ceiling > 0 /\ c.ceiling < HOUR THEN c.ceiling ELSE HOUR) ELSE c.max IN
  \* a context that is already cancelled ends the EVALUATION before the call is made (C04's territory)
  IF c.cancelled THEN [out |-> "context-cancelled", slept |-> 0]
  ELSE IF limitErr # "none" THEN [out |-> limitErr, slept |-> 0]
  ELSE IF c.d > limit THEN [out |-> "sleep-limit-exceeded", slept |-> 0]
  ELSE IF c.d <= 0 THEN [out |-> "nil", slept |-> 0]
  ELSE IF c.deadline > 0 /\ c.deadline < c.d THEN [out |-> "context-cancelled", slept |-> 0]
  ELSE IF c.cancelat > 0 /\ c.cancelat < c.d THEN [out |-> "context-cancelled", slept |-> c.cancelat]
  ELSE [out |-> "nil", slept |-> c.d]
\* the property, stated on the verdict: never longer than asked, never past cancellation or the deadline, refusal is immediate
SleepBounded(c) == LET v == SleepVerdict(c) IN
  /\ v.slept <= (IF c.d > 0 THEN c.d ELSE 0)
  /\ (c.deadline > 0 => v.slept <= c.deadline)
  /\ (c.cancelat > 0 => v.slept <= c.cancelat)
  /\ (v.out \in {"sleep-limit-exceeded", "error"} => v.slept = 0)
  /\ (~c.cancelled /\ c.max = 0 /\ c.d > HOUR => v.out = "sleep-limit-exceeded")
SleepCases == IF MODE # "sleep" THEN {} ELSE [d : {-5, 0, 40, 300, 2000, 3000, HOUR, HOUR + 1, 2 * HOUR}, max : {0, -1, 30, 1000, HOUR + 5, 3 * HOUR},
               ceiling : {0, 100, 2000, 2 * HOUR}, deadline : {0, 150, 1500, 60000}, cancelled : BOOLEAN, cancelat : {0, 120}]

-----------------------------------------------------------------------------
\* field spellings
Years   == IF BIG THEN {"0000", "0001", "1900", "2000", "2023", "2100", "9999"} ELSE {"0000", "2024", "2100", "9999"}
Months  == IF BIG THEN {"00", "01", "02", "04", "12", "13"} ELSE {"00", "02", "12", "13"}
Days    == IF BIG THEN {"00", "01", "29", "30", "31", "32"} ELSE {"00", "01", "29", "30", "31"}
Hours   == IF BIG THEN {"00", "23", "24"} ELSE {"00", "23", "24"}
Minutes == IF BIG THEN {"00", "59", "60"} ELSE {"30", "60"}
Seconds == IF BIG THEN {"00", "59", "60"} ELSE {"59", "60"}
Fracs   == IF BIG THEN {"", ".5", ".123456789", ".000000001", ".", ",5", ".1234567891"} ELSE {"", ".000000001", ".", ",5", ".1234567891"}
Zones   == IF BIG THEN {"Z", "+00:00", "-00:00", "+14:00", "-12:30", "+23:59", "-23:59", "+24:00", "+01:60", "z", "", "+0100", "+1:00", "+05:45"}
                  ELSE {"Z", "-00:00", "+23:59", "-12:30", "+24:00", "+01:60", "z", ""}
Seps    == IF BIG THEN {"T", "t", " "} ELSE {"T", "t"}
Bases   == {"2024-02-29T23:59:59.5+05:30", "1999-12-31T00:00:00Z"}
SpellChars(w) == CASE w = "" -> <<>>
  [] w = "0000" -> <<"0","0","0","0">> [] w = "0001" -> <<"0","0","0","1">> [] w = "0004" -> <<"0","0","0","4">> [] w = "1900" -> <<"1","9","0","0">>
  [] w = "1969" -> <<"1","9","6","9">> [] w = "1970" -> <<"1","9","7","0">> [] w = "2000" -> <<"2","0","0","0">> [] w = "2023" -> <<"2","0","2","3">>
  [] w = "2024" -> <<"2","0","2","4">> [] w = "2100" -> <<"2","1","0","0">> [] w = "9999" -> <<"9","9","9","9">>
  [] w = "00" -> <<"0","0">> [] w = "01" -> <<"0","1">> [] w = "02" -> <<"0","2">> [] w = "04" -> <<"0","4">> [] w = "11" -> <<"1","1">> [] w = "12" -> <<"1","2">>
  [] w = "13" -> <<"1","3">> [] w = "28" -> <<"2","8">> [] w = "29" -> <<"2","9">> [] w = "30" -> <<"3","0">> [] w = "31" -> <<"3","1">> [] w = "32" -> <<"3","2">>
  [] w = "23" -> <<"2","3">> [] w = "24" -> <<"2","4">> [] w = "59" -> <<"5","9">> [] w = "60" -> <<"6","0">> [] w = "61" -> <<"6","1">>
  [] w = ".5" -> <<".","5">> [] w = ".50" -> <<".","5","0">> [] w = ".123456789" -> <<".","1","2","3","4","5","6","7","8","9">> [] w = ".000000001" -> <<".","0","0","0","0","0","0","0","0","1">>
  [] w = ".999999999" -> <<".","9","9","9","9","9","9","9","9","9">> [] w = "." -> <<".">> [] w = ",5" -> <<",","5">> [] w = ".1234567891" -> <<".","1","2","3","4","5","6","7","8","9","1">>
  [] w = "Z" -> <<"Z">> [] w = "z" -> <<"z">> [] w = "T" -> <<"T">> [] w = "t" -> <<"t">> [] w = " " -> <<" ">>
  [] w = "+00:00" -> <<"+","0","0",":","0","0">> [] w = "-00:00" -> <<"-","0","0",":","0","0">> [] w = "+14:00" -> <<"+","1","4",":","0","0">> [] w = "-12:30" -> <<"-","1","2",":","3","0">>
  [] w = "+23:59" -> <<"+","2","3",":","5","9">> [] w = "-23:59" -> <<"-","2","3",":","5","9">> [] w = "+24:00" -> <<"+","2","4",":","0","0">> [] w = "+01:60" -> <<"+","0","1",":","6","0">>
  [] w = "+0100" -> <<"+","0","1","0","0">> [] w = "+01" -> <<"+","0","1">> [] w = "+1:00" -> <<"+","1",":","0","0">> [] w = "Z+01:00" -> <<"Z","+","0","1",":","0","0">> [] w = "+05:45" -> <<"+","0","5",":","4","5">>
  [] w = "2024-02-29T23:59:59.5+05:30" -> <<"2","0","2","4","-","0","2","-","2","9","T","2","3",":","5","9",":","5","9",".","5","+","0","5",":","3","0">>
  [] w = "1999-12-31T00:00:00Z" -> <<"1","9","9","9","-","1","2","-","3","1","T","0","0",":","0","0",":","0","0","Z">>

VARIABLES cur, done
vars == <<cur, done>>
Pairs == IF MODE = "pairs" THEN ndJsonDeserialize("timepairs.ndjson") ELSE <<>>

Assemble(y, mo, d, sep, h, mi, sec, f, z) ==
  SpellChars(y) \o <<"-">> \o SpellChars(mo) \o <<"-">> \o SpellChars(d) \o SpellChars(sep) \o SpellChars(h) \o <<":">> \o SpellChars(mi)
  \o <<":">> \o SpellChars(sec) \o SpellChars(f) \o SpellChars(z)
\* (TLC evaluates constant definitions at start-up: the big sets are empty outside their own mode)
Mutants == IF MODE # "mutants" THEN {} ELSE
           UNION {LET s == SpellChars(b) IN
                  {SubSeq(s, 1, i - 1) \o SubSeq(s, i + 1, Len(s)) : i \in 1..Len(s)}
                  \cup {SubSeq(s, 1, i) \o SubSeq(s, i, Len(s)) : i \in 1..Len(s)}
                  \cup {[s EXCEPT ![i] = c] : i \in 1..Len(s), c \in {"x", "0", "9", ":", "-", " "}} : b \in Bases}

Init == /\ done = FALSE
        /\ CASE MODE = "stamps" -> \E y \in Years, mo \in Months, d \in Days, sep \in Seps, h \in Hours, mi \in Minutes, sec \in Seconds, f \in Fracs, z \in Zones :
                                      cur = Assemble(y, mo, d, sep, h, mi, sec, f, z)
             [] MODE = "mutants" -> cur \in Mutants
             [] MODE = "pairs" -> \E i \in 1..Len(Pairs) : cur = Pairs[i]
             [] MODE = "sleep" -> cur \in SleepCases
Emit == /\ ~done /\ done' = TRUE /\ UNCHANGED cur
        /\ CASE MODE \in {"stamps", "mutants"} ->
                  LET c == Class(cur) IN
                  PrintT(ToJson([text |-> cur, class |-> c, t |-> IF c = "accept" THEN Denote(cur) ELSE [d |-> 0, s |-> 0, ns |-> 0]]))
             [] MODE = "pairs" ->
                  LET a == Denote(cur.a)  b == Denote(cur.b)  df == Diff(a, b) IN
                  PrintT(ToJson([id |-> cur.id, cmp |-> Cmp(a, b), inrange |-> InDurationRange(df), diff |-> df, fa |-> Format(a), fb |-> Format(b)]))
             [] MODE = "sleep" ->
                  PrintT(ToJson([c |-> cur, v |-> SleepVerdict(cur)]))
Next == Emit \/ (done /\ UNCHANGED vars)
Spec == Init /\ [][Next]_vars

\* model-level properties
\* (an instant whose UTC rendering leaves the years 0000-9999 - year 9999 west of Greenwich, year 0000 east of it - has no RFC 3339 spelling in UTC)
StampInv == MODE \in {"stamps", "mutants"} /\ Class(cur) = "accept" /\ CivilFromDays(Denote(cur).d).y \in 0..9999 => FormatRoundTrip(Denote(cur))
PairInv == MODE = "pairs" => LET a == Denote(cur.a)  b == Denote(cur.b) IN
              /\ Cmp(a, b) = -Cmp(b, a)
              /\ (Cmp(a, b) = 0 <=> a = b)
              /\ (Cmp(a, b) < 0 <=> (Diff(a, b).d >= 0 /\ Diff(a, b) # [d |-> 0, s |-> 0, ns |-> 0]))
SleepInv == MODE = "sleep" => SleepBounded(cur)
=============================================================================
