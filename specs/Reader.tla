------------------------------- MODULE Reader -------------------------------
(***************************************************************************)
(* Reader: the lexer (parser/lexer/lexer.go) and the reader                *)
(* (parser/rdparser/parser.go) of ELPS over an alphabet of character       *)
(* classes, one representative character per class (properties C12, C16,   *)
(* C03).                                                                   *)
(*                                                                         *)
(*   Lex(cs)      token sequence of a character string: the automaton of   *)
(*                readToken with its modal continuations (#!, #', #^),     *)
(*                the "-" rule, strings with escapes and raw strings,      *)
(*                numbers with fraction / exponent, symbols with ":".      *)
(*   Parse(toks)  expression trees or rejection: brackets and their        *)
(*                mismatches, quote prefixes, negative merging, symbol     *)
(*                validity (package qualification), string validity        *)
(*                (escape classes), #^ and #' forms, comments skipped,     *)
(*                hash-bang only at the start.                             *)
(*   Read(cs)     = Parse(Lex(cs))                                         *)
(*                                                                         *)
(* TLC enumerates every string up to MAXLEN over the alphabet (one state   *)
(* per string) and prints accept / reject and the tree; the harness gives  *)
(* the same strings to the strict, the fault-tolerant and the              *)
(* format-preserving reader of the real code (binding B1), prints the      *)
(* accepted values back and re-reads them (round trip), and re-spaces      *)
(* them (layout independence).  Totality: every string is classified (no   *)
(* evaluation error, no unbounded recursion) - the model-level form of     *)
(* "reading terminates and never wedges".                                  *)
(***************************************************************************)
EXTENDS Integers, Sequences, FiniteSets, TLC, Json

CONSTANTS MAXLEN, ALPHA       \* ALPHA: the set of characters enumerated (subset of CHARS)

CHARS == {"(", ")", "[", "]", "'", ":", ";", "#", "!", "^", "-", "+", "\"", "\\", ".", "1", "e", "a", " ", "\n", "@"}

VARIABLES str, done
vars == <<str, done>>

Rest(s) == SubSeq(s, 2, Len(s))
IsSpace(c) == c \in {" ", "\n"}
IsDigit(c) == c = "1"
IsLetter(c) == c \in {"e", "a"}
IsWordSym(c) == c \in {".", "+", "-", "!"}               \* of "._+-*/=<>!&~%?$"
IsWordStart(c) == IsLetter(c) \/ IsWordSym(c)
IsWord(c) == IsLetter(c) \/ IsWordSym(c) \/ IsDigit(c)

Tok(ty, tx) == [ty |-> ty, tx |-> tx]
At(cs, i) == IF i <= Len(cs) THEN cs[i] ELSE "EOF"

\* longest run of characters satisfying a predicate, starting at i: returns the index after the run
RECURSIVE RunWord(_, _), RunDigit(_, _), RunNotNL(_, _), RunSpace(_, _)
RunWord(cs, i) == IF i <= Len(cs) /\ IsWord(cs[i]) THEN RunWord(cs, i + 1) ELSE i
RunDigit(cs, i) == IF i <= Len(cs) /\ IsDigit(cs[i]) THEN RunDigit(cs, i + 1) ELSE i
RunNotNL(cs, i) == IF i <= Len(cs) /\ cs[i] # "\n" THEN RunNotNL(cs, i + 1) ELSE i
RunSpace(cs, i) == IF i <= Len(cs) /\ IsSpace(cs[i]) THEN RunSpace(cs, i + 1) ELSE i

\* readSymbol: word characters, then ":" continues the symbol
RECURSIVE SymEnd(_, _)
SymEnd(cs, i) == LET j == RunWord(cs, i) IN IF At(cs, j) = ":" THEN SymEnd(cs, j + 1) ELSE j

\* ---- strings.  A string token starts at the opening quote (position i).
\* scan of the body: returns [ok, end] where end is the index after the closing quote
RECURSIVE StrBody(_, _, _)
StrBody(cs, j, n) ==
  \* j: next unread position inside the literal, n: number of runs consumed so far
  LET k == LET RECURSIVE Run(_) Run(x) == IF x <= Len(cs) /\ cs[x] # "\"" /\ cs[x] # "\n" THEN Run(x + 1) ELSE x IN Run(j) IN
  IF k = j
  THEN \* no progress: closing quote, newline or end of input
       [stop |-> j, runs |-> n, bad |-> FALSE]
  ELSE IF At(cs, k) = "\n" THEN [stop |-> k, runs |-> n + 1, bad |-> TRUE]          \* unterminated string literal
  ELSE LET nb == LET RECURSIVE Cnt(_) Cnt(x) == IF x >= j /\ cs[x] = "\\" THEN 1 + Cnt(x - 1) ELSE 0 IN Cnt(k - 1) IN
       IF nb % 2 = 1
       THEN IF k > Len(cs) THEN [stop |-> k, runs |-> n + 1, bad |-> TRUE]          \* escape at end of input
            ELSE StrBody(cs, k + 1, n + 1)                                           \* the escaped character is consumed
       ELSE StrBody(cs, k, n + 1)
\* position after a raw string body (after the closing triple quote) or 0
RECURSIVE RawEnd(_, _)
RawEnd(cs, j) == IF j + 2 <= Len(cs) /\ cs[j] = "\"" /\ cs[j + 1] = "\"" /\ cs[j + 2] = "\"" THEN j + 3
                 ELSE IF j > Len(cs) THEN 0 ELSE RawEnd(cs, j + 1)

\* ---- numbers (first digit at i)
NumTok(cs, i) ==
  LET j == RunDigit(cs, i) IN
  IF At(cs, j) = "."
  THEN LET k == RunDigit(cs, j + 1) IN
       IF k = j + 1 THEN [ty |-> "ERROR", end |-> j + 1]
       ELSE IF At(cs, k) = "e"
            THEN LET s == IF At(cs, k + 1) \in {"+", "-"} THEN k + 2 ELSE k + 1  e == RunDigit(cs, s) IN
                 IF e = s THEN [ty |-> "ERROR", end |-> s] ELSE [ty |-> "FLOAT", end |-> e]
            ELSE [ty |-> "FLOAT", end |-> k]
  ELSE IF At(cs, j) = "e"
  THEN LET s == IF At(cs, j + 1) \in {"+", "-"} THEN j + 2 ELSE j + 1  e == RunDigit(cs, s) IN
       IF e = s THEN [ty |-> "ERROR", end |-> s] ELSE [ty |-> "FLOAT", end |-> e]
  ELSE [ty |-> "INT", end |-> j]

\* ---- the lexer: LexFrom(cs, i, mode) with mode in {"tok", "bang", "funref"}
RECURSIVE LexFrom(_, _, _, _)
LexFrom(cs, i0, mode, fuel) ==
  IF fuel = 0 THEN <<Tok("WEDGED", <<>>)>> ELSE
  IF mode = "bang"
  THEN LET j == RunNotNL(cs, i0) IN <<Tok("COMMENT", SubSeq(cs, i0, j - 1))>> \o LexFrom(cs, j, "tok", fuel - 1)
  ELSE IF mode = "funref"
  THEN IF i0 <= Len(cs) /\ IsWordStart(cs[i0])
       THEN LET j == RunWord(cs, i0 + 1)  e == IF At(cs, j) = ":" THEN SymEnd(cs, j + 1) ELSE j IN
            <<Tok("SYMBOL", SubSeq(cs, i0, e - 1))>> \o LexFrom(cs, e, "tok", fuel - 1)
       ELSE IF At(cs, i0) = ":"
       THEN LET e == SymEnd(cs, i0 + 1) IN <<Tok("SYMBOL", SubSeq(cs, i0, e - 1))>> \o LexFrom(cs, e, "tok", fuel - 1)
       ELSE <<Tok("ERROR", <<>>)>> \o LexFrom(cs, i0, "tok", fuel - 1)
  ELSE
  LET i == RunSpace(cs, i0) IN
  IF i > Len(cs) THEN <<Tok("EOF", <<>>)>>
  ELSE LET c == cs[i]  one(ty) == <<Tok(ty, <<c>>)>> \o LexFrom(cs, i + 1, "tok", fuel - 1) IN
  CASE c = "(" -> one("PAREN_L") [] c = ")" -> one("PAREN_R") [] c = "[" -> one("BRACE_L") [] c = "]" -> one("BRACE_R")
    [] c = "'" -> one("QUOTE")
    [] c = ":" -> LET e == SymEnd(cs, i + 1) IN <<Tok("SYMBOL", SubSeq(cs, i, e - 1))>> \o LexFrom(cs, e, "tok", fuel - 1)
    [] c = ";" -> LET j == RunNotNL(cs, i) IN <<Tok("COMMENT", SubSeq(cs, i, j - 1))>> \o LexFrom(cs, j, "tok", fuel - 1)
    [] c = "#" ->
         LET d == At(cs, i + 1) IN
         IF d = "EOF" THEN <<Tok("ERROR", <<>>)>> \o LexFrom(cs, i + 1, "tok", fuel - 1)
         ELSE IF d = "!" THEN <<Tok("HASH_BANG", <<"#", "!">>)>> \o LexFrom(cs, i + 2, "bang", fuel - 1)
         ELSE IF d = "'" THEN (IF IsSpace(At(cs, i + 2)) THEN <<Tok("ERROR", <<>>)>> \o LexFrom(cs, i + 2, "tok", fuel - 1)
                               ELSE <<Tok("FUN_REF", <<"#", "'">>)>> \o LexFrom(cs, i + 2, "funref", fuel - 1))
         ELSE IF d = "^" THEN (IF IsSpace(At(cs, i + 2)) THEN <<Tok("ERROR", <<>>)>> ELSE <<Tok("UNBOUND", <<"#", "^">>)>>) \o LexFrom(cs, i + 2, "tok", fuel - 1)
         ELSE <<Tok("ERROR", <<>>)>> \o LexFrom(cs, i + 2, "tok", fuel - 1)
    [] c = "-" -> IF At(cs, i + 1) \in {"EOF", " ", "\n", ")", "]"} THEN one("SYMBOL") ELSE one("NEGATIVE")
    [] c = "\"" ->
         LET b == StrBody(cs, i + 1, 0) IN
         IF b.bad THEN <<Tok("ERROR", <<>>)>> \o LexFrom(cs, IF At(cs, b.stop) = "\n" THEN b.stop + 1 ELSE b.stop, "tok", fuel - 1)
         ELSE IF At(cs, b.stop) # "\"" THEN <<Tok("ERROR", <<>>)>> \o LexFrom(cs, b.stop, "tok", fuel - 1)     \* end of input or newline right after the quote
         ELSE IF b.runs > 0 THEN <<Tok("STRING", SubSeq(cs, i, b.stop))>> \o LexFrom(cs, b.stop + 1, "tok", fuel - 1)
         ELSE \* "" so far: a third quote opens a raw string
              IF At(cs, b.stop + 1) # "\"" THEN <<Tok("STRING", SubSeq(cs, i, b.stop))>> \o LexFrom(cs, b.stop + 1, "tok", fuel - 1)
              ELSE LET r == RawEnd(cs, b.stop + 2) IN
                   IF r = 0 THEN <<Tok("ERROR", <<>>), Tok("EOF", <<>>)>>
                   ELSE <<Tok("STRING_RAW", SubSeq(cs, i, r - 1))>> \o LexFrom(cs, r, "tok", fuel - 1)
    [] IsDigit(c) -> LET nt == NumTok(cs, i) IN <<Tok(nt.ty, SubSeq(cs, i, nt.end - 1))>> \o LexFrom(cs, nt.end, "tok", fuel - 1)
    [] IsWordStart(c) -> LET e == SymEnd(cs, i + 1) IN <<Tok("SYMBOL", SubSeq(cs, i, e - 1))>> \o LexFrom(cs, e, "tok", fuel - 1)
    [] OTHER -> one("INVALID")
Lex(cs) == LexFrom(cs, 1, "tok", 3 * Len(cs) + 4)

\* ---------------------------------------------------------------- the reader
\* trees: [k, tx, kids]   k in int float str sym list quote funref unbound
Node(k, tx, kids) == [k |-> k, tx |-> tx, kids |-> kids]
Bad == [ok |-> FALSE, v |-> Node("error", <<>>, <<>>), rest |-> <<>>]
Good(v, rest) == [ok |-> TRUE, v |-> v, rest |-> rest]

\* symbol validity (ParseSymbol): at most one ":" separating two names; a non-empty package part requires both
\* parts to read back as symbols
Colons(tx) == Len(SelectSeq(tx, LAMBDA c : c = ":"))
Before(tx) == LET RECURSIVE F(_) F(j) == IF tx[j] = ":" THEN j ELSE F(j + 1) IN SubSeq(tx, 1, F(1) - 1)
After(tx) == LET RECURSIVE F(_) F(j) == IF tx[j] = ":" THEN j ELSE F(j + 1) IN SubSeq(tx, F(1) + 1, Len(tx))
\* does a colon-free word read back as one symbol?  (a leading digit, or "-" followed by a number, does not)
PieceIsSymbol(w) ==
  /\ Len(w) > 0
  /\ \A j \in 1..Len(w) : IsWord(w[j])
  /\ ~IsDigit(w[1])
  /\ IsWordStart(w[1])
  /\ ~(w[1] = "-" /\ Len(w) >= 2 /\ IsDigit(w[2]))              \* NEGATIVE merged with a number
  /\ (w[1] = "-" /\ Len(w) >= 2 => LET t == Lex(Rest(w)) IN Len(t) = 2 /\ t[1].ty = "SYMBOL" /\ t[1].tx = Rest(w))
  /\ (w[1] # "-" => LET t == Lex(w) IN Len(t) = 2 /\ t[1].ty = "SYMBOL" /\ t[1].tx = w)
SymbolOK(tx) ==
  LET n == Colons(tx) IN
  IF n = 0 THEN TRUE
  ELSE IF n > 1 THEN FALSE
  ELSE IF Len(After(tx)) = 0 THEN FALSE
  ELSE IF Len(Before(tx)) = 0 THEN TRUE                              \* keyword
  ELSE PieceIsSymbol(Before(tx)) /\ PieceIsSymbol(After(tx))

\* string validity (strconv.Unquote of the token text) over this alphabet: after a backslash only ", \ and a are
\* escapes; \1 needs three octal digits
RECURSIVE EscOK(_)
EscOK(body) ==
  IF Len(body) = 0 THEN TRUE
  ELSE IF body[1] # "\\" THEN (body[1] # "\"" /\ EscOK(Rest(body)))
  ELSE IF Len(body) < 2 THEN FALSE
  ELSE IF body[2] \in {"\"", "\\", "a"} THEN EscOK(SubSeq(body, 3, Len(body)))
  ELSE IF body[2] = "1" THEN (Len(body) >= 4 /\ body[3] = "1" /\ body[4] = "1" /\ EscOK(SubSeq(body, 5, Len(body))))
  ELSE FALSE
StringOK(tx) == EscOK(SubSeq(tx, 2, Len(tx) - 1))

\* ParseExpression on a token sequence (comments are skipped); returns [ok, v, rest]
RECURSIVE PExpr(_, _), PList(_, _, _, _)
SkipC(ts) == LET RECURSIVE F(_) F(x) == IF Len(x) > 0 /\ x[1].ty = "COMMENT" THEN F(Rest(x)) ELSE x IN F(ts)
PExpr(ts0, fuel) ==
  IF fuel = 0 THEN Bad ELSE
  LET ts == SkipC(ts0) IN
  IF Len(ts) = 0 THEN Bad
  ELSE LET t == ts[1]  r == Rest(ts) IN
  CASE t.ty = "INT" -> Good(Node("int", t.tx, <<>>), r)
    [] t.ty = "FLOAT" -> Good(Node("float", t.tx, <<>>), r)
    [] t.ty = "STRING" -> IF StringOK(t.tx) THEN Good(Node("str", t.tx, <<>>), r) ELSE Bad
    [] t.ty = "STRING_RAW" -> Good(Node("rawstr", t.tx, <<>>), r)
    [] t.ty = "SYMBOL" -> IF SymbolOK(t.tx) THEN Good(Node("sym", t.tx, <<>>), r) ELSE Bad
    [] t.ty = "NEGATIVE" ->
         IF Len(r) > 0 /\ r[1].ty \in {"INT", "FLOAT", "SYMBOL"}
         THEN PExpr(<<Tok(r[1].ty, <<"-">> \o r[1].tx)>> \o Rest(r), fuel - 1)
         ELSE Good(Node("sym", <<"-">>, <<>>), r)
    [] t.ty = "QUOTE" -> LET x == PExpr(r, fuel - 1) IN IF x.ok THEN Good(Node("quote", <<>>, <<x.v>>), x.rest) ELSE Bad
    [] t.ty = "UNBOUND" ->
         LET x == PExpr(r, fuel - 1) IN
         IF ~x.ok THEN Bad
         ELSE IF \E j \in 1..Len(x.v.kids) : x.v.k = "list" /\ x.v.kids[j].k = "list" THEN Bad     \* nested expression inside #^
         ELSE Good(Node("unbound", <<>>, <<x.v>>), x.rest)
    [] t.ty = "FUN_REF" ->
         IF Len(r) = 0 \/ r[1].ty # "SYMBOL" \/ ~SymbolOK(r[1].tx) THEN Bad
         ELSE IF Colons(r[1].tx) = 0 /\ ~PieceIsSymbol(r[1].tx) THEN Bad        \* a plain name must read back as one symbol; a keyword or a qualified name is judged by SymbolOK
         ELSE Good(Node("funref", <<>>, <<Node("sym", r[1].tx, <<>>)>>), Rest(r))
    [] t.ty = "PAREN_L" -> PList(r, ")", <<>>, fuel - 1)
    [] t.ty = "BRACE_L" -> PList(r, "]", <<>>, fuel - 1)
    [] OTHER -> Bad
PList(ts0, close, acc, fuel) ==
  IF fuel = 0 THEN Bad ELSE
  LET ts == SkipC(ts0) IN
  IF Len(ts) = 0 \/ ts[1].ty = "EOF" THEN Bad                                   \* unclosed bracket
  ELSE IF ts[1].ty = "PAREN_R" THEN (IF close = ")" THEN Good(Node("list", <<>>, acc), Rest(ts)) ELSE Bad)
  ELSE IF ts[1].ty = "BRACE_R" THEN (IF close = "]" THEN Good(Node("qlist", <<>>, acc), Rest(ts)) ELSE Bad)
  ELSE LET x == PExpr(ts, fuel - 1) IN IF ~x.ok THEN Bad ELSE PList(x.rest, close, Append(acc, x.v), fuel - 1)

\* ParseProgram: optional hash-bang (+ its comment) at the start, then expressions until EOF
RECURSIVE PProg(_, _, _)
PProg(ts0, acc, fuel) ==
  IF fuel = 0 THEN [ok |-> FALSE, trees |-> <<>>] ELSE
  LET ts == SkipC(ts0) IN
  IF Len(ts) = 0 THEN [ok |-> FALSE, trees |-> <<>>]
  ELSE IF ts[1].ty = "EOF" THEN [ok |-> TRUE, trees |-> acc]
  ELSE LET x == PExpr(ts, fuel) IN IF ~x.ok THEN [ok |-> FALSE, trees |-> <<>>] ELSE PProg(x.rest, Append(acc, x.v), fuel - 1)
Read(cs) ==
  LET ts == Lex(cs)
      ts1 == IF Len(ts) > 0 /\ ts[1].ty = "HASH_BANG" THEN (IF Len(ts) > 1 /\ ts[2].ty = "COMMENT" THEN SubSeq(ts, 3, Len(ts)) ELSE Rest(ts)) ELSE ts IN
  PProg(ts1, <<>>, 2 * Len(cs) + 4)

\* ------------------------------------------------------------- enumeration
\* every string over ALPHA up to MAXLEN classes: grown one class at a time (a set of all of them would exceed TLC's
\* bound on constructed sets beyond a million strings), each printed once with the reader's verdict
Init == str = <<>> /\ done = FALSE
\* (a configuration file does not process escapes in string constants: "\n" there is a backslash and an n.  The three
\* characters that need an escape are therefore NAMED in ALPHA and turned into the character here)
Ch(a) == CASE a = "NL" -> "\n" [] a = "DQ" -> "\"" [] a = "BS" -> "\\" [] OTHER -> a
Grow == ~done /\ Len(str) < MAXLEN /\ \E c \in ALPHA : str' = Append(str, Ch(c)) /\ UNCHANGED done
Emit == /\ ~done /\ done' = TRUE /\ UNCHANGED str
        /\ LET r == Read(str) IN PrintT(ToJson([s |-> str, ok |-> r.ok, trees |-> r.trees, toks |-> [j \in 1..Len(Lex(str)) |-> Lex(str)[j].ty],
                                                         ttx |-> [j \in 1..Len(Lex(str)) |-> Lex(str)[j].tx]]))
Next == Grow \/ Emit \/ (done /\ UNCHANGED vars)
Spec == Init /\ [][Next]_vars

\* totality / progress of the lexer: it always ends in EOF (or stops at an error), never runs out of fuel
NeverWedged == \A j \in 1..Len(Lex(str)) : Lex(str)[j].ty # "WEDGED"
EndsInEOF == LET ts == Lex(str) IN Len(ts) > 0 /\ ts[Len(ts)].ty = "EOF"
=============================================================================
