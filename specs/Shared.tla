------------------------------- MODULE Shared -------------------------------
(***************************************************************************)
(* Shared: one parsed Program shared by R independent runtimes (C09).      *)
(*                                                                         *)
(* The Program region holds the backing arrays of the quoted literals of   *)
(* the source text; every header onto it handed out by evaluating the      *)
(* quote is sealed.  Each runtime has a private heap and runs a script of  *)
(* operations, each of which is one of the paths by which a program        *)
(* literal can reach a mutating builtin:                                   *)
(*    sort        (stable-sort < (lit))            copy-on-write           *)
(*    cdrsort     (stable-sort < (cdr (lit)))      the seal travels        *)
(*    slicepush   (append! (slice 'vector (lit) 0 2) 9)   copies           *)
(*    append0     (stable-sort < (append 'vector (lit)))  copies           *)
(*    slicefull / slicetail / slicecdr                                      *)
(*                (stable-sort < (slice 'vector V i j)) where the view       *)
(*                reaches the END of the literal (all of it, its tail, the   *)
(*                tail of its cdr): a copy must be sorted, whatever the      *)
(*                view's extent                                              *)
(*    restsort    (stable-sort < (rest (lit)))                             *)
(*    macroarg    a macro sorting a literal it received as an argument     *)
(*    applyrest / applycdr / applyreq / funcallopt / mapsort / foldsort     *)
(*                the literal (or a view of it, or a nested literal) is     *)
(*                handed to a lisp function through apply's list, an        *)
(*                &rest / &optional parameter or a map / foldl callback,    *)
(*                and sorted there                                          *)
(*    define      (set 'counter (+ counter 1)) private state               *)
(*    read        print the literal again                                  *)
(*    reload      load the Program again in the same runtime               *)
(*    hostwiden   the runtime's embedder widens ITS copy of the formal     *)
(*                argument list of a builtin registered from a Go table    *)
(*                shared by all runtimes (a per-environment formals list   *)
(*                is storage its one owner may write, lisp/env.go)         *)
(*    hostcall    that builtin called with the extra argument: accepted    *)
(*                only in a runtime that widened its own copy              *)
(* Interleaving of the runtimes' operations is the only nondeterminism.    *)
(*                                                                         *)
(*   ProgramFrozen  every Program backing equals its parse-time content    *)
(*   NoLaunder      no unsealed header points into a Program backing       *)
(*   Isolation      each runtime's results are those of its script run     *)
(*                  alone (Solo), whatever the others did in between       *)
(*                                                                         *)
(* COW = FALSE models an interpreter whose in-place sort writes through a  *)
(* literal (the defect class the seal exists for) and is the non-vacuity   *)
(* demonstration: ProgramFrozen and Isolation then fail.                   *)
(* Every complete behaviour (scripts + schedule) is printed; the harness   *)
(* imposes the schedule on real goroutines with gates (binding B1).        *)
(***************************************************************************)
EXTENDS Integers, Sequences, FiniteSets, TLC, Json

CONSTANTS R,          \* number of runtimes
          LEN,        \* script length
          COW,        \* copy-on-write discipline in force
          EMIT

OPS == {"sort", "cdrsort", "slicepush", "append0", "restsort", "macroarg", "define", "read", "reload",
        "slicefull", "slicetail", "slicecdr", "slicelist", "quotecmp",
        \* the literal crossing a function-application boundary before it reaches the in-place sort
        "applyrest", "applycdr", "applyreq", "funcallopt", "mapsort", "foldsort",
        \* Go-level configuration of one runtime's copy of a registered builtin
        "hostwiden", "hostcall",
        \* a special operator that builds each step's call from a program node and a run-time value: the node (and the
        \* spare capacity the parser left behind it) belongs to the Program, the value to the runtime
        "threadlast",
        \* expansion-time state: a macro whose expansion reads a global the Program never sets, called by a TOP-LEVEL form
        \* of the Program.  setflag sets the global; readmode reads what the top-level call produced at the LAST load:
        \* a reload expands the call again, as a fresh parse would (nothing remembered per call site)
        "setflag", "readmode"}
LIT == <<3, 1, 2>>

VARIABLES prog,      \* Program region: the literal's backing
          hdrs,      \* headers pointing into the Program region: set of [rt, sealed]
          rt,        \* per runtime: [script, pc, counter, results]
          sched      \* order in which operations were executed (runtime ids)
vars == <<prog, hdrs, rt, sched>>

Sorted(s) == SortSeq(s, LAMBDA a, b : a < b)
TailOf(s) == SubSeq(s, 2, Len(s))

\* result of an operation given the literal's current content and the runtime's counter
Result(op, lit, counter, wide, mode) ==
  CASE op = "sort" -> Sorted(lit)
    [] op = "cdrsort" -> Sorted(TailOf(lit))
    [] op = "restsort" -> Sorted(TailOf(lit))
    [] op = "slicepush" -> SubSeq(lit, 1, 2) \o <<9>>
    [] op = "append0" -> Sorted(lit)
    [] op = "slicefull" -> Sorted(lit)
    [] op = "slicetail" -> Sorted(TailOf(lit))
    [] op = "slicecdr" -> Sorted(TailOf(lit))
    [] op = "slicelist" -> Sorted(lit)           \* (stable-sort < (slice 'list (lit) 0 3)): the whole range as a list
    \* a literal of doubly quoted lists sorted with a comparator that sorts (its private copies of) the elements in
    \* place; the result is the first element's list read back afterwards
    [] op = "quotecmp" -> lit
    [] op = "macroarg" -> Sorted(lit)
    [] op \in {"applyrest", "funcallopt", "mapsort", "foldsort"} -> Sorted(lit)
    [] op \in {"applycdr", "applyreq"} -> Sorted(TailOf(lit))
    [] op = "define" -> <<counter + 1>>
    [] op = "read" -> lit
    [] op = "reload" -> <<0>>
    [] op = "threadlast" -> <<7, 8, counter>>
    [] op = "hostwiden" -> <<1>>
    [] op = "setflag" -> <<1>>
    [] op = "readmode" -> <<mode>>
    [] op = "hostcall" -> IF wide THEN <<6>> ELSE <<-1>>

RECURSIVE SoloRun(_, _, _, _, _, _)
SoloRun(script, i, counter, wide, flag, mode) ==
  IF i > Len(script) THEN <<>>
  ELSE <<Result(script[i], LIT, counter, wide, mode)>> \o
       SoloRun(script, i + 1, IF script[i] = "define" THEN counter + 1 ELSE IF script[i] = "reload" THEN 0 ELSE counter,
               wide \/ script[i] = "hostwiden", flag \/ script[i] = "setflag",
               IF script[i] = "reload" THEN (IF flag THEN 1 ELSE 0) ELSE mode)
Solo(script) == SoloRun(script, 1, 0, FALSE, FALSE, 0)

\* scripts are chosen operation by operation (the same behaviours as choosing them up front, one initial state)
Init == /\ prog = LIT /\ hdrs = {} /\ sched = <<>>
        /\ rt = [r \in 1..R |-> [script |-> <<>>, pc |-> 1, counter |-> 0, results |-> <<>>, wide |-> FALSE, flag |-> FALSE, mode |-> 0]]

Step(r) == \E op \in OPS :
  LET me == [rt[r] EXCEPT !.script = Append(@, op)] IN
  /\ rt[r].pc <= LEN
  /\ LET res == Result(op, prog, me.counter, me.wide, me.mode)
         writes == ~COW /\ op \in {"sort", "append0", "slicefull", "slicelist", "quotecmp", "macroarg", "applyrest", "funcallopt", "mapsort", "foldsort"}        \* in-place sort through the literal
         prog2 == IF writes THEN Sorted(prog) ELSE prog IN
     /\ prog' = prog2
     /\ hdrs' = hdrs \cup {[rt |-> r, sealed |-> (COW \/ op \notin {"slicepush", "append0", "slicefull", "slicetail", "slicecdr"})]}
     /\ rt' = [rt EXCEPT ![r] = [me EXCEPT !.pc = @ + 1, !.results = Append(@, res),
                                          !.counter = IF op = "define" THEN @ + 1 ELSE IF op = "reload" THEN 0 ELSE @,
                                          !.wide = @ \/ op = "hostwiden", !.flag = @ \/ op = "setflag",
                                          !.mode = IF op = "reload" THEN (IF me.flag THEN 1 ELSE 0) ELSE @]]
     /\ sched' = Append(sched, r)
Done == \A r \in 1..R : rt[r].pc > LEN
Emit == /\ EMIT /\ Done /\ Len(sched) = R * LEN
        /\ PrintT(ToJson([scripts |-> [r \in 1..R |-> rt[r].script], sched |-> sched, results |-> [r \in 1..R |-> rt[r].results]]))
        /\ sched' = Append(sched, 0) /\ UNCHANGED <<prog, hdrs, rt>>
Next == (\E r \in 1..R : Step(r)) \/ Emit
Spec == Init /\ [][Next]_vars

ProgramFrozen == prog = LIT
NoLaunder == \A hd \in hdrs : hd.sealed
Isolation == \A r \in 1..R : rt[r].results = SubSeq(Solo(rt[r].script), 1, Len(rt[r].results))
=============================================================================
