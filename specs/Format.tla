------------------------------- MODULE Format -------------------------------
(***************************************************************************)
(* Format: the relation a formatter must establish between its input and   *)
(* its output (property C16), decided on token streams with the reader of  *)
(* Reader.tla (binding B3: the real lexer's tokens of the input and of     *)
(* formatter.Format's output are fed back into the specification):         *)
(*                                                                         *)
(*   SameTrees     the expression trees of input and output are identical  *)
(*                 (node kinds, atom spellings, quoting, bracket kinds)    *)
(*   SameAnchors   the ordered list of (comment text, number of            *)
(*                 expression starts before it) is identical: every        *)
(*                 comment is still present, in the original order and     *)
(*                 before the same expression.  A quote prefix is not an   *)
(*                 expression start of its own (a comment between a prefix *)
(*                 and its operand may be moved in front of the prefix).   *)
(*   StripOK       with comment stripping only the trees are compared.     *)
(***************************************************************************)
EXTENDS Reader

FCases == ndJsonDeserialize("fmtcases.ndjson")     \* [id, mode, tin : Seq([ty, tx]), tout : Seq([ty, tx])]

IsStart(t) == t.ty \in {"INT", "FLOAT", "STRING", "STRING_RAW", "SYMBOL", "NEGATIVE", "PAREN_L", "BRACE_L", "FUN_REF", "UNBOUND"}
RECURSIVE AnchorsFrom(_, _)
AnchorsFrom(ts, n) ==
  IF Len(ts) = 0 THEN <<>>
  ELSE LET t == ts[1] IN
       IF t.ty \in {"COMMENT", "HASH_BANG"} THEN <<[c |-> t.tx, at |-> n]>> \o AnchorsFrom(Rest(ts), n)
       \* a NEGATIVE sign merges with the number / symbol that directly follows it: one expression start
       ELSE IF t.ty = "NEGATIVE" /\ Len(ts) > 1 /\ ts[2].ty \in {"INT", "FLOAT", "SYMBOL"} THEN AnchorsFrom(SubSeq(ts, 3, Len(ts)), n + 1)
       \* #'name stands for (lisp:function name) and #^x for (lisp:expr x): counted as their expanded forms, so that
       \* either spelling gives the same positions
       ELSE IF t.ty = "FUN_REF" /\ Len(ts) > 1 /\ ts[2].ty = "SYMBOL" THEN AnchorsFrom(SubSeq(ts, 3, Len(ts)), n + 3)
       ELSE IF t.ty = "UNBOUND" THEN AnchorsFrom(Rest(ts), n + 2)
       ELSE IF IsStart(t) THEN AnchorsFrom(Rest(ts), n + 1)
       ELSE AnchorsFrom(Rest(ts), n)
Anchors(ts) == AnchorsFrom(ts, 0)

\* the reader of Reader.tla at token level: atom texts are opaque strings here (the real lexer produced the tokens
\* of an accepted text, so atom validity is not re-decided), the tree structure is what is compared
RECURSIVE FExpr(_, _), FList(_, _, _, _), FProg(_, _, _)
FExpr(ts0, fuel) ==
  IF fuel = 0 THEN Bad ELSE
  LET ts == SkipC(ts0) IN
  IF Len(ts) = 0 THEN Bad
  ELSE LET t == ts[1]  r == Rest(ts) IN
  CASE t.ty \in {"INT", "FLOAT", "STRING", "STRING_RAW", "SYMBOL"} -> Good(Node(t.ty, t.tx, <<>>), r)
    [] t.ty = "NEGATIVE" ->
         IF Len(r) > 0 /\ r[1].ty \in {"INT", "FLOAT", "SYMBOL"} THEN Good(Node(r[1].ty, "-" \o r[1].tx, <<>>), Rest(r))
         ELSE Good(Node("SYMBOL", "-", <<>>), r)
    [] t.ty = "QUOTE" -> LET x == FExpr(r, fuel - 1) IN IF x.ok THEN Good(Node("quote", "", <<x.v>>), x.rest) ELSE Bad
    \* #^x and #'name are sugar for (lisp:expr x) and (lisp:function name): either spelling is the same tree
    [] t.ty = "UNBOUND" -> LET x == FExpr(r, fuel - 1) IN IF x.ok THEN Good(Node("list", "", <<Node("SYMBOL", "lisp:expr", <<>>), x.v>>), x.rest) ELSE Bad
    [] t.ty = "FUN_REF" -> IF Len(r) = 0 \/ r[1].ty # "SYMBOL" THEN Bad
                           ELSE Good(Node("list", "", <<Node("SYMBOL", "lisp:function", <<>>), Node("SYMBOL", r[1].tx, <<>>)>>), Rest(r))
    [] t.ty = "PAREN_L" -> FList(r, ")", <<>>, fuel - 1)
    [] t.ty = "BRACE_L" -> FList(r, "]", <<>>, fuel - 1)
    [] OTHER -> Bad
FList(ts0, close, acc, fuel) ==
  IF fuel = 0 THEN Bad ELSE
  LET ts == SkipC(ts0) IN
  IF Len(ts) = 0 \/ ts[1].ty = "EOF" THEN Bad
  ELSE IF ts[1].ty = "PAREN_R" THEN (IF close = ")" THEN Good(Node("list", "", acc), Rest(ts)) ELSE Bad)
  ELSE IF ts[1].ty = "BRACE_R" THEN (IF close = "]" THEN Good(Node("qlist", "", acc), Rest(ts)) ELSE Bad)
  ELSE LET x == FExpr(ts, fuel - 1) IN IF ~x.ok THEN Bad ELSE FList(x.rest, close, Append(acc, x.v), fuel - 1)
FProg(ts0, acc, fuel) ==
  IF fuel = 0 THEN [ok |-> FALSE, trees |-> <<>>] ELSE
  LET ts == SkipC(ts0) IN
  IF Len(ts) = 0 THEN [ok |-> FALSE, trees |-> <<>>]
  ELSE IF ts[1].ty = "EOF" THEN [ok |-> TRUE, trees |-> acc]
  ELSE LET x == FExpr(ts, fuel) IN IF ~x.ok THEN [ok |-> FALSE, trees |-> <<>>] ELSE FProg(x.rest, Append(acc, x.v), fuel - 1)
ProgOf(ts) ==
  LET ts1 == IF Len(ts) > 0 /\ ts[1].ty = "HASH_BANG" THEN (IF Len(ts) > 1 /\ ts[2].ty = "COMMENT" THEN SubSeq(ts, 3, Len(ts)) ELSE Rest(ts)) ELSE ts IN
  FProg(ts1, <<>>, 2 * Len(ts) + 4)
\* the hash-bang line is one comment: its marker and the rest of the line
MergeBang(ts) == IF Len(ts) > 1 /\ ts[1].ty = "HASH_BANG" /\ ts[2].ty = "COMMENT"
                 THEN <<[ty |-> "COMMENT", tx |-> ts[1].tx \o ts[2].tx]>> \o SubSeq(ts, 3, Len(ts)) ELSE ts

SameTrees(c) == LET a == ProgOf(c.tin)  b == ProgOf(c.tout) IN a.ok /\ b.ok /\ a.trees = b.trees
SameAnchors(c) == Anchors(MergeBang(c.tin)) = Anchors(MergeBang(c.tout))

FInit == \E i \in 1..Len(FCases) : str = FCases[i] /\ done = FALSE
FEmit == /\ ~done /\ done' = TRUE /\ UNCHANGED str
         /\ PrintT(ToJson([id |-> str.id, mode |-> str.mode, trees |-> SameTrees(str), anchors |-> SameAnchors(str),
                           nin |-> Len(Anchors(MergeBang(str.tin))), nout |-> Len(Anchors(MergeBang(str.tout)))]))
FNext == FEmit \/ (done /\ UNCHANGED vars)
FSpec == FInit /\ [][FNext]_vars
=============================================================================
