-------------------------------- MODULE Heap --------------------------------
(***************************************************************************)
(* Heap: the sharing, copying and mutation discipline of ELPS containers   *)
(* (property C11), transcribed from lisp/builtins.go and lisp/maps.go.     *)
(*                                                                         *)
(* Three sorts, kept apart because printing follows element REFERENCES:    *)
(*   back   backing arrays (Go slices' underlying arrays) of cell values   *)
(*   obj    headers: lists and vectors are (backing, offset, length,       *)
(*          capacity, sealed) windows onto a backing array; sorted maps    *)
(*          own a finite map from key NAME to (value, spelling)            *)
(*   glob   the program's variables g1, g2, ...: each operation binds its  *)
(*          result to the next variable (or, for operations that return    *)
(*          their argument, to an alias of it)                             *)
(* A cell value is an integer, nil, or a reference to a header.            *)
(*                                                                         *)
(* Every builtin of the discipline is one action with its exact effect:    *)
(* which backing it allocates, which window it returns (with Go's append   *)
(* growth rule and the cap clamp of views), what it writes.  Checked by    *)
(* TLC: NonMutating operations leave the rendering of every pre-existing   *)
(* variable unchanged (action property NonMut); the quoted program literal *)
(* is never written (ProgramFrozen) and every window onto it is sealed     *)
(* (NoLaunder); maps enumerate in key order.  Behaviours (operation        *)
(* histories with the rendering of every variable after every step) are    *)
(* printed and replayed on the real interpreter (binding B1).              *)
(***************************************************************************)
EXTENDS Integers, Sequences, FiniteSets, TLC, Json

CONSTANTS MAXOPS,    \* operations per history
          MAXOBJ,    \* bound on headers
          EMIT       \* "all": print each completed history (simulation); "mut": print the completed histories whose
                     \* last operation is a mutator (exhaustive mode: every alias x mutator pair); "none"

VARIABLE h
vars == <<h>>

VInt(n) == [t |-> "int", n |-> n]
VRef(i) == [t |-> "ref", n |-> i]
VNil    == [t |-> "nil", n |-> 0]
VKey(i) == [t |-> "key", n |-> i]       \* a key name (element of a keys result), by its index in KEYS
Max(a, b) == IF a > b THEN a ELSE b
Rest(s) == SubSeq(s, 2, Len(s))

KEYS == <<"a", "b", "c">>                      \* key names in their sort order
KeyIdx(k) == CHOOSE i \in 1..Len(KEYS) : KEYS[i] = k
NoEnt == [present |-> FALSE, v |-> VNil, sym |-> FALSE]
EmptyEnts == [i \in 1..Len(KEYS) |-> NoEnt]

Obj(kind, b, off, len, cap, sealed) == [kind |-> kind, b |-> b, off |-> off, len |-> len, cap |-> cap, sealed |-> sealed, ents |-> EmptyEnts, view |-> FALSE]
View(kind, b, off, len, sealed) == [Obj(kind, b, off, len, len, sealed) EXCEPT !.view = TRUE]     \* a window handed out by slice / cdr / rest: capacity clamped to its length
MapObj(ents) == [kind |-> "map", b |-> 0, off |-> 0, len |-> 0, cap |-> 0, sealed |-> FALSE, ents |-> ents, view |-> FALSE]

Cells(s, o) == [i \in 1..o.len |-> s.back[o.b][o.off + i]]

\* a fresh backing holding cells with capacity cap >= Len(cells), and a header over it
Alloc(s, kind, cells, cap) ==
  LET b == Len(s.back) + 1
      pad == [i \in 1..cap |-> IF i <= Len(cells) THEN cells[i] ELSE VNil] IN
  [s EXCEPT !.back = Append(@, pad), !.obj = Append(@, Obj(kind, b, 0, Len(cells), cap, FALSE))]
NewId(s) == Len(s.obj) + 1

G(s, g) == s.obj[s.glob[g].n]
IsObj(s, g) == s.glob[g].t = "ref"
IsSeq(s, g) == IsObj(s, g) /\ G(s, g).kind \in {"list", "vec"}
IsMap(s, g) == IsObj(s, g) /\ G(s, g).kind = "map"
IsVec(s, g) == IsObj(s, g) /\ G(s, g).kind = "vec"
IsListOrNil(s, g) == s.glob[g].t = "nil" \/ (IsObj(s, g) /\ G(s, g).kind = "list")
SeqCells(s, g) == IF s.glob[g].t = "nil" THEN <<>> ELSE Cells(s, G(s, g))

\* ---------------------------------------------------------------- rendering
RECURSIVE RenderVal(_, _, _)
RenderObj(s, id, fuel) ==
  LET o == s.obj[id] IN
  IF o.kind = "map"
  THEN [kind |-> "map", elems |-> <<>>, n |-> 0,
        ents |-> [i \in 1..Len(KEYS) |-> IF o.ents[i].present /\ fuel > 0
                                         THEN [k |-> KEYS[i], present |-> TRUE, sym |-> o.ents[i].sym, v |-> RenderVal(s, o.ents[i].v, fuel - 1)]
                                         ELSE [k |-> KEYS[i], present |-> o.ents[i].present, sym |-> o.ents[i].sym, v |-> [kind |-> "cut", elems |-> <<>>, n |-> 0, ents |-> <<>>]]]]
  ELSE [kind |-> o.kind, n |-> 0, ents |-> <<>>,
        elems |-> [k \in 1..o.len |-> IF fuel > 0 THEN RenderVal(s, s.back[o.b][o.off + k], fuel - 1)
                                      ELSE [kind |-> "cut", elems |-> <<>>, n |-> 0, ents |-> <<>>]]]
RenderVal(s, v, fuel) ==
  IF v.t = "int" THEN [kind |-> "int", n |-> v.n, elems |-> <<>>, ents |-> <<>>]
  ELSE IF v.t = "nil" THEN [kind |-> "nil", n |-> 0, elems |-> <<>>, ents |-> <<>>]
  ELSE IF v.t = "key" THEN [kind |-> "key", n |-> v.n, elems |-> <<>>, ents |-> <<>>]
  ELSE RenderObj(s, v.n, fuel)
DEPTH == 4
RenderAll(s) == [g \in 1..Len(s.glob) |-> RenderVal(s, s.glob[g], DEPTH)]
\* which variables are clamped views (their cell storage must have no spare capacity)
ViewFlags(s) == [g \in 1..Len(s.glob) |-> s.glob[g].t = "ref" /\ s.obj[s.glob[g].n].view]

\* --------------------------------------------------------------------- log
Op(name, kind, ints, x, y, i, j, k, sym) == [op |-> name, kind |-> kind, ints |-> ints, x |-> x, y |-> y, i |-> i, j |-> j, k |-> k, sym |-> sym]
\* bind the result to the next variable and record the step with the rendering of every variable after it
Step(s, v, what, mut) ==
  LET s1 == [s EXCEPT !.glob = Append(@, v), !.nops = @ + 1, !.lastmut = mut] IN
  [s1 EXCEPT !.log = Append(@, [op |-> what, after |-> RenderAll(s1), views |-> ViewFlags(s1)])]
Def(s, id, what)      == Step(s, VRef(id), what, FALSE)
DefNil(s, what)       == Step(s, VNil, what, FALSE)
DefVal(s, v, what)    == Step(s, v, what, FALSE)
DefMut(s, v, what)    == Step(s, v, what, TRUE)

Init == h = LET s0 == [back |-> <<>>, obj |-> <<>>, glob |-> <<>>, log |-> <<>>, nops |-> 0, lastmut |-> FALSE, emitted |-> FALSE]
                \* g1: the quoted program literal '(3 1 2) (sealed); g2: (vector 5 4 6 2); g3: (list 7 9 8);
                \* g4: (sorted-map "b" 1 "a" 2) - no key has been given as a symbol yet
                s1 == Alloc(s0, "list", <<VInt(3), VInt(1), VInt(2)>>, 3)
                s2 == [s1 EXCEPT !.obj[1].sealed = TRUE, !.glob = <<VRef(1)>>]
                s3 == Alloc(s2, "vec", <<VInt(5), VInt(4), VInt(6), VInt(2)>>, 4)
                s4 == [s3 EXCEPT !.glob = Append(@, VRef(2))]
                s5 == Alloc(s4, "list", <<VInt(7), VInt(9), VInt(8)>>, 3)
                s6 == [s5 EXCEPT !.glob = Append(@, VRef(3))]
                m  == [EmptyEnts EXCEPT ![2] = [present |-> TRUE, v |-> VInt(1), sym |-> FALSE],
                                        ![1] = [present |-> TRUE, v |-> VInt(2), sym |-> FALSE]]
            IN [s6 EXCEPT !.obj = Append(@, MapObj(m)), !.glob = Append(@, VRef(4))]

NG == Len(h.glob)
Room == h.nops < MAXOPS /\ Len(h.obj) < MAXOBJ

\* argument values of variadic operations: integers or references to existing variables
ValOf(a) == IF a.t = "g" THEN h.glob[a.n] ELSE VInt(a.n)

\* ------------------------------------------------------------- constructors
\* (vector a b ...) / (list a b ...): the call's own argument array; its capacity is max(n, 2)
OpNew(kind, ints) ==
  LET n == Len(ints)  vals == [i \in 1..n |-> VInt(ints[i])] IN
  IF n = 0 /\ kind = "list" THEN h' = DefNil(h, Op("new", kind, ints, 0, 0, 0, 0, "", FALSE))
  ELSE h' = Def(Alloc(h, kind, vals, Max(n, 2)), NewId(h), Op("new", kind, ints, 0, 0, 0, 0, "", FALSE))
\* a container holding references to two existing values
OpHold(kind, x, y) ==
  h' = Def(Alloc(h, kind, <<h.glob[x], h.glob[y]>>, 2), NewId(h), Op("hold", kind, <<>>, x, y, 0, 0, "", FALSE))

\* -------------------------------------------------------------------- views
\* (slice kind X i j): a view with clamped capacity; the seal travels with the backing; a sealed
\* source is copied when a vector is requested
OpSlice(kind, x, i, j) ==
  LET o == G(h, x)  what == Op("slice", kind, <<>>, x, 0, i, j, "", FALSE) IN
  /\ IsSeq(h, x) /\ 0 <= i /\ i <= j /\ j <= o.len
  /\ IF kind = "vec" /\ o.sealed
     THEN h' = Def(Alloc(h, "vec", [k \in 1..(j - i) |-> h.back[o.b][o.off + i + k]], j - i), NewId(h), what)
     ELSE h' = Def([h EXCEPT !.obj = Append(@, View(kind, o.b, o.off + i, j - i, IF kind = "list" THEN o.sealed ELSE FALSE))], NewId(h), what)
\* (cdr L) lists only; (rest S) any sequence: view of everything but the first element, () when shorter than 2
OpTail(name, x) ==
  LET o == G(h, x)  what == Op(name, "list", <<>>, x, 0, 0, 0, "", FALSE) IN
  /\ IsSeq(h, x) /\ (name = "cdr" => o.kind = "list")
  /\ IF o.len < 2 THEN h' = DefNil(h, what)
     ELSE h' = Def([h EXCEPT !.obj = Append(@, View("list", o.b, o.off + 1, o.len - 1, o.sealed))], NewId(h), what)

\* ------------------------------------------------------ non-mutating builders
\* (append kind X v...): always fresh storage (with no values too: the repaired behaviour)
OpAppend(kind, x, as) ==
  LET cells == SeqCells(h, x) \o [k \in 1..Len(as) |-> ValOf(as[k])]
      what == Op("append", kind, as, x, 0, 0, 0, "", FALSE) IN
  /\ (IsSeq(h, x) \/ h.glob[x].t = "nil")
  /\ h' = Def(Alloc(h, kind, cells, Len(cells)), NewId(h), what)
\* (concat kind X Y): fresh storage; the empty list is ()
OpConcat(kind, x, y) ==
  /\ (IsSeq(h, x) \/ h.glob[x].t = "nil") /\ (IsSeq(h, y) \/ h.glob[y].t = "nil")
  /\ LET cells == SeqCells(h, x) \o SeqCells(h, y)  what == Op("concat", kind, <<>>, x, y, 0, 0, "", FALSE) IN
     IF Len(cells) = 0 /\ kind = "list" THEN h' = DefNil(h, what)
     ELSE h' = Def(Alloc(h, kind, cells, Len(cells)), NewId(h), what)
\* (cons v L)
OpCons(a, x) ==
  /\ IsListOrNil(h, x)
  /\ LET cells == <<ValOf(a)>> \o SeqCells(h, x) IN
     h' = Def(Alloc(h, "list", cells, Len(cells) + 2), NewId(h), Op("cons", "list", <<a>>, x, 0, 0, 0, "", FALSE))
\* (reverse kind X)
OpReverse(kind, x) ==
  /\ IsSeq(h, x)
  /\ LET cs == SeqCells(h, x)  n == Len(cs)  what == Op("reverse", kind, <<>>, x, 0, 0, 0, "", FALSE) IN
     IF n = 0 /\ kind = "list" THEN h' = DefNil(h, what)
     ELSE h' = Def(Alloc(h, kind, [k \in 1..n |-> cs[n + 1 - k]], n), NewId(h), what)
\* (insert-index kind X i v)
OpInsert(kind, x, i, a) ==
  /\ IsSeq(h, x) /\ i >= 0 /\ i <= G(h, x).len
  /\ LET cs == SeqCells(h, x)
         cells == SubSeq(cs, 1, i) \o <<ValOf(a)>> \o SubSeq(cs, i + 1, Len(cs)) IN
     h' = Def(Alloc(h, kind, cells, Len(cells)), NewId(h), Op("insert-index", kind, <<a>>, x, 0, i, 0, "", FALSE))
\* (zip kind X Y): a fresh sequence of fresh two-element sequences (all of the given kind) holding the SAME elements
RECURSIVE ZipAlloc(_, _, _, _, _)
ZipAlloc(s, kind, cx, cy, i) ==     \* allocates the pairs i..n, returns the state and the references in order
  IF i > Len(cx) \/ i > Len(cy) THEN [s |-> s, refs |-> <<>>]
  ELSE LET id == Len(s.obj) + 1
           r == ZipAlloc(Alloc(s, kind, <<cx[i], cy[i]>>, 2), kind, cx, cy, i + 1) IN
       [s |-> r.s, refs |-> <<VRef(id)>> \o r.refs]
OpZip(kind, x, y) ==
  /\ IsSeq(h, x) /\ IsSeq(h, y)
  /\ LET z == ZipAlloc(h, kind, SeqCells(h, x), SeqCells(h, y), 1)
         n == Len(z.refs)  what == Op("zip", kind, <<>>, x, y, 0, 0, "", FALSE) IN
     /\ Len(h.obj) + n + 1 <= MAXOBJ
     /\ h' = Def(Alloc(z.s, kind, z.refs, n), Len(z.s.obj) + 1, what)
\* (insert-sorted kind X < v) on a sequence of integers: a fresh sequence with v at the first position whose element
\* is not smaller (the binary search of sort.Search over the predicate (< v element))
OpInsertSorted(kind, x, a) ==
  /\ IsSeq(h, x) /\ a.t = "i" /\ \A k \in 1..Len(SeqCells(h, x)) : SeqCells(h, x)[k].t = "int"
  /\ LET cs == SeqCells(h, x)  n == Len(cs)  v == a.n
         \* sort.Search(n, f): smallest index in [0, n] with f true, assuming f is monotone; on an unsorted sequence the
         \* probes decide - transcribed literally
         f(k) == v < cs[k + 1].n
         Search[lo \in 0..n, hi \in 0..n] == IF lo >= hi THEN lo
                                            ELSE LET m == (lo + hi) \div 2 IN IF ~f(m) THEN Search[m + 1, hi] ELSE Search[lo, m]
         i == Search[0, n]
         cells == SubSeq(cs, 1, i) \o <<VInt(v)>> \o SubSeq(cs, i + 1, n) IN
     h' = Def(Alloc(h, kind, cells, Len(cells)), NewId(h), Op("insert-sorted", kind, <<a>>, x, 0, 0, 0, "", FALSE))
\* (map kind identity X), (select kind (lambda (e) true) X), (reject kind (lambda (e) true) X)
OpMapLike(name, kind, x) ==
  /\ IsSeq(h, x)
  /\ LET cs == IF name = "reject" THEN <<>> ELSE SeqCells(h, x)
         cap == IF name = "map" THEN Len(cs) ELSE IF kind = "vec" THEN G(h, x).len ELSE Len(cs)
         what == Op(name, kind, <<>>, x, 0, 0, 0, "", FALSE) IN
     IF Len(cs) = 0 /\ kind = "list" THEN h' = DefNil(h, what)
     ELSE h' = Def(Alloc(h, kind, cs, cap), NewId(h), what)

\* ------------------------------------------------------------------ mutators
\* (append! V v...): extends its own target in place when there is room (Go's append), otherwise
\* moves it to a larger backing; returns the vector itself
OpAppendBang(x, as) ==
  LET o == G(h, x)  n == Len(as)  id == h.glob[x].n
      vals == [k \in 1..n |-> ValOf(as[k])]
      what == Op("append!", "vec", as, x, 0, 0, 0, "", FALSE) IN
  /\ IsVec(h, x)
  /\ IF n = 0 THEN h' = DefMut(h, h.glob[x], what)
     ELSE IF o.len + n <= o.cap
     THEN h' = DefMut([h EXCEPT !.back[o.b] = [k \in 1..Len(@) |-> IF k > o.off + o.len /\ k <= o.off + o.len + n THEN vals[k - o.off - o.len] ELSE @[k]],
                                !.obj[id].len = o.len + n], h.glob[x], what)
     ELSE LET newcap == IF o.len + n > 2 * o.cap THEN o.len + n ELSE 2 * o.cap       \* growth below 256 elements
              cells == Cells(h, o) \o vals
              b == Len(h.back) + 1 IN
          h' = DefMut([h EXCEPT !.back = Append(@, [k \in 1..newcap |-> IF k <= Len(cells) THEN cells[k] ELSE VNil]),
                                !.obj[id] = Obj("vec", b, 0, Len(cells), newcap, FALSE)], h.glob[x], what)
\* (stable-sort < X): in place on X's cells (shows through every window sharing them); a sealed
\* literal is copied and the copy returned
AllInts(cs) == \A k \in 1..Len(cs) : cs[k].t = "int"
ISort(cs) == SortSeq(cs, LAMBDA a, b : a.n < b.n)
OpSort(x) ==
  LET o == G(h, x)  cs == Cells(h, o)  sorted == ISort(cs)  what == Op("sort", o.kind, <<>>, x, 0, 0, 0, "", FALSE) IN
  /\ IsSeq(h, x) /\ AllInts(cs)
  /\ IF o.sealed
     THEN h' = DefMut(Alloc(h, o.kind, sorted, Len(sorted)), VRef(NewId(h)), what)
     ELSE h' = DefMut([h EXCEPT !.back[o.b] = [k \in 1..Len(@) |-> IF k > o.off /\ k <= o.off + o.len THEN sorted[k - o.off] ELSE @[k]]],
                      h.glob[x], what)
\* (apply (lambda (&rest xs) (stable-sort < xs)) L) and, with skip = 1, (apply (lambda (a &rest xs) (stable-sort < xs)) L):
\* the elements of L reach an in-place sort as the &rest list of a function - the arguments of a call are a list of
\* their own, so L (and whatever L is a view of) is NOT changed
OpApplySort(x, skip) ==
  /\ IsObj(h, x) /\ G(h, x).kind = "list" /\ AllInts(SeqCells(h, x)) /\ Len(SeqCells(h, x)) >= skip
  /\ LET cs == SeqCells(h, x)  rest == ISort(SubSeq(cs, skip + 1, Len(cs)))
         what == Op("applysort", "list", <<>>, x, 0, skip, 0, "", FALSE) IN
     IF Len(rest) = 0 THEN h' = DefNil(h, what)
     ELSE h' = Def(Alloc(h, "list", rest, Len(rest)), NewId(h), what)

\* -------------------------------------------------------------- sorted maps
\* keys are identified by NAME, given as string or as symbol; the spelling shown for a key becomes
\* "symbol" once it has been set through a symbol and stays so until the key is deleted
SetEnt(ents, k, v, sym) == [ents EXCEPT ![KeyIdx(k)] = [present |-> TRUE, v |-> v, sym |-> (sym \/ (@.present /\ @.sym))]]
DelEnt(ents, k) == [ents EXCEPT ![KeyIdx(k)] = NoEnt]
OpAssoc(x, k, sym, a) ==        \* (assoc M k v): a new map
  /\ (IsMap(h, x) \/ h.glob[x].t = "nil")
  /\ LET e0 == IF h.glob[x].t = "nil" THEN EmptyEnts ELSE G(h, x).ents IN
     h' = Def([h EXCEPT !.obj = Append(@, MapObj(SetEnt(e0, k, ValOf(a), sym)))], NewId(h), Op("assoc", "map", <<a>>, x, 0, 0, 0, k, sym))
OpAssocBang(x, k, sym, a) ==    \* (assoc! M k v): in place, returns M
  /\ IsMap(h, x)
  /\ h' = DefMut([h EXCEPT !.obj[h.glob[x].n].ents = SetEnt(@, k, ValOf(a), sym)], h.glob[x], Op("assoc!", "map", <<a>>, x, 0, 0, 0, k, sym))
OpDissoc(x, k, sym) ==
  /\ (IsMap(h, x) \/ h.glob[x].t = "nil")
  /\ LET e0 == IF h.glob[x].t = "nil" THEN EmptyEnts ELSE G(h, x).ents IN
     h' = Def([h EXCEPT !.obj = Append(@, MapObj(DelEnt(e0, k)))], NewId(h), Op("dissoc", "map", <<>>, x, 0, 0, 0, k, sym))
OpDissocBang(x, k, sym) ==
  /\ IsMap(h, x)
  /\ h' = DefMut([h EXCEPT !.obj[h.glob[x].n].ents = DelEnt(@, k)], h.glob[x], Op("dissoc!", "map", <<>>, x, 0, 0, 0, k, sym))
OpGet(x, k, sym) ==             \* (get M k): the stored value itself (a reference stays a reference)
  /\ IsMap(h, x)
  /\ LET e == G(h, x).ents[KeyIdx(k)] IN
     h' = DefVal(h, IF e.present THEN e.v ELSE VNil, Op("get", "map", <<>>, x, 0, 0, 0, k, sym))
OpKeys(x) ==                    \* (keys M): fresh list of key names in sort order (rendered as the count and order: ints 1..)
  /\ IsMap(h, x)
  /\ LET ks == SelectSeq([i \in 1..Len(KEYS) |-> i], LAMBDA i : G(h, x).ents[i].present)
         what == Op("keys", "list", <<>>, x, 0, 0, 0, "", FALSE) IN
     IF Len(ks) = 0 THEN h' = DefNil(h, what)
     ELSE h' = Def(Alloc(h, "list", [j \in 1..Len(ks) |-> VKey(ks[j])], Len(ks)), NewId(h), what)

\* --------------------------------------------------------------------- Next
ARGS == {<<>>, <<[t |-> "i", n |-> 0]>>, <<[t |-> "i", n |-> 8], [t |-> "i", n |-> 1]>>} \cup {<<[t |-> "g", n |-> g]>> : g \in 1..4}
ARG1 == {[t |-> "i", n |-> 0], [t |-> "i", n |-> 6]} \cup {[t |-> "g", n |-> g] : g \in 1..3}
KINDS == {"list", "vec"}
Next ==
  /\ Room
  /\ \/ \E k \in KINDS, is \in {<<>>, <<6>>, <<4, 3>>, <<9, 0, 5>>} : OpNew(k, is)
     \/ \E k \in KINDS, x \in 1..NG, y \in 1..NG : OpHold(k, x, y)
     \/ \E k \in KINDS, x \in 1..NG, i \in 0..2, j \in 0..4 : OpSlice(k, x, i, j)
     \/ \E nm \in {"cdr", "rest"}, x \in 1..NG : OpTail(nm, x)
     \/ \E k \in KINDS, x \in 1..NG, as \in ARGS : OpAppend(k, x, as)
     \/ \E k \in KINDS, x \in 1..NG, y \in 1..NG : OpConcat(k, x, y)
     \/ \E a \in ARG1, x \in 1..NG : OpCons(a, x)
     \/ \E k \in KINDS, x \in 1..NG : OpReverse(k, x)
     \/ \E k \in KINDS, x \in 1..NG, i \in 0..2, a \in ARG1 : OpInsert(k, x, i, a)
     \/ \E nm \in {"map", "select", "reject"}, k \in KINDS, x \in 1..NG : OpMapLike(nm, k, x)
     \/ \E x \in 1..NG, skip \in 0..1 : OpApplySort(x, skip)
     \/ \E k \in KINDS, x \in 1..NG, y \in 1..NG : OpZip(k, x, y)
     \/ \E k \in KINDS, x \in 1..NG, a \in ARG1 : OpInsertSorted(k, x, a)
     \/ \E x \in 1..NG, as \in ARGS : OpAppendBang(x, as)
     \/ \E x \in 1..NG : OpSort(x)
     \/ \E x \in 1..NG, k \in {"a", "b", "c"}, sym \in BOOLEAN, a \in ARG1 : OpAssoc(x, k, sym, a) \/ OpAssocBang(x, k, sym, a)
     \/ \E x \in 1..NG, k \in {"a", "b", "c"}, sym \in BOOLEAN : OpDissoc(x, k, sym) \/ OpDissocBang(x, k, sym) \/ OpGet(x, k, sym)
     \/ \E x \in 1..NG : OpKeys(x)
\* a completed history is printed by a step of its own, so that in simulation mode exactly the histories TLC
\* actually walked are printed (not every candidate successor of the last state)
Emit == /\ (EMIT = "all" \/ (EMIT = "mut" /\ h.lastmut)) /\ h.nops = MAXOPS /\ ~h.emitted
        /\ PrintT(ToJson([log |-> h.log]))
        /\ h' = [h EXCEPT !.emitted = TRUE]

Spec == Init /\ [][Next \/ Emit]_vars

\* ---------------------------------------------------------------- properties
\* operations not marked as mutating never change any value that existed before the call
NonMut == [][ (~h'.lastmut /\ h'.nops > h.nops) => \A g \in 1..Len(h.glob) : RenderVal(h', h'.glob[g], DEPTH) = RenderVal(h, h.glob[g], DEPTH) ]_vars
\* the parsed program's literal is never written, whatever is done to values obtained from it
ProgramFrozen == h.back[1] = <<VInt(3), VInt(1), VInt(2)>>
\* every window onto the program literal's storage is sealed (so the copy-on-write sites see it)
NoLaunder == \A i \in 1..Len(h.obj) : (h.obj[i].kind # "map" /\ h.obj[i].b = 1) => h.obj[i].sealed
\* windows stay inside their backing and never claim spare capacity beyond it
WellFormed == \A i \in 1..Len(h.obj) : h.obj[i].kind = "map" \/
                 (h.obj[i].off + h.obj[i].len <= Len(h.back[h.obj[i].b]) /\ h.obj[i].len <= h.obj[i].cap
                  /\ h.obj[i].off + h.obj[i].cap <= Len(h.back[h.obj[i].b]))
\* views never keep spare capacity: only a header that owns its backing (offset 0, allocated for it) may have room
NoSpareOnViews == \A i \in 1..Len(h.obj) : (h.obj[i].kind # "map" /\ h.obj[i].off > 0) => h.obj[i].cap = h.obj[i].len
=============================================================================
