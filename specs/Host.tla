-------------------------------- MODULE Host --------------------------------
(***************************************************************************)
(* Host: the boundary between an embedding host and the interpreter        *)
(* (property C03).  The host hands over a source text (or, for the builtin *)
(* matrix, one application of a registered callable to argument values)    *)
(* under configured limits, and waits.  What may come back:                *)
(*                                                                         *)
(*    value           an ordinary result                                   *)
(*    error           an ordinary condition (handler-bind can contain it)  *)
(*    internal-panic  a Go panic recovered by the evaluator: a host-code   *)
(*                    bug made visible - never allowed                     *)
(*    escaped         a Go panic that reached the host - never allowed     *)
(*    crash           the process died (stack exhaustion is a fatal        *)
(*                    runtime error no recover() can intercept) - never    *)
(*    wedge           no answer within the watchdog - never                *)
(*                                                                         *)
(* A hostile program is described by a recipe: a VEHICLE that produces     *)
(* unbounded work or recursion, or a self-containing / deeply nested SHAPE  *)
(* handed to a SINK that walks it; placed at an ENTRY point (top level,    *)
(* inside a function, inside a handler, at macro-expansion time, ...).     *)
(* TLC enumerates every recipe (MODE = "gen") and prints it with the set   *)
(* of outcomes the specification allows; the harness renders each recipe   *)
(* to source text, runs it in its own process and records what came back   *)
(* and how long it took.  In MODE = "trace" the recorded outcomes are      *)
(* validated: every record must be an outcome its recipe allows and must   *)
(* have come back within the deadline plus the slack a single builtin call *)
(* is granted (the context is polled between evaluation steps).            *)
(***************************************************************************)
EXTENDS Integers, Sequences, SequencesExt, FiniteSets, TLC, Json

CONSTANTS MODE,        \* "gen" | "trace"
          SLACK        \* ms a call may overrun its deadline

VEHICLES == {"rec-nontail", "rec-tail", "rec-mutual", "rec-funcall", "rec-apply", "rec-map", "rec-foldl",
             "rec-handler", "rec-macro-expansion", "rec-macro-nested", "rec-macro-body", "rec-load-string",
             "rec-eval", "rec-labels", "rec-self-apply", "rec-args", "rec-nested-args", "rec-nested-let", "rec-builtin-data", "rec-builtin-data-map", "rec-thread", "loop-dotimes", "loop-tail-growing",
             "sleep-long", "deep-form-eval", "deep-quasiquote"}
ENTRIES  == {"top", "function", "lambda-funcall", "handler-body", "handler", "ignore-errors", "macro-expansion",
             "load-string", "let-value", "argument", "apply-callback"}
SHAPES   == {"cyc-vec", "cyc-vec-wide", "cyc-map", "cyc-map-2keys", "cyc-mutual", "cyc-nested", "cyc-in-list", "cyc-tagged", "cyc-tagged-vec", "deep-vec", "deep-list", "dag", "cyc-rings"}
SINKS    == {"format-string", "to-string", "debug-print", "equal-self", "equal-copy", "json-dump-string", "json-dump-bytes",
             "json-dump-message", "path-get", "path-set", "path-del", "error-data", "map-key", "sort", "append-again",
             "string-concat", "schema-validate", "macro-argument", "macro-result", "macroexpand", "eval-form", "quasiquote-splice", "concat", "reverse", "equal-pair"}
\* entries at which a sink recipe is placed (the walk is the same Go code wherever it is called from; three suffice)
SINKENTRIES == {"top", "handler", "macro-expansion"}

\* a TRAVERSER (a builtin that walks a container while calling back into lisp) whose callback changes the very container
\* being walked: it shrinks, grows, empties or overwrites it between two steps of the walk
TRAVERSERS == {"map", "foldl", "foldr", "select", "reject", "any", "all", "stable-sort", "stable-sort-key", "insert-sorted",
               "insert-sorted-key", "zip-map", "dotimes-aref", "path-loop"}
MUTATIONS  == {"shrink", "shrink-many", "grow", "empty", "overwrite", "grow-then-shrink"}
MUTENTRIES == {"top", "handler"}

\* a value of EVERY size from 0 to 1100 (a byte string, a string, a list, a vector, a map, a byte string inside a map) handed
\* to a sink in one loop: a buffer that is one byte short at some sizes only answers internal-panic there
SWEEPSINKS == {"json-dump-bytes", "json-dump-string", "json-dump-message", "base64-encode", "to-string", "format-string", "concat-string", "to-bytes", "json-roundtrip", "equal"}
SWEEPSHAPES == {"bytes", "string", "list", "vector", "map", "bytes-in-map", "string-in-list"}

Recipes == [kind : {"vehicle"}, what : VEHICLES, shape : {"-"}, entry : ENTRIES]
           \cup [kind : {"sweep"}, what : SWEEPSINKS, shape : SWEEPSHAPES, entry : {"top"}]
           \cup [kind : {"sink"}, what : SINKS, shape : SHAPES, entry : SINKENTRIES]
           \cup [kind : {"mutcb"}, what : TRAVERSERS, shape : MUTATIONS, entry : MUTENTRIES]

\* a vehicle never terminates by itself: only a limit can end it, so the answer is an error - unless the entry point
\* swallows errors (ignore-errors) or the recipe is a bounded walk
Swallows(r) == r.entry = "ignore-errors"
Allowed(r) == IF r.kind = "vehicle" /\ ~Swallows(r) /\ r.what \notin {"deep-form-eval", "deep-quasiquote"}
              THEN {"error"} ELSE {"value", "error"}

OUTCOMES == {"value", "error", "internal-panic", "escaped", "crash", "wedge"}

-----------------------------------------------------------------------------
VARIABLES cur, phase, l
vars == <<cur, phase, l>>

Trace == IF MODE = "trace" THEN ndJsonDeserialize("hosttrace.ndjson") ELSE <<>>

GenInit == cur \in Recipes /\ phase = "handed" /\ l = 0
GenEmit == /\ phase = "handed" /\ phase' = "printed" /\ UNCHANGED <<cur, l>>
           /\ PrintT(ToJson([kind |-> cur.kind, what |-> cur.what, shape |-> cur.shape, entry |-> cur.entry,
                             allowed |-> SetToSeq(Allowed(cur))]))

\* trace mode: one record per hand-over
\*   [ev |-> "recipe", kind, what, shape, entry, outcome, ms, deadline]
\*   [ev |-> "read",   outcome, ms]                      reading alone, no limits: value or error
\*   [ev |-> "calls",  name, calls, values, errors, bad] a batch of applications of one callable
TraceInit == cur = [kind |-> "-"] /\ phase = "idle" /\ l = 1
Rec == Trace[l]
RecipeStep == /\ Rec.ev = "recipe"
              /\ LET r == [kind |-> Rec.kind, what |-> Rec.what, shape |-> Rec.shape, entry |-> Rec.entry] IN
                 /\ r \in Recipes
                 /\ Rec.outcome \in Allowed(r)
                 /\ Rec.ms <= Rec.deadline + SLACK
ReadStep == Rec.ev = "read" /\ Rec.outcome \in {"value", "error"} /\ Rec.ms <= SLACK * 10
CallsStep == Rec.ev = "calls" /\ Rec.bad = 0 /\ Rec.calls = Rec.values + Rec.errors /\ Rec.calls > 0
TraceStep == /\ l <= Len(Trace) /\ (RecipeStep \/ ReadStep \/ CallsStep)
             /\ l' = l + 1 /\ UNCHANGED <<cur, phase>>
             /\ TLCSet(1, l)

Init == IF MODE = "gen" THEN GenInit ELSE TraceInit
Next == IF MODE = "gen" THEN GenEmit \/ (phase = "printed" /\ UNCHANGED vars)
                        ELSE TraceStep \/ (l > Len(Trace) /\ UNCHANGED vars)
Spec == Init /\ [][Next]_vars

\* acceptance: every record was consumed
Accepted == MODE = "trace" => TLCGet(1) = Len(Trace)
=============================================================================
