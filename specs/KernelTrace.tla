---------------------------- MODULE KernelTrace ----------------------------
(***************************************************************************)
(* Trace specification (binding B2): validates event streams recorded from *)
(* the REAL interpreter (build tag `verif`, hooks at the linearization     *)
(* points listed in DESIGN.md 2.3) against the Kernel's control            *)
(* discipline: frames and their Terminal / TROBlock flags, the             *)
(* tail-recursion mark protocol, evaluator nesting, entry depth, the step  *)
(* counter, the condition stack and the package save/restore discipline.   *)
(*                                                                         *)
(* One event = one action.  Every action binds the logged scalar state     *)
(* (height after the change, counter values, flags) to the specification's *)
(* copy, so a hook that fires in a state the discipline forbids, or a      *)
(* missing / extra state change in the code, makes the trace unexplainable *)
(* and it is rejected at that event.                                       *)
(*                                                                         *)
(* K4 (C04): a step charged beyond the configured budget fails, so the     *)
(* only events that may follow it are the unwinding ones (nest-, pop).     *)
(*                                                                         *)
(* Silent steps: IterDone (the step charged for a tail iteration follows    *)
(* the `iter` event; after it the mark is consumed) and IterAbort (the     *)
(* iteration failed a tail / logical-height limit: the mark is dropped     *)
(* with an error).  Acceptance is therefore by high-water mark of `l`      *)
(* (register 1), not by diameter.                                          *)
(***************************************************************************)
EXTENDS Integers, Sequences, TLC, Json

Trace == ndJsonDeserialize("trace.ndjson")
N == Len(Trace)

VARIABLES frames,   \* Seq([fid, kind, term, tro, iters])
          nest,     \* evaluator nesting (LEnv.eval recursion depth)
          depth,    \* entry depth (beginEval / endEval)
          steps,    \* Runtime.steps
          conds,    \* Len(conditionStack)
          mark,     \* pending tail-recursion mark, rem = -1 when none
          pkgs,     \* stack of packages saved by call()'s swap
          bpk,      \* stack of current-package names at each load's begin
          cfg,      \* limits of the runtime under trace (from cfg events)
          failed,   \* the last step was charged beyond the budget: the evaluator may only unwind
          l         \* position in Trace
vars == <<frames, nest, depth, steps, conds, mark, pkgs, bpk, cfg, failed, l>>

NoMark == [rem |-> -1, fid |-> ""]
Top(s) == s[Len(s)]
Pop(s) == SubSeq(s, 1, Len(s) - 1)
SetTop(s, x) == [s EXCEPT ![Len(s)] = x]
Max(a, b) == IF a > b THEN a ELSE b

NoCfg == [maxphys |-> 0, maxlog |-> 0, maxtail |-> 0, maxnest |-> 0, maxsteps |-> 0, trooff |-> 0]

RECURSIVE Chain(_, _, _)
Chain(fs, i, fid) ==
  IF i = 0 THEN 0 ELSE IF ~fs[i].term THEN 0 ELSE IF fs[i].tro THEN -1
  ELSE IF fs[i].fid = fid THEN Len(fs) - i + 1 ELSE Chain(fs, i - 1, fid)
TerminalFID(fs, fid) == Chain(fs, Len(fs), fid)

Init == /\ frames = <<>> /\ nest = 0 /\ depth = 0 /\ steps = 0 /\ conds = 0
        /\ mark = NoMark /\ pkgs = <<>> /\ bpk = <<>> /\ cfg = NoCfg /\ failed = FALSE /\ l = 1
        /\ TLCSet(1, 1)

E == Trace[l]
Is(e) == l <= N /\ E.ev = e /\ l' = l + 1
Pending == mark.rem >= 0
Quiet == ~Pending          \* while a mark travels up, the evaluator only unwinds
AtRest == frames = <<>> /\ nest = 0 /\ depth = 0 /\ conds = 0 /\ ~Pending /\ pkgs = <<>> /\ bpk = <<>>

\* ---- a new runtime starts (previous one must have been left clean: C05) ----
Reset == /\ ~failed /\ UNCHANGED failed /\ Is("reset") /\ AtRest
         /\ steps' = 0 /\ cfg' = NoCfg
         /\ UNCHANGED <<frames, nest, depth, conds, mark, pkgs, bpk>>
Cfg == /\ ~failed /\ UNCHANGED failed /\ Is("cfg") /\ AtRest
       /\ cfg' = [cfg EXCEPT ![E.x] = E.a]
       /\ UNCHANGED <<frames, nest, depth, steps, conds, mark, pkgs, bpk>>

\* ---- entry points ----
Begin == /\ ~failed /\ UNCHANGED failed /\ Is("begin") /\ Quiet /\ depth' = depth + 1 /\ E.a = depth'
         /\ steps' = IF depth' = 1 THEN 0 ELSE steps          \* budget refilled only at the outermost entry (C04)
         /\ bpk' = Append(bpk, E.x)
         /\ UNCHANGED <<frames, nest, conds, mark, pkgs, cfg>>
End == /\ ~failed /\ UNCHANGED failed /\ Is("end") /\ depth > 0 /\ depth' = depth - 1 /\ E.a = depth'
       /\ bpk' = Pop(bpk)
       \* K10 CleanAtRest (C05): nothing of the evaluation survives its outermost exit
       /\ (depth' = 0 => (frames = <<>> /\ nest = 0 /\ conds = 0 /\ ~Pending /\ pkgs = <<>>))
       /\ UNCHANGED <<frames, nest, steps, conds, mark, pkgs, cfg>>

\* ---- evaluator nesting (K2) ----
NestUp == /\ ~failed /\ UNCHANGED failed /\ Is("nest+") /\ Quiet /\ nest' = nest + 1 /\ E.a = nest'
          /\ (cfg.maxnest > 0 => nest' <= cfg.maxnest + 1)
          /\ UNCHANGED <<frames, depth, steps, conds, mark, pkgs, bpk, cfg>>
NestDown == /\ failed' = FALSE /\ Is("nest-") /\ nest > 0 /\ nest' = nest - 1 /\ E.a = nest'
            /\ UNCHANGED <<frames, depth, steps, conds, mark, pkgs, bpk, cfg>>

\* ---- step charge (K3): +1 exactly; with a mark in hand only the tail-iteration charge may happen ----
Step == /\ ~failed /\ failed' = (cfg.maxsteps > 0 /\ steps + 1 > cfg.maxsteps)
        /\ Is("step") /\ steps' = steps + 1 /\ E.a = steps' /\ depth > 0
        /\ (Pending => (mark.rem = 0 /\ Trace[l-1].ev = "iter"))
        /\ UNCHANGED <<frames, nest, depth, conds, mark, pkgs, bpk, cfg>>

\* ---- frames (K1, K11) ----
Push == /\ ~failed /\ UNCHANGED failed /\ Is("push") /\ Quiet /\ E.h = Len(frames) + 1
        /\ (cfg.maxphys > 0 => Len(frames) < cfg.maxphys)
        /\ frames' = Append(frames, [fid |-> E.x, kind |-> E.y, term |-> FALSE, tro |-> FALSE, iters |-> 0])
        /\ UNCHANGED <<nest, depth, steps, conds, mark, pkgs, bpk, cfg>>
PopF == /\ failed' = FALSE /\ Is("pop") /\ Len(frames) > 0 /\ Top(frames).fid = E.x /\ E.h = Len(frames) - 1
        /\ frames' = Pop(frames)
        /\ UNCHANGED <<nest, depth, steps, conds, mark, pkgs, bpk, cfg>>

\* ---- Terminal flag writers ----
\* cells: evalSExprCells clears the flag while head/arguments are evaluated and restores it (deferred);
\* body / builtin / funcall: the frame enters its terminal state (never with a mark in hand).
Term == /\ ~failed /\ UNCHANGED failed /\ Is("term") /\ Len(frames) > 0
        /\ IF E.y = "cells" THEN Top(frames).term = (E.a = 0)
                            ELSE (E.a = 1 /\ Quiet)
        /\ frames' = SetTop(frames, [Top(frames) EXCEPT !.term = (E.a = 1)])
        /\ UNCHANGED <<nest, depth, steps, conds, mark, pkgs, bpk, cfg>>
Tro == /\ ~failed /\ UNCHANGED failed /\ Is("tro") /\ Quiet /\ Len(frames) > 0
       /\ frames' = SetTop(frames, [Top(frames) EXCEPT !.tro = TRUE])
       /\ UNCHANGED <<nest, depth, steps, conds, mark, pkgs, bpk, cfg>>

\* ---- tail-recursion marks (K6, K7, K8) ----
\* funCall found a terminal chain ending in its own fid: the frame just pushed is
\* the callee's, the chain below it has E.a frames, none of them blocked.
MarkEv == /\ ~failed /\ UNCHANGED failed /\ Is("mark") /\ Quiet /\ Len(frames) > 1 /\ cfg.trooff = 0
          /\ Top(frames).fid = E.x /\ Top(frames).kind = "fun"
          /\ TerminalFID(Pop(frames), E.x) = E.a /\ E.a > 0
          /\ mark' = [rem |-> E.a, fid |-> E.x]
          /\ UNCHANGED <<frames, nest, depth, steps, conds, pkgs, bpk, cfg>>
\* a frame receives the mark from its tail child and counts it down; a frame
\* that is not terminal, or is blocked, must never see one (K7/K8)
Dec == /\ ~failed /\ UNCHANGED failed /\ Is("dec") /\ Pending /\ mark.rem > 0 /\ E.a = mark.rem - 1
       /\ Len(frames) > 0 /\ Top(frames).term /\ ~Top(frames).tro
       /\ Top(frames).kind = E.y
       /\ (E.a = 0 => (Top(frames).fid = mark.fid /\ Top(frames).kind = "fun"))
       /\ mark' = [mark EXCEPT !.rem = E.a]
       /\ UNCHANGED <<frames, nest, depth, steps, conds, pkgs, bpk, cfg>>
\* the mark reached its target: the frame is reused for the next iteration and
\* leaves its terminal state (E.y = "f": the flag the code holds after the reuse)
Iter == /\ ~failed /\ UNCHANGED failed /\ Is("iter") /\ Pending /\ mark.rem = 0 /\ Top(frames).fid = mark.fid
        /\ E.a = Top(frames).iters + 1
        /\ E.y = "f"
        /\ frames' = SetTop(frames, [Top(frames) EXCEPT !.iters = E.a, !.term = FALSE])
        /\ UNCHANGED <<nest, depth, steps, conds, mark, pkgs, bpk, cfg>>
\* silent: the iteration's step was charged (successfully or not); the mark is consumed
IterDone == /\ UNCHANGED failed /\ Pending /\ mark.rem = 0 /\ l > 1 /\ l <= N + 1 /\ Trace[l-1].ev = "step"
            /\ mark' = NoMark /\ UNCHANGED <<frames, nest, depth, steps, conds, pkgs, bpk, cfg, l>>
\* silent: the iteration failed the tail-iteration / logical-height bound (K9): only then
\* may a mark disappear without its step
IterAbort == /\ ~failed /\ UNCHANGED failed /\ Pending /\ mark.rem = 0 /\ l > 1 /\ l <= N + 1 /\ Trace[l-1].ev = "iter"
             /\ \/ (cfg.maxtail > 0 /\ Top(frames).iters > cfg.maxtail)
                \/ (cfg.maxlog > 0 /\ Trace[l-1].b > cfg.maxlog)
             /\ mark' = NoMark /\ UNCHANGED <<frames, nest, depth, steps, conds, pkgs, bpk, cfg, l>>

\* ---- macro re-expansion ----
Mexp == /\ ~failed /\ UNCHANGED failed /\ Is("mexp") /\ Quiet /\ E.a >= 1
        /\ UNCHANGED <<frames, nest, depth, steps, conds, mark, pkgs, bpk, cfg>>

\* ---- condition stack (K12) ----
CPush == /\ ~failed /\ UNCHANGED failed /\ Is("cpush") /\ Quiet /\ conds' = conds + 1 /\ E.a = conds'
         /\ UNCHANGED <<frames, nest, depth, steps, mark, pkgs, bpk, cfg>>
CPop == /\ ~failed /\ UNCHANGED failed /\ Is("cpop") /\ conds > 0 /\ conds' = conds - 1 /\ E.a = conds'
        /\ UNCHANGED <<frames, nest, depth, steps, mark, pkgs, bpk, cfg>>

\* ---- package swap / restore ----
PkgSwap == /\ ~failed /\ UNCHANGED failed /\ Is("pkg") /\ E.a = 0 /\ Quiet
           /\ pkgs' = Append(pkgs, E.x)
           /\ UNCHANGED <<frames, nest, depth, steps, conds, mark, bpk, cfg>>
PkgRestore == /\ ~failed /\ UNCHANGED failed /\ Is("pkg") /\ E.a = 1 /\ Len(pkgs) > 0 /\ Top(pkgs) = E.y
              /\ pkgs' = Pop(pkgs)
              /\ UNCHANGED <<frames, nest, depth, steps, conds, mark, bpk, cfg>>
\* load's deferred restore: the package current when this load began
PkgLoadRestore == /\ ~failed /\ UNCHANGED failed /\ Is("pkg") /\ E.a = 2 /\ Len(bpk) > 0 /\ Top(bpk) = E.y
                  /\ UNCHANGED <<frames, nest, depth, steps, conds, mark, pkgs, bpk, cfg>>

\* ---- recovered Go panic (host builtin `boom` of the test programs) ----
Panic == /\ ~failed /\ UNCHANGED failed /\ Is("panic") /\ UNCHANGED <<frames, nest, depth, steps, conds, mark, pkgs, bpk, cfg>>

Next == \/ Reset \/ Cfg \/ Begin \/ End \/ NestUp \/ NestDown \/ Step \/ Push \/ PopF \/ Term \/ Tro
        \/ MarkEv \/ Dec \/ Iter \/ IterDone \/ IterAbort \/ Mexp \/ CPush \/ CPop
        \/ PkgSwap \/ PkgRestore \/ PkgLoadRestore \/ Panic
Spec == Init /\ [][Next]_vars

\* ---- invariants evaluated at every step of every real execution ----
K1 == cfg.maxphys > 0 => Len(frames) <= cfg.maxphys
K5 == \A i \in 1..Len(frames) : ~(frames[i].term /\ frames[i].tro)
K9 == \A i \in 1..Len(frames) : (cfg.maxtail > 0 => frames[i].iters <= cfg.maxtail + 1)
KMark == Pending => (mark.rem <= Len(frames))

\* ---- acceptance: the whole trace was consumed (high-water mark of l) ----
HighWater == TLCSet(1, Max(TLCGet(1), l))
Accepted == IF TLCGet(1) = N + 1 THEN TRUE
            ELSE PrintT(<<"REJECTED-AT", TLCGet(1)>>) /\ FALSE
=============================================================================
