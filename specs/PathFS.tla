------------------------------- MODULE PathFS -------------------------------
(***************************************************************************)
(* PathFS: a directory tree with symbolic links and the confinement rule   *)
(* of source loading (property C20).                                       *)
(*                                                                         *)
(* The file system is a finite map from absolute paths (sequences of       *)
(* components) to nodes: directories, files carrying a marker, symbolic    *)
(* links carrying a target (absolute or relative component sequence).      *)
(*                                                                         *)
(*   Clean(p)     lexical normalisation (filepath.Clean): "." dropped,     *)
(*                "x/.." cancelled, ".." kept only at the front of a       *)
(*                relative path, dropped at the root of an absolute one.   *)
(*   Real(p)      component-wise resolution with link expansion            *)
(*                (filepath.EvalSymlinks): physical "..", dangling or      *)
(*                cyclic links and non-directories in the middle fail.     *)
(*   Expected(root, ctx, loc)                                              *)
(*                what the RootDir library is allowed to answer: the       *)
(*                location is joined with the directory of the loading     *)
(*                file (unless absolute), cleaned, resolved; the file's    *)
(*                marker is served iff the resolved path lies inside the   *)
(*                resolved root (component-wise prefix), otherwise the     *)
(*                request is refused; the content served is the content    *)
(*                at the RESOLVED path.                                    *)
(*   ExpectedFS(ctx, loc)  the fs.FS-backed library: joined, cleaned,      *)
(*                unrooted; served iff the result is a valid fs path (no   *)
(*                ".." element) naming a file of the file system.          *)
(*                                                                         *)
(* TLC enumerates every location of up to MAXC components over COMPS x     *)
(* every prefix x every loading context x every root spelling; one state   *)
(* per case.  Cases the specification serves are printed with their        *)
(* marker; the harness enumerates the same space on a real tree and the    *)
(* two served maps must be equal (binding B1).                             *)
(***************************************************************************)
EXTENDS Integers, Sequences, FiniteSets, TLC, Json

CONSTANTS MAXC        \* maximum number of components of a location

W == <<"W">>
Dir == [k |-> "dir", t |-> <<>>, abs |-> FALSE, m |-> ""]
File(m) == [k |-> "file", t |-> <<>>, abs |-> FALSE, m |-> m]
LinkRel(t) == [k |-> "link", t |-> t, abs |-> FALSE, m |-> ""]
LinkAbs(t) == [k |-> "link", t |-> t, abs |-> TRUE, m |-> ""]

\* the layout (the harness creates exactly this tree)
FS == (<<"W">> :> Dir) @@
      (<<"W", "root">> :> Dir) @@
      (<<"W", "root", "a.lisp">> :> File("in-a")) @@
      (<<"W", "root", "main.lisp">> :> File("in-main")) @@
      (<<"W", "root", "sub">> :> Dir) @@
      (<<"W", "root", "sub", "b.lisp">> :> File("in-b")) @@
      (<<"W", "root", "sub", "x.lisp">> :> File("in-x")) @@
      (<<"W", "root", "lf_in">> :> LinkRel(<<"a.lisp">>)) @@
      (<<"W", "root", "lf_out">> :> LinkRel(<<"..", "out", "secret.lisp">>)) @@
      (<<"W", "root", "ld_out">> :> LinkAbs(<<"W", "out">>)) @@
      (<<"W", "root", "ld_in">> :> LinkRel(<<"sub">>)) @@
      (<<"W", "root", "sub", "up">> :> LinkRel(<<"..">>)) @@
      (<<"W", "root", "ld_parent">> :> LinkRel(<<"..">>)) @@
      (<<"W", "root", "dangling">> :> LinkRel(<<"nowhere">>)) @@
      (<<"W", "root", "loop">> :> LinkRel(<<"loop">>)) @@
      (<<"W", "root2">> :> Dir) @@
      (<<"W", "root2", "c.lisp">> :> File("out-c")) @@
      (<<"W", "out">> :> Dir) @@
      (<<"W", "out", "secret.lisp">> :> File("out-secret")) @@
      \* decoys: files OUTSIDE the root that carry the names of files inside it, where an un-cleaned path would land
      \* (root/ld_out/../a.lisp is root/a.lisp lexically, W/a.lisp for the kernel)
      (<<"W", "a.lisp">> :> File("out-wa")) @@
      (<<"W", "out", "a.lisp">> :> File("out-oa")) @@
      (<<"W", "out", "b.lisp">> :> File("out-ob")) @@
      (<<"W", "out", "back">> :> LinkAbs(<<"W", "root">>)) @@
      (<<"W", "rootlink">> :> LinkRel(<<"root">>))

COMPS == {".", "..", "a.lisp", "sub", "b.lisp", "lf_in", "lf_out", "ld_out", "ld_in", "up", "ld_parent",
          "secret.lisp", "c.lisp", "root2", "out", "back", "dangling", "loop", "root"}
\* prefixes of a location: relative, or an absolute directory
PREFIXES == {"rel", "abs-root", "abs-W", "abs-root2", "abs-out", "abs-rootlink"}
PrefixPath(p) == CASE p = "abs-root" -> <<"W", "root">> [] p = "abs-W" -> <<"W">> [] p = "abs-root2" -> <<"W", "root2">>
                   [] p = "abs-out" -> <<"W", "out">> [] p = "abs-rootlink" -> <<"W", "rootlink">> [] OTHER -> <<>>
\* loading-file contexts: none (relative locations then resolve against the working directory CWD)
CONTEXTS == {"none", "main", "subx"}
CtxDir(c) == CASE c = "main" -> <<"W", "root">> [] c = "subx" -> <<"W", "root", "sub">> [] OTHER -> <<"W", "root", "sub">>   \* CWD
ROOTS == {"root", "rootlink"}
RootPath(r) == IF r = "root" THEN <<"W", "root">> ELSE <<"W", "rootlink">>

Top(s) == s[Len(s)]
Pop(s) == SubSeq(s, 1, Len(s) - 1)
Rest(s) == SubSeq(s, 2, Len(s))
IsPrefixSeq(a, b) == Len(a) <= Len(b) /\ SubSeq(b, 1, Len(a)) = a

\* ---- lexical clean of an absolute path (every path is made absolute by the join first)
RECURSIVE CleanAbs(_, _)
CleanAbs(todo, acc) ==
  IF Len(todo) = 0 THEN acc
  ELSE LET x == todo[1] IN
       IF x = "." THEN CleanAbs(Rest(todo), acc)
       ELSE IF x = ".." THEN CleanAbs(Rest(todo), IF Len(acc) = 0 THEN acc ELSE Pop(acc))
       ELSE CleanAbs(Rest(todo), Append(acc, x))

\* ---- resolution with link expansion; result [ok, p]
RECURSIVE Resolve(_, _, _)
Resolve(cur, todo, fuel) ==
  IF fuel = 0 THEN [ok |-> FALSE, p |-> <<>>]
  ELSE IF Len(todo) = 0 THEN [ok |-> TRUE, p |-> cur]
  ELSE LET x == todo[1]  rest == Rest(todo) IN
       IF x = "." THEN Resolve(cur, rest, fuel)
       ELSE IF x = ".." THEN Resolve(IF Len(cur) = 0 THEN cur ELSE Pop(cur), rest, fuel)
       ELSE LET q == Append(cur, x) IN
            IF q \notin DOMAIN FS THEN [ok |-> FALSE, p |-> <<>>]
            ELSE LET n == FS[q] IN
                 IF n.k = "link" THEN Resolve(IF n.abs THEN <<>> ELSE cur, n.t \o rest, fuel - 1)
                 ELSE IF n.k = "file" /\ Len(rest) > 0 THEN [ok |-> FALSE, p |-> <<>>]
                 ELSE Resolve(q, rest, fuel)
Real(p) == Resolve(<<>>, p, 12)

\* ---- the RootDir library
Joined(prefix, ctx, comps) == IF prefix = "rel" THEN CtxDir(ctx) \o comps ELSE PrefixPath(prefix) \o comps
Expected(root, prefix, ctx, comps) ==
  LET loc == CleanAbs(Joined(prefix, ctx, comps), <<>>)
      rr  == Real(RootPath(root))
      rl  == Real(loc) IN
  IF ~rr.ok \/ ~rl.ok THEN "refused"
  ELSE IF ~IsPrefixSeq(rr.p, rl.p) THEN "refused"
  ELSE IF FS[rl.p].k # "file" THEN "refused"            \* a directory cannot be read as source
  ELSE FS[rl.p].m

\* confinement itself, as an invariant of every case: whatever is served lies inside the resolved root
Confined(root, prefix, ctx, comps) ==
  LET e == Expected(root, prefix, ctx, comps) IN
  e = "refused" \/ e \in {"in-a", "in-b", "in-x", "in-main"}

\* ---- the fs.FS library over the files inside root (no links followed: an in-memory file system)
\* location joined with the directory of the loading file *inside the file system*, cleaned, unrooted
FSFiles == {<<"a.lisp">>, <<"main.lisp">>, <<"sub", "b.lisp">>, <<"sub", "x.lisp">>}
FSMarker(p) == FS[<<"W", "root">> \o p].m
RECURSIVE CleanRel(_, _)
CleanRel(todo, acc) ==          \* filepath.Clean of a relative path: leading ".." are kept
  IF Len(todo) = 0 THEN acc
  ELSE LET x == todo[1] IN
       IF x = "." THEN CleanRel(Rest(todo), acc)
       ELSE IF x = ".." THEN CleanRel(Rest(todo), IF Len(acc) = 0 \/ Top(acc) = ".." THEN Append(acc, "..") ELSE Pop(acc))
       ELSE CleanRel(Rest(todo), Append(acc, x))
FSCtxDir(c) == IF c = "subx" THEN <<"sub">> ELSE <<>>
ExpectedFS(prefix, ctx, comps) ==
  \* an "absolute" location is joined like any other and its leading slash stripped
  LET joined == FSCtxDir(ctx) \o (IF prefix = "rel" THEN comps ELSE PrefixPath(prefix) \o comps)
      cl == IF prefix = "rel" \/ Len(FSCtxDir(ctx)) > 0 THEN CleanRel(joined, <<>>) ELSE CleanAbs(joined, <<>>) IN
  IF Len(cl) > 0 /\ cl[1] = ".." THEN "refused"
  ELSE IF cl \in FSFiles THEN FSMarker(cl) ELSE "refused"

\* ---- enumeration: one state per case
RECURSIVE SeqsUpTo(_)
SeqsUpTo(n) == IF n = 0 THEN {<<>>} ELSE LET S == SeqsUpTo(n - 1) IN S \cup {Append(s, c) : s \in {t \in S : Len(t) = n - 1}, c \in COMPS}

VARIABLES case, done
vars == <<case, done>>
Cases == [lib : {"root"}, root : ROOTS, prefix : PREFIXES, ctx : CONTEXTS, comps : SeqsUpTo(MAXC) \ {<<>>}]
         \cup [lib : {"fs"}, root : {"root"}, prefix : {"rel", "abs-root", "abs-W"}, ctx : CONTEXTS, comps : SeqsUpTo(MAXC) \ {<<>>}]
Init == case \in Cases /\ done = FALSE
Answer(c) == IF c.lib = "root" THEN Expected(c.root, c.prefix, c.ctx, c.comps) ELSE ExpectedFS(c.prefix, c.ctx, c.comps)
Emit == /\ ~done /\ done' = TRUE /\ UNCHANGED case
        /\ (Answer(case) # "refused" => PrintT(ToJson([lib |-> case.lib, root |-> case.root, prefix |-> case.prefix, ctx |-> case.ctx,
                                                        comps |-> case.comps, marker |-> Answer(case)])))
Next == Emit \/ (done /\ UNCHANGED vars)
Spec == Init /\ [][Next]_vars

\* nothing outside the root is ever served, by either library
NoEscape == Answer(case) \in {"refused", "in-a", "in-b", "in-x", "in-main"}
=============================================================================
