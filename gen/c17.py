"""C17  Minification preserves program meaning.

Minify.tla decides, from the expression trees of source and minified output and the reported symbol map, the
structural relation (InverseOK: the map inverts every rename and nothing else changed; keywords, qualified
references, quoted data and excluded names keep their spelling; the map is injective) - binding B3.  Meaning
preservation is decided on the real interpreter: the original session and the minified session are evaluated
in fresh runtimes and value, stderr, effect transcript and error condition compared; minifying twice must give
identical bytes and map.  Programs: the Machine's shape family (macros with templates, handlers, shadowing
wrappers), the C01 scope family (every nesting of binders), multi-package sessions (exports used across
packages), two-file sessions; options: default, --preserve-params=false, --rename-exports, exclusions.
"""
import random, json, itertools
from vlib import *
import progs as P, mach, c01, c12
from progs import S, Q, STR


def export_form(rnd, names, style):
    if style == "sym":
        return [[S("export")] + [Q(S(n)) for n in names]]
    if style == "each":
        return [[S("export"), Q(S(n))] for n in names]
    if style == "quoteform":
        return [[S("export")] + [[S("quote"), S(n)] for n in names]]
    if style == "string":
        return [[S("export")] + [STR(n) for n in names]]
    if style == "list":
        return [[S("export"), Q([S(n) for n in names])]]
    raise ValueError(style)


EXPORT_STYLES = ["sym", "each", "quoteform", "string", "list"]


def multi_package(rnd, feats=None):
    """a session spanning packages: a library package exporting functions, a macro and a variable; a user package
    using it through use-package and through qualified references.  Every feature is drawn independently."""
    f = feats or {}
    pick = lambda k, opts: f[k] if k in f else rnd.choice(opts)
    k = rnd.randrange(1000)
    style = pick("style", EXPORT_STYLES)
    before = pick("before", [False, True])
    template = pick("template", [False, True])
    expvar = pick("expvar", [False, True])
    qualified_api = pick("qualified_api", [False, True])
    same_name = pick("same_name", [False, True])          # the user package defines its own helper
    local_shadow = pick("local_shadow", [False, True])    # a local function named like the export
    setfun = pick("setfun", [False, True])                # an exported function defined by set + lambda
    names = ["api"] + (["with-api"] if template else []) + (["lib-counter"] if expvar else []) + (["twice"] if setfun else [])
    exports = export_form(rnd, names, style)
    lib = [[S("in-package"), Q(S("lib"))]]
    if before:
        lib += exports
    lib += [[S("set"), Q(S("lib-counter")), 0],
            [S("defun"), S("helper"), [S("val")], [S("let"), [[S("tmp"), [S("+"), S("val"), 1]]], [S("set!"), S("lib-counter"), [S("+"), S("lib-counter"), 1]], S("tmp")]],
            [S("defun"), S("api"), [S("arg"), S("&optional"), S("extra")], [S("list"), [S("helper"), S("arg")], [S("or"), S("extra"), Q(S("none"))]]]]
    if template:
        lib.append([S("defmacro"), S("with-api"), [S("form")], [S("quasiquote"), [S("api"), [S("unquote"), S("form")]]]])
    if setfun:
        lib.append([S("set"), Q(S("twice")), [S("lambda"), [S("num")], [S("*"), 2, S("num")]]])
    if local_shadow:
        lib.append([S("defun"), S("inner"), [S("v")], [S("flet"), [[S("api"), [S("w")], [S("list"), Q(S("local-api")), S("w")]]], [S("api"), S("v")]]])
    if not before:
        lib += exports
    user = [[S("in-package"), Q(S("user"))]]
    apiref = S("lib:api") if qualified_api else S("api")
    if not qualified_api or template or expvar or setfun:
        user.append([S("use-package"), Q(S("lib"))])
    if same_name:
        user.append([S("defun"), S("helper"), [S("val")], [S("list"), Q(S("user-helper")), S("val")]])
        user.append([S("probe"), Q(S("own-helper")), [S("helper"), 5]])
    user += [[S("defun"), S("client"), [S("input")], [S("let"), [[S("local"), [apiref, S("input"), k]]], [S("probe"), Q(S("client")), S("local")], S("local")]],
             [S("probe"), Q(S("direct")), [apiref, 1]],
             [S("probe"), Q(S("qualified")), [S("lib:helper"), 2]],
             [S("probe"), Q(S("via-client")), [S("client"), 3]],
             [S("probe"), Q(S("counter")), S("lib:lib-counter")]]
    if expvar:
        user.append([S("probe"), Q(S("counter-unqualified")), S("lib-counter")])
    if template:
        user.append([S("probe"), Q(S("macro")), [S("with-api"), [S("+"), 1, 2]]])
    if setfun:
        user.append([S("probe"), Q(S("setfun")), [S("twice"), 4]])
    if local_shadow:
        user.append([S("probe"), Q(S("shadow")), [S("lib:inner"), 6]])
    if rnd.random() < 0.5:
        user.append([S("probe"), Q(S("kw")), [[S("lambda"), [S("&key"), S("alpha"), S("beta")], [S("list"), S("alpha"), S("beta")]], S(":beta"), 2]])
    feats_used = {"style": style, "before": before, "template": template, "expvar": expvar, "qualified_api": qualified_api,
                  "same_name": same_name, "local_shadow": local_shadow, "setfun": setfun}
    return lib, user, feats_used


def xnames_program(rnd):
    """identifiers that look like the minifier's own generated names (x1, x2, ...) used for things it keeps: parameters,
    top-level set variables, exports, quoted data, keyword-bound names"""
    n = lambda: "x%d" % rnd.randrange(1, 6)
    a, b, c, d = n(), n(), n(), n()
    forms = [[S("set"), Q(S(a)), 5],
             [S("defun"), S("f"), [S(b)], [S("let"), [[S("y"), 2], [S("z"), 3]], [S("list"), S(b), S("y"), S("z"), S(a)]]],
             [S("defun"), S("g"), [S("p"), S("&optional"), S(c)], [S("flet"), [[S("h"), [S("q")], [S("list"), S("q"), S(c)]]], [S("h"), S("p")]]],
             [S("defun"), S(d + "-fn"), [], Q([S(a), S(b), S("x1")])],
             [S("probe"), Q(S("f")), [S("f"), 10]], [S("probe"), Q(S("g")), [S("g"), 1, 2]], [S("probe"), Q(S("data")), [S(d + "-fn")]],
             [S("probe"), Q(S("var")), S(a)]]
    if rnd.random() < 0.5:
        forms = [[S("in-package"), Q(S("lib"))], [S("defun"), S("x1"), [], 7], [S("defun"), S("helper"), [], [S("let"), [[S("t1"), 1]], [S("+"), S("t1"), [S("x1")]]]],
                 [S("export"), Q(S("x1"))], [S("in-package"), Q(S("user"))], [S("use-package"), Q(S("lib"))], [S("probe"), Q(S("exported")), [S("x1")], [S("lib:helper")]]] + forms[1:-1]
    return forms


def localfun_program(rnd):
    """local function names that repeat the name of a global function (or of a sibling binding): in flet the bodies
    belong to the scope AROUND the flet (a body's call of its own or a sibling's name reaches the global), in labels to
    the scope of the bindings; let values see the outer scope"""
    g1, g2 = rnd.sample(["scale", "shift", "norm", "step"], 2)
    k = rnd.randrange(2, 6)
    forms = [[S("defun"), S(g1), [S("x")], [S("*"), S("x"), 10]],
             [S("defun"), S(g2), [S("x")], [S("+"), S("x"), k]],
             [S("defun"), S("use-flet"), [S("v")],
              [S("flet"), [[S(g1), [S("x")], [S(g1), [S("+"), S("x"), 1]]],
                           [S(g2), [S("x")], [S(g1), [S(g2), S("x")]]]],
               [S("list"), [S(g1), S("v")], [S(g2), S("v")]]]],
             [S("defun"), S("use-labels"), [S("v")],
              [S("labels"), [[S(g1), [S("x")], [S("if"), [S(">"), S("x"), 100], S("x"), [S(g1), [S("*"), S("x"), 2]]]],
                             [S(g2), [S("x")], [S(g1), [S("+"), S("x"), 1]]]],
               [S("list"), [S(g1), S("v")], [S(g2), S("v")]]]],
             [S("defun"), S("use-let"), [S("v")],
              [S("let"), [[S("loc"), [S("lambda"), [S("x")], [S(g1), [S(g2), S("x")]]]], [S("aux"), [S(g1), 2]]], [S("list"), [S("funcall"), S("loc"), S("v")], S("aux")]]],
             [S("defun"), S("use-nested"), [S("v")],
              [S("flet"), [[S(g1), [S("x")], [S("flet"), [[S(g2), [S("y")], [S(g2), [S(g1), S("y")]]]], [S(g2), S("x")]]]],
               [S(g1), S("v")]]],
             [S("defun"), S("use-macrolet"), [S("v")],
              [S("macrolet"), [[S(g2), [S("e")], [S("quasiquote"), [S(g1), [S("unquote"), S("e")]]]]], [S(g2), S("v")]]],
             # a local macro whose body reads a variable of the enclosing scope while expanding; a macro defined inside
             # another form whose template names a global function
             [S("defun"), S("use-mlocal"), [S("v")],
              [S("let"), [[S("kk"), 7]], [S("macrolet"), [[S("mk"), [S("e")], [S("quasiquote"), [S("+"), [S("unquote"), S("kk")], [S(g2), [S("unquote"), S("e")]]]]]], [S("mk"), S("v")]]]],
             [S("progn"), [S("defmacro"), S("inner-mac"), [S("e")], [S("quasiquote"), [S(g1), [S(g2), [S("unquote"), S("e")]]]]], 0],
             # (set 'name ...) always writes the PACKAGE binding, also under a local of the same name
             [S("set"), Q(S("total")), 0],
             [S("defun"), S("bump"), [S("v")], [S("let"), [[S("total"), [S("*"), S("v"), 2]]], [S("set"), Q(S("total")), [S("+"), S("total"), 1000]], S("total")]],
             [S("defun"), S("bump2"), [S("total")], [S("set"), Q(S("total")), [S("+"), S("total"), 1]], S("total")],
             [S("defun"), S("bump3"), [S("v")], [S("dotimes"), [S("total"), 2], [S("set"), Q(S("total")), [S("+"), S("total"), 50]]], S("v")],
             [S("defun"), S("bump4"), [S("v")], [S("funcall"), [S("lambda"), [S("total")], [S("set"), Q(S("total")), [S("*"), S("total"), 3]], S("total")], S("v")]],
             [S("probe"), Q(S("set")), [S("bump"), 3], S("total"), [S("bump2"), 5], S("total"), [S("bump3"), 1], S("total"), [S("bump4"), 7], S("total")],
             [S("probe"), Q(S("mlocal")), [S("use-mlocal"), 3]], [S("probe"), Q(S("inner-mac")), [S("inner-mac"), 4]],
             [S("probe"), Q(S("flet")), [S("use-flet"), 3]], [S("probe"), Q(S("labels")), [S("use-labels"), 3]],
             [S("probe"), Q(S("let")), [S("use-let"), 3]], [S("probe"), Q(S("nested")), [S("use-nested"), 3]],
             [S("probe"), Q(S("macrolet")), [S("use-macrolet"), 3]], [S("probe"), Q(S("globals")), [S(g1), 1], [S(g2), 1]]]
    return forms


def static_refs(e):
    """the property covers programs whose names are resolved statically: a quoted symbol handed to funcall / apply
    names a function at RUN time, so such references are rewritten to ordinary (statically resolved) ones"""
    if isinstance(e, list):
        e = [static_refs(x) for x in e]
        if len(e) >= 2 and e[0] in (S("funcall"), S("apply")):
            k = 1
            while k < len(e) and e[k] in (S("funcall"), S("apply"), Q(S("funcall")), Q(S("apply"))):
                k += 1
            if k < len(e) and isinstance(e[k], tuple) and e[k][0] == "q" and isinstance(e[k][1], tuple) and e[k][1][0] == "s" \
                    and e[k][1][1] not in ("apply", "funcall"):
                e[k] = e[k][1]
        return e
    if isinstance(e, tuple) and e[0] == "q":
        return ("q", e[1])
    return e


def to_tree(n):
    """driver rtree -> Minify.tla tree"""
    t = n["t"]
    base = {"q": n.get("q", 0), "kw": False, "pk": "", "nm": "", "c": []}
    if t == "list":
        return dict(base, t="list", s="", c=[to_tree(x) for x in n["c"]])
    if t == "sym":
        s = n["s"]
        pk, nm = "", s
        if ":" in s[1:-1] and not s.startswith(":"):
            i = s.index(":", 1)
            pk, nm = s[:i], s[i + 1:]
        return dict(base, t="sym", s=s, kw=s.startswith(":"), pk=pk, nm=nm)
    if t == "int":
        return dict(base, t="int", s=str(n["n"]))
    if t == "float":
        return dict(base, t="float", s=repr(n["f"]))
    return dict(base, t="str", s=n.get("s", ""))


def run(tier):
    V = Verdict("C17", tier)
    work = Work("C17")
    try:
        return _run(V, work, tier)
    finally:
        work.close()


def transcript(evs):
    out = []
    for e in evs:
        out.append((json.dumps(e["v"], sort_keys=True), e["stderr"], json.dumps([p["tag"] for p in (e.get("probes") or [])], sort_keys=True)))
    return out


def _run(V, work, tier):
    thorough = tier == "thorough"
    rnd = random.Random(seed())
    binary = build_driver()
    sessions = []     # (name, [file sources], has_keyword_args)
    for i in range(400 if thorough else 60):
        f = static_refs(P.shape_program(rnd, wide=True, maxn=3))
        sessions.append(("shape%d" % i, [P.src(f)], False, None))
    mutsets = list(itertools.product([False, True], repeat=3))
    combos = list(itertools.product(c01.BINDERS, repeat=3))
    for bs in (combos if thorough else rnd.sample(combos, 80)):
        sessions.append(("scope", [P.src(static_refs(c01.scope_program(bs, rnd.choice(list(itertools.product(mutsets, repeat=3))), selfref=rnd.random() < 0.6)))], False, None))
    for i in range(300 if thorough else 50):
        lib, user, feats = multi_package(rnd)
        if rnd.random() < 0.5:
            sessions.append(("pkg1file%d" % i, [P.src(lib + user)], True, feats))
        else:
            sessions.append(("pkg2files%d" % i, [P.src(lib), P.src(user)], True, feats))
    for i in range(200 if thorough else 40):
        sessions.append(("random%d" % i, [P.src(static_refs(c01.random_program(rnd)))], False, None))
    for i in range(120 if thorough else 30):
        sessions.append(("xnames%d" % i, [P.src(xnames_program(rnd))], False, None))
    for i in range(12 if thorough else 4):
        sessions.append(("localfun%d" % i, [P.src(localfun_program(rnd))], False, None))
    # a closure made in a let VALUE that calls the name the let binds it to (next to a global function of that name): at
    # run time the closure belongs to the let's own environment and reaches itself (lisp/op.go keeps a BUG note about it)
    sessions.append(("letself", ["(defun cnt (n) 'global)\n(defun use (v) (let ((cnt (lambda (n) (if (<= n 0) 'local-done (cnt (- n 1)))))) (funcall cnt v)))\n(probe 'r (use 2))\n"], False, None))
    # a name defined by defun and later rebound at top level with set; quasiquote used as a data template outside a macro
    sessions.append(("redefset", ["(defun foo () 1)\n(set 'foo (lambda () 2))\n(probe 'r (foo))\n(defun bar (x) (* x 2))\n(set 'bar (lambda (x) (* x 3)))\n(probe 'r2 (bar 5) (funcall bar 5))\n"], False, None))
    # defconst: the value form is an expression like any other (it may call functions that get renamed)
    sessions.append(("defconst", ["(defun compute-limit (b) (* b 4))\n(set 'base-size 8)\n(defconst limit (compute-limit base-size) \"doc\")\n(defconst plain 3)\n(defconst viafn (let ((q (compute-limit 2))) (+ q plain)))\n(probe 'r limit plain viafn)\n"], False, None))
    sessions.append(("qqdata", ["(defun mk (x) (quasiquote (x (unquote x) y)))\n(probe 'r (mk 1))\n(let ((x 1) (tag 2)) (probe 'r2 (quasiquote (x tag (unquote x) (unquote tag)))))\n(defun tagged (v) (quasiquote (tagged v (unquote v))))\n(probe 'r3 (tagged 9))\n"], False, None))
    # literal spellings the compact printer must carry over unchanged in VALUE (exponent forms, trailing zeros, escapes)
    LITS = ["1e10", "2.50e-10", "1.5e20", "3e0", "100.0", "1.0", "0.10", "-0.0", "1e-7", "12300.0", "1E3", "6.02e+23", "0x10", "-5", "007",
            '"a\\nb"', '"q\\"q"', "'sym", ":kw", "'(1 2.0 3e2)", '"tab\\there"']
    for i in range(8 if thorough else 3):
        picks = rnd.sample(LITS, 8)
        src = "(defun lits (a) (list a %s))\n(probe 'lits (lits 0))\n(probe 'sum (+ %s))\n" % (" ".join(picks), " ".join(x for x in picks if x[0] not in "\"':"))
        sessions.append(("literals%d" % i, [src], False, None))
    # sessions of three files: an export form in another file than the definition; one name defined in two files and used
    # from a third (the later definition wins at run time); packages entered with the spelled-out (quote p)
    sessions.append(("export-elsewhere", ["(in-package 'lib)\n(export 'helper)\n", "(in-package 'lib)\n(defun helper (v) (+ v 1))\n(defun hidden (v) (helper v))\n",
                                          "(in-package 'user)\n(use-package 'lib)\n(defun outer () (helper 41))\n(probe 'r (outer) (lib:hidden 1))\n"], False, None))
    sessions.append(("two-definitions", ["(defun helper () 1)\n(probe 'first (helper))\n", "(defun helper () 2)\n", "(defun outer () (helper))\n(probe 'r (outer))\n"], False, None))
    sessions.append(("quote-form-packages", ["(in-package (quote pa))\n(defun helper (v) (+ v 1))\n(export 'entry)\n(defun entry (v) (helper v))\n", "(in-package (quote pb))\n(defun helper (v) (+ v 2))\n(export 'entry2)\n(defun entry2 (v) (helper v))\n",
                                             "(in-package (quote pa))\n(defmacro wrap (expr) (quasiquote (helper (unquote expr))))\n(defun outer (value) (wrap value))\n(probe 'r (outer 41) (pb:entry2 1))\n"], False, None))
    # one file defines a private function, ANOTHER file calls it and also has a kept or renamed local of the same name
    # (a parameter, a let variable, a local function, a lambda parameter, a loop variable), used before or after the call
    LIBF = "(defun total (xs) (foldl + 0 xs))\n(defun helper (v) (* v 2))\n"
    clash = {"param": "(defun describe (total) (list 'is total (helper total)))", "let": "(defun describe (v) (let ((total (+ v 1)) (helper 5)) (list total helper)))",
             "flet": "(defun describe (v) (flet ((total (q) (list 'local q)) (helper (q) q)) (list (total v) (helper v))))", "lambda": "(defun describe (v) (funcall (lambda (total helper) (list total helper)) v 2))",
             "dotimes": "(defun describe (v) (let ((acc ())) (dotimes (total 2) (set! acc (cons total acc))) acc))"}
    for kind, dfn in clash.items():
        for order in (0, 1):
            uses = ["(probe 'global (total '(1 2 3)) (helper 4))", "(probe 'local (describe 7))"]
            body = [dfn] + (uses if order == 0 else uses[::-1]) if order == 0 else uses[:1] + [dfn] + uses[1:]
            sessions.append(("clash-%s%d" % (kind, order), [LIBF, "\n".join(body) + "\n"], False, None))
            sessions.append(("clash1-%s%d" % (kind, order), [LIBF + "\n".join(body) + "\n"], False, None))
    # a package's exported macro whose TEMPLATE names a private helper of the package - package-qualified, because the
    # expansion is evaluated in the caller's package; the qualified spelling stands ONLY inside the quasiquote (directly,
    # under an unquote, in a nested template), in one file and across two
    QT = [("direct", "(defmacro with-doubled (e) (quasiquote (lib:double-it (unquote e))))", "(with-doubled 21)"),
          ("under-unquote", "(defmacro with-doubled (e) (quasiquote (list (unquote (if (symbol? e) '(lib:double-it 1) (list 'lib:double-it e))))))", "(with-doubled 21)"),
          ("nested-call", "(defmacro with-doubled (e) (quasiquote (let ((v (unquote e))) (list 'area (lib:double-it (lib:double-it v))))))", "(with-doubled 7)"),
          ("value-use", "(defmacro with-doubled (e) (quasiquote (map 'list lib:double-it (list (unquote e) 2))))", "(with-doubled 5)"),
          ("unquote-splicing", "(defmacro with-doubled (&rest es) (quasiquote (list (lib:double-it (unquote (car es))) (unquote-splicing (cdr es)))))", "(with-doubled 4 5 6)")]
    for tag, mac, use in QT:
        libsrc = "(in-package 'lib)\n(export 'with-doubled)\n(defun double-it (n) (* 2 n))\n(defun unrelated (n) (+ n 1))\n%s\n" % mac
        usesrc = "(in-package 'user)\n(use-package 'lib)\n(defun caller (q) (list q %s))\n(probe 'r (caller 1) %s)\n" % (use, use)
        sessions.append(("qualified-template-%s-2" % tag, [libsrc, usesrc], False, None))
        sessions.append(("qualified-template-%s-1" % tag, [libsrc + usesrc], False, None))
    # histories of definitions across and inside files, local definers at top level, data templates in binding values
    sessions.append(("redef-across-files", ["(defun helper () 1)\n(defun call-a () (helper))\n", "(defun helper () 2)\n", "(probe 'r (call-a) (helper))\n"], False, None))
    sessions.append(("redef-between-calls", ["(defun f () 1)\n(set 'a (f))\n(defun f () 2)\n(probe 'r a (f))\n"], False, None))
    sessions.append(("defun-in-toplevel-let", ["(let ((counter 0)) (defun next-id () (set! counter (+ counter 1)) counter))\n(next-id)\n(probe 'r (next-id))\n"], False, None))
    sessions.append(("quote-form-package-two-files", ["(in-package (quote lib))\n(defun helper () 5)\n", "(in-package (quote lib))\n(probe 'r (helper))\n"], False, None))
    sessions.append(("qq-in-binding-value", ["(probe 'r (let ((a 1) (g (let ((tag 2)) (quasiquote (tag (unquote tag)))))) (list a g)))\n"], False, None))
    sessions.append(("qq-in-flet-function", ["(probe 'r (flet ((f (tag) (quasiquote (tag (unquote tag))))) (f 2)))\n"], False, None))
    # the SAME programs cut into two files at a top-level boundary (one minify session over both files): what one file
    # defines and the other mentions - through a call, a macro body, a local macro, a template, a set - must keep meeting
    base = list(sessions)
    for name, files, kw, feats in base:
        if len(files) != 1:
            continue
        lines = [l for l in files[0].split("\n") if l.strip()]
        if len(lines) < 2:
            continue
        cuts = list(range(1, len(lines)))
        for k in (cuts if thorough and len(cuts) <= 6 else rnd.sample(cuts, min(len(cuts), 3 if thorough else 1))):
            sessions.append((name.rstrip("0123456789") + "-split", ["\n".join(lines[:k]) + "\n", "\n".join(lines[k:]) + "\n"], kw, feats))
    OPTS = [("default", {"preserve_params": True}), ("rename-params", {"preserve_params": False}),
            ("rename-exports", {"preserve_params": True, "rename_exports": True}), ("exclusions", {"preserve_params": True, "exclusions": ["f0", "x", "helper", "tmp"]})]
    mrecs, meta = [], {}
    for si, (name, files, kw, feats) in enumerate(sessions):
        for oname, o in OPTS:
            if oname == "rename-params" and kw:
                continue
            if oname == "rename-exports" and (not name.startswith("pkg") or name.endswith("-split")):
                # (--rename-exports is outside the statement; it is exercised where every file carries its own package header)
                continue
            cid = "%d/%s" % (si, oname)
            mrecs.append(dict({"id": cid, "files": [{"path": "f%d.lisp" % j, "src": s} for j, s in enumerate(files)]}, **o))
            meta[cid] = (si, oname, o)
    mres = {r["id"]: r for r in driver_json(binary, ["minify"], mrecs, timeout=3300)}
    # evaluate originals and minified sessions
    runs = []
    for cid, (si, oname, o) in meta.items():
        r = mres[cid]
        if not r["ok"]:
            continue
        runs.append({"id": cid, "seq": r["outputs"], "cfg": {}})
    for si, (name, files, kw, feats) in enumerate(sessions):
        runs.append({"id": "orig/%d" % si, "seq": files, "cfg": {}})
    rr = {r["id"]: r["runs"][0]["evals"] for r in driver_json(binary, ["run"], runs, timeout=3300)}
    cases = []
    for cid, (si, oname, o) in meta.items():
        r = mres[cid]
        name, files, kw, feats = sessions[si]
        if not r["ok"]:
            V.add(None, "the minifier rejects a program the reader accepts (%s): %s" % (oname, r.get("err")), {"files": files})
            continue
        if not r["twice_same"]:
            V.add(None, "minifying the same input twice gives different output or map (%s)" % oname, {"files": files})
        if any(not t["ok"] for t in r["trees_out"]):
            V.add(None, "minified output does not read (%s)" % oname, {"files": files, "out": r["outputs"]})
            continue
        a, b = transcript(rr["orig/%d" % si]), transcript(rr[cid])
        if a != b:
            key = None
            if oname in ("default", "exclusions") and name.startswith("pkg"):
                key = "export-renamed"
            if name.startswith("letself"):
                key = "let-closure-self-reference"
            if name.startswith("qq-in-"):
                key = "data-template-in-nested-binder"
            V.add(key, "minified session behaves differently from the original (%s)" % oname,
                  {"files": files, "feats": feats, "kind": name.rstrip("0123456789"), "minified": r["outputs"], "map": r["map"]["m2o"], "original_result": a[-1][0][:300], "minified_result": b[-1][0][:300]})
        cases.append({"id": cid, "orig": [to_tree(x) for t in r["trees_in"] for x in t["trees"]], "min": [to_tree(x) for t in r["trees_out"] for x in t["trees"]],
                      "m2o": [[k, v] for k, v in sorted(r["map"]["m2o"].items())], "excl": o.get("exclusions", []), "rex": bool(o.get("rename_exports"))})
    # binding self-test: corrupted triples the relation must reject (a spec that accepts them decides nothing)
    import copy

    def first_sym(ts, pred, path=()):
        for i, t in enumerate(ts):
            if t["t"] == "sym" and pred(t):
                return path + (i,)
            if t["t"] == "list":
                r = first_sym(t["c"], pred, path + (i,))
                if r:
                    return r
        return None

    def at(ts, path):
        t = ts[path[0]]
        for i in path[1:]:
            t = t["c"][i]
        return t
    expect = {}
    for c in cases:
        if len(expect) >= 3:
            break
        mapped = {k for k, _ in c["m2o"]}
        pq = first_sym(c["min"], lambda t: t["q"] > 0 and not t["kw"])
        pm = first_sym(c["min"], lambda t: t["s"] in mapped)
        if not (pq and pm and len(c["m2o"]) >= 2) or c["rex"]:
            continue
        c1 = copy.deepcopy(c); c1["id"] = "selftest/quoted"; at(c1["min"], pq)["s"] = "zz9"; at(c1["min"], pq)["nm"] = "zz9"
        c2 = copy.deepcopy(c); c2["id"] = "selftest/inverse"; at(c2["min"], pm)["s"] = "zz9"; at(c2["min"], pm)["nm"] = "zz9"
        c3 = copy.deepcopy(c); c3["id"] = "selftest/injective"; c3["m2o"].append([c3["m2o"][0][0], "other"])
        expect = {"selftest/quoted": "kept", "selftest/inverse": "inverse", "selftest/injective": "injective"}
        selfcases = [c1, c2, c3]
    if not expect:
        raise MachineryError("no case suitable for the corruption self-test")
    verdicts = {}

    def sink(rec):
        verdicts[rec["id"]] = rec
    # TLC gets the triples in portions of about 40 MB of JSON (the thorough tier's 490 MB at once exhausted its heap)
    res = None
    portion, size = [], 0
    lines_ = [json.dumps(c, separators=(",", ":")) + "\n" for c in cases + selfcases]
    for k, ln in enumerate(lines_):
        portion.append(ln)
        size += len(ln)
        if size >= 40000000 or k == len(lines_) - 1:
            r_ = run_tlc(work, "Minify", "SPECIFICATION Spec\nCHECK_DEADLOCK FALSE\n", files={"mincases.ndjson": "".join(portion)}, timeout=3300, line_sink=sink)
            if r_.error or r_.violated:
                raise MachineryError("TLC failed on Minify.tla: %s %s" % (r_.violated, (r_.error or "")[:400]))
            if res is None:
                res = r_
            else:
                res.distinct += r_.distinct
                res.generated += r_.generated
                res.wall += r_.wall
            portion, size = [], 0
    V.tlc(res, "Minify: %d (source, minified, map) triples decided" % len(cases))
    if len(verdicts) != len(cases) + len(selfcases):
        raise MachineryError("Minify.tla decided %d of %d cases" % (len(verdicts), len(cases) + len(selfcases)))
    for cid, field in expect.items():
        if verdicts.pop(cid)[field]:
            raise MachineryError("Minify.tla accepted the corrupted triple %s" % cid)
    V.notes.append("self-test: Minify.tla rejected a triple with a renamed quoted datum, one with an unmapped rename and one with a non-injective map")
    for cid, vd in verdicts.items():
        si, oname, o = meta[cid]
        files = sessions[si][1]
        if not vd["inverse"]:
            V.add(None, "the symbol map does not invert the minification (%s): un-renaming the output does not give back the source" % oname, {"files": files, "minified": mres[cid]["outputs"], "map": mres[cid]["map"]["m2o"]})
        if not vd["kept"]:
            V.add(None, "a keyword, qualified reference, quoted datum or excluded name was renamed (%s)" % oname, {"files": files, "minified": mres[cid]["outputs"]})
        if not vd["injective"]:
            V.add(None, "two originals share one minified name (%s)" % oname, {"map": mres[cid]["map"]["entries"]})
    V.sample({"source": sessions[0][1][0][:300], "minified": mres["0/default"]["outputs"][0][:300]})
    V.coverage["sessions"] = len(sessions)
    V.coverage["minify_runs"] = len(meta)
    V.coverage["traces_validated_against_impl"] = len(cases)
    V.coverage["exhaustive"] = False
    V.coverage["explanation"] = "%d sessions x up to 3 option sets: structural relation decided by Minify.tla, behaviour compared original vs minified in fresh runtimes, determinism" % len(sessions)
    return V.finish()
