"""C06  Condition handling: handler-bind, ignore-errors, rethrow and the host-panic carve-out.

  1. Kernel.tla exhaustive: condition-stack discipline K12 (pushed exactly while a handler runs, popped on
     every exit path including panics), K10 (nothing pending at rest), the panic carve-out of IgnoreSwallow.
  2. Machine.tla as oracle (B1): ALL nestings up to the depth bound of handler-bind (curated binding lists
     over the specifiers a, b, condition, internal-panic; handlers that return, rethrow, fail, are not
     functions, or fail to evaluate), ignore-errors and progn, with every kind of raise (ordinary errors,
     a forged internal-panic, a real host panic, rethrow, unbound symbol, none) at every position.  The
     machine predicts which handler runs with which arguments, every value, which forms are skipped, and the
     IDENTITY of the error finally returned (error ids vs pointers captured by a host builtin inside the
     handler), its data and condition.
  3. B2: cpush / cpop events validated by KernelTrace.
"""
import random, json, itertools
from vlib import *
import progs as P, mach, ktrace
from progs import S, Q, STR, SRC

KERNEL_CFG = """SPECIFICATION Spec
CONSTANTS FIDS = {"f"}
 G = %(G)d
 MAXPHYS = 4
 MAXTAIL = 2
 MAXNEST = 6
 MAXMACRO = 1
 KIDS = 1
 TRO = TRUE
 BUDGET = 0
 ENTRIES = 1
 FIXTERM = TRUE
 CTXFIX = TRUE
INVARIANTS K1 K5 K7 K10 K12 FramesMatchGo
VIEW View
CHECK_DEADLOCK FALSE
"""

LEAVES = [
    [S("error"), Q(S("a")), 1],
    [S("error"), Q(S("b")), 2, STR("x")],
    [S("error"), Q(S("internal-panic")), 3],      # forged: an ordinary condition
    # a lone string datum that would mean something to a formatter (the data is what was given, character for character)
    [S("error"), Q(S("a")), STR("100% done, %d left %s %% {} {0}")],
    [S("boom")],                                   # a real host panic
    [S("rethrow")],
    S("unbound-x"),
    7,
    [S("probe"), Q(S("leaf"))],
    # a failure that travels through a nested load before it reaches the handlers: a real host panic keeps its carve-out
    [S("load-string"), SRC([[S("probe"), Q(S("in-load"))], [S("boom")]])],
    [S("load-string"), SRC([[S("error"), Q(S("a")), 5]])],
    # error data that would mean something if it were evaluated again: a call form and a symbol taken out of a quoted list
    [S("error"), Q(S("a")), [S("car"), Q([[S("probe"), Q(S("data-evaluated"))]])], [S("car"), Q([S("unbound-data")])]],
]


def handlers(inner):
    """handler expressions; `inner` = an expression placed in a failing handler body"""
    L = lambda *body: [S("lambda"), [S("c"), S("&rest"), S("r")]] + list(body)
    hs = [L([S("probe"), Q(S("H")), S("c"), S("r")], Q(S("val"))),
          L([S("capture")], [S("rethrow")]),
          S("unbound-handler"),
          5,
          # handler EXPRESSIONS that run code before a handler exists: no condition is being handled yet by this
          # handler-bind while they are evaluated (capture shows what is; rethrow belongs to an enclosing handler or fails)
          [S("progn"), [S("capture")], L([S("probe"), Q(S("H5")), S("c"), S("r")], [S("capture")], Q(S("val5")))],
          [S("progn"), [S("capture")], [S("rethrow")]],
          # the handler is itself a host builtin that panics: the panic unwinds through handler-bind's own activation
          # with no evaluation of a lambda body in between (the condition must still be popped)
          S("boom")]
    if inner is not None:
        hs.append(L([S("probe"), Q(S("H2")), S("c")], inner, [S("probe"), Q(S("after-inner"))]))   # (always the LAST element)
    return hs


BINDNAMES = [("a",), ("b",), ("condition",), ("internal-panic",), ("b", "a"), ("condition", "a"), ("a", "condition"), ("internal-panic", "condition"),
             # the catch-all BEFORE the explicit name: a real host panic walks past the catch-all and finds its own binding
             ("condition", "internal-panic"), ("b", "condition", "internal-panic")]


def exprs(depth, rnd=None, cap=None):
    """all expressions of the family up to `depth` (list); with cap, a seeded sample at each level"""
    level = list(LEAVES)
    for d in range(depth):
        nxt = list(LEAVES)
        src_ = level if not cap or len(level) <= cap else rnd.sample(level, cap)
        for e in src_:
            nxt.append([S("progn"), [S("probe"), Q(S("p"))], e, [S("probe"), Q(S("after-p"))]])
            nxt.append([S("ignore-errors"), [S("probe"), Q(S("i"))], e, [S("probe"), Q(S("after-i"))]])
            for names in BINDNAMES:
                hs = handlers(None)
                # first binding cycles through handler kinds; second (if any) is the plain one
                for hk in range(len(hs)):
                    binds = [[S(names[0]), hs[hk]]] + [[S(n), hs[0]] for n in names[1:]]
                    nxt.append([S("handler-bind"), binds, [S("probe"), Q(S("h"))], e, [S("probe"), Q(S("after-h"))]])
            # a whole expression of the family evaluated INSIDE a running handler (nested handler-bind that may
            # re-catch a rethrow of the same error, nested ignore-errors ...), followed by rethrow / a value
            L2 = lambda *body: [S("lambda"), [S("c"), S("&rest"), S("r")]] + list(body)
            for raise_ in (LEAVES[0], LEAVES[3]):
                nxt.append([S("handler-bind"), [[S("condition"), L2([S("probe"), Q(S("H3")), S("c")], e, [S("capture")], [S("rethrow")])], [S("internal-panic"), L2([S("probe"), Q(S("HP"))], e, [S("rethrow")])]], raise_])
                nxt.append([S("handler-bind"), [[S("a"), L2(e, [S("probe"), Q(S("H4")), S("c"), S("r")], Q(S("v4")))]], raise_, [S("probe"), Q(S("after-h4"))]])
            # an error raised inside a handler body (one level of the family inside the handler)
            for inner in (LEAVES[0], LEAVES[3], LEAVES[4]):
                nxt.append([S("handler-bind"), [[S("condition"), handlers(inner)[-1]]], e, [S("probe"), Q(S("after-h"))]])
                nxt.append([S("handler-bind"), [[S("internal-panic"), handlers(inner)[-1]], [S("a"), handlers(None)[1]]], e])
        level = nxt
    return level


def run(tier):
    V = Verdict("C06", tier)
    work = Work("C06")
    try:
        return _run(V, work, tier)
    finally:
        work.close()


def _run(V, work, tier):
    thorough = tier == "thorough"
    rnd = random.Random(seed())
    binary = build_driver()
    res = run_tlc(work, "Kernel", KERNEL_CFG % {"G": 7 if thorough else 6}, timeout=3000)
    V.tlc(res, "Kernel exhaustive (condition stack discipline)")
    if res.violated:
        raise MachineryError("Kernel invariant %s violated inside the model:\n%s" % (res.violated, res.raw[-3000:]))

    d1, d2 = exprs(1), exprs(2)
    if thorough:
        d3 = exprs(3, rnd, cap=300)
        es = d2 + rnd.sample(d3, min(len(d3), 6000))
    else:
        # everything of depth 1, every depth-2 expression whose handler BODY contains a depth-1 expression
        # (nested re-catch / rethrow shapes), and a seeded sample of the other depth-2 expressions
        def nested_in_handler(e):
            return isinstance(e, list) and len(e) > 1 and e[0] == S("handler-bind") and any(
                isinstance(b[1], list) and len(b[1]) > 3 and isinstance(b[1][3], list) and b[1][3] and b[1][3][0] in (S("handler-bind"), S("ignore-errors"), S("progn")) or
                isinstance(b[1], list) and len(b[1]) > 2 and isinstance(b[1][2], list) and b[1][2] and b[1][2][0] in (S("handler-bind"), S("ignore-errors"), S("progn"))
                for b in e[1] if isinstance(b, list) and len(b) == 2)
        rest2 = d2[len(d1):]
        nest2 = [e for e in rest2 if nested_in_handler(e)]
        other2 = [e for e in rest2 if not nested_in_handler(e)]
        es = d1 + nest2 + rnd.sample(other2, 700)
    V.coverage["family_size"] = len(es)
    recs, drv = [], []
    for i, e in enumerate(es):
        forms = [[S("probe"), Q(S("value")), e], [S("probe"), Q(S("end"))]]
        # two evaluations: the expression as the value of a form, and the expression as the last form (error reaches the host)
        # ... and afterwards, at rest: nothing is being handled (capture answers 0) and rethrow is an error
        evals = [forms, [e], [[S("capture")], [S("rethrow")]]]
        recs.append(mach.prog_record(i, evals, {}))
        drv.append({"id": i, "seq": [P.src(f) for f in evals], "cfg": {}})
    model, res = mach.run_machine(work, recs, timeout=3000)
    V.tlc(res, "Machine: %d handler nestings x 2 positions + rethrow at rest" % len(es))
    if res.violated:
        raise MachineryError("Machine invariant %s violated in the model:\n%s" % (res.violated, res.raw[-2000:]))
    if len(model) != len(recs):
        raise MachineryError("Machine produced %d of %d transcripts" % (len(model), len(recs)))
    real = {r["id"]: r["runs"][0]["evals"] for r in driver_json(binary, ["run"], drv)}
    nid = 0
    for i, e in enumerate(es):
        for j, (me, re_) in enumerate(zip(model[i], real[i])):
            d = mach.compare_eval(me, re_)
            if d:
                V.add(None, "condition handling differs from the specification: %s" % d, {"src": drv[i]["seq"][j], "diff": d})
                break
            # rethrow: same object, same condition, data and stack as when it was being handled
            caps = [p for p in (re_.get("probes") or []) if p.get("capture") and p["tag"][1]["n"] != 0]
            if re_["v"]["t"] == "err":
                for c in caps:
                    if c["tag"][1]["n"] == re_.get("errid"):
                        nid += 1
                        a, b = c["err"], re_["err"]
                        if a["cond"] != b["cond"] or c.get("data") != re_.get("data") or a.get("stack") != b.get("stack") or (a.get("line"), a.get("col")) != (b.get("line"), b.get("col")):
                            V.add(None, "rethrown error changed between the handler and the host", {"src": drv[i]["seq"][j], "in_handler": a, "at_host": b})
        if i % 400 == 7:
            V.sample({"program": drv[i]["seq"][0][:400], "model": str(mach.nm(model[i][0]["v"])), "handler_calls": len(model[i][0]["probes"])})
    V.coverage["rethrow_identity_checks"] = nid
    # ---- rethrow re-raises the error with the SAME data: what a handler did in place to the values it was handed is not
    # what an outer handler receives (the Machine's data is immutable, so this relation is evaluated between real answers:
    # the mutating inner handler against one that only looks)
    OUT = "(handler-bind ((condition (lambda (c &rest r) (list 'outer c r)))) %s)"
    # (lists and sorted-maps only: a handler is handed copies of those.  Arrays share their storage with every copy by
    # design - lisp.(*LVal).Copy says so - and a handler that changes one changes THE value, which is no statement about rethrow)
    payloads = [("(list 3 1 2)", "(stable-sort < x)"), ("(sorted-map \"field\" 1)", "(assoc! x \"seen-by\" \"inner\")"),
                ("(sorted-map \"a\" 1 \"b\" 2)", "(dissoc! x \"a\")"), ("(list (list 2 1))", "(stable-sort < (car x))"), ("(list 5 4 (sorted-map \"k\" 1))", "(assoc! (nth x 2) \"n\" 2)")]
    rel = []
    for pi, (mk, mut) in enumerate(payloads):
        for hi, inner in enumerate(("(handler-bind ((bad (lambda (c x) %s (rethrow)))) (error 'bad %s))", "(handler-bind ((bad (lambda (c x &rest r) %s (rethrow)))) (error 'bad %s 'more))",
                                    "(handler-bind ((condition (lambda (c x) %s (rethrow)))) (handler-bind ((bad (lambda (c x) (rethrow)))) (error 'bad %s)))")):
            rel.append({"id": "m%d/%d" % (pi, hi), "seq": [OUT % (inner % (mut, mk))], "cfg": {}})
            rel.append({"id": "l%d/%d" % (pi, hi), "seq": [OUT % (inner % ("x", mk))], "cfg": {}})
    rres = {r["id"]: r["runs"][0]["evals"][0] for r in driver_json(binary, ["run"], rel)}
    for rec in rel:
        if rec["id"][0] != "m":
            continue
        a, b = rres[rec["id"]], rres["l" + rec["id"][1:]]
        if json.dumps(a["v"], sort_keys=True) != json.dumps(b["v"], sort_keys=True):
            V.add(None, "an outer handler receives data the inner handler changed before (rethrow): %s, with a handler that only looks %s" % (json.dumps(a["v"])[:160], json.dumps(b["v"])[:160]),
                  {"src": rec["seq"][0]})
    V.coverage["rethrow_same_data_relations"] = len(rel) // 2

    tpath, summ = ktrace.record(work, binary, rnd.sample(drv, min(len(drv), 2500 if thorough else 600)), maxev=50000)
    rej, tot = ktrace.validate_all(work, tpath)
    V.coverage["states"] += tot["states"]
    V.coverage["transitions"] += tot["generated"]
    V.coverage["trace_events"] = tot["events"]
    for r in rej:
        if r["prop"] == "C06":
            V.add(None, "real trace rejected by KernelTrace at a condition-stack action: %s" % json.dumps(r["event"]), r)
        else:
            V.notes.append("trace rejection attributed to %s: %s" % (r["prop"], json.dumps(r["event"])))
    V.coverage["traces_validated_against_impl"] = 2 * len(es) + summ["programs"]
    V.coverage["exhaustive"] = False
    V.coverage["exhaustive_to_depth"] = 2 if thorough else 1
    V.coverage["explanation"] = "all nestings of the family to depth %d (%d expressions, each as a value and as the failing last form)" % (3 if thorough else 2, len(es))
    return V.finish()
