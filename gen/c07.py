"""C07  A macro call means evaluating its expansion; quasiquote builds its template.

Machine.tla: macroCall (arguments unevaluated over a fresh array, blocked frame, expansion stamped, unquoted once
and re-evaluated in place in the caller's environment), macroexpand-1 = one MacroCall, macroexpand = iterate
while the head is bound to a macro, eval, gensym (per-runtime counter), macrolet, and the quasiquote walk
(unquote / unquote-splicing at any nesting of lists and quote levels).
TLC computes the transcript of every generated program: (a) macro families x call sites x argument forms, each
evaluated directly AND as (eval (macroexpand '(...))) in the same scope, with probes inside the arguments so
that "evaluated exactly once, in the caller's scope" is an effect count; (b) ALL quasiquote templates up to
the size bound over {literal, symbol, quoted, unquote, unquote-splicing (first/middle/last/adjacent/empty)},
which are also checked against an independent literal-substitution oracle; (c) gensym distinctness, including
program texts that spell gen-like names.  Everything is compared with the real interpreter (binding B1) and
the relations direct = expanded, macroexpand = iterated macroexpand-1 are evaluated on the real answers.
"""
import random, json, itertools
from vlib import *
import progs as P, mach
from progs import S, Q, STR

QQ = lambda t: [S("quasiquote"), t]
UQ = lambda e: [S("unquote"), e]
UQS = lambda e: [S("unquote-splicing"), e]

MACROS = [
    [S("defmacro"), S("m-twice"), [S("a")], QQ([S("list"), UQ(S("a")), UQ(S("a"))])],
    [S("defmacro"), S("m-if"), [S("a"), S("b")], QQ([S("if"), UQ(S("a")), UQ(S("b")), Q(S("no"))])],
    [S("defmacro"), S("m-splice"), [S("&rest"), S("xs")], QQ([S("list"), 0, UQS(S("xs")), 9])],
    [S("defmacro"), S("m-outer"), [S("a")], QQ([S("m-twice"), [S("progn"), [S("probe"), Q(S("in-outer"))], UQ(S("a"))]])],
    [S("defmacro"), S("m-def"), [S("name"), S("v")], QQ([S("defun"), UQ(S("name")), [], UQ(S("v"))])],
    [S("defmacro"), S("m-defmac"), [S("name")], QQ([S("defmacro"), UQ(S("name")), [S("x")], [S("list"), Q(S("list")), S("x"), 1]])],
    [S("defmacro"), S("m-tmp"), [S("a")], [S("let"), [[S("tmp"), [S("gensym")]]], QQ([S("let"), [[UQ(S("tmp")), UQ(S("a"))]], [S("list"), UQ(S("tmp")), UQ(S("tmp"))]])]],
    [S("defmacro"), S("m-shadow"), [S("a")], [S("let"), [[S("tmp"), [S("gensym")]]], QQ([S("let"), [[UQ(S("tmp")), 1]], [S("list"), UQ(S("tmp")), UQ(S("a"))]])]],
    [S("defmacro"), S("m-quoted"), [S("a")], QQ([S("list"), Q(UQ(S("a"))), Q(S("lit")), UQ(S("a"))])],
    [S("defmacro"), S("m-body-effect"), [S("a")], [S("probe"), Q(S("expanding"))], QQ([S("list"), UQ(S("a"))])],
    [S("defmacro"), S("m-fail"), [S("a")], [S("error"), Q(S("expansion-failed")), 1]],
    [S("defmacro"), S("m-nonlist"), [S("a")], 42],
    [S("defmacro"), S("m-rec"), [S("n")], [S("if"), [S("<="), S("n"), 0], Q(S("done")), QQ([S("m-rec"), UQ([S("-"), S("n"), 1])])]],
]
ARG = lambda tag, v: [S("progn"), [S("probe"), Q(S(tag))], v]
CALLS = [
    [S("m-twice"), ARG("a1", 5)],
    [S("m-twice"), S("v")],
    [S("m-if"), ARG("c", S("true")), ARG("t", 1)],
    [S("m-if"), [], ARG("t", 1)],
    [S("m-splice"), ARG("x", 1), ARG("y", 2)],
    [S("m-splice")],
    [S("m-outer"), ARG("z", S("v"))],
    [S("m-tmp"), ARG("g", 7)],
    [S("m-shadow"), ARG("sh", S("v"))],
    [S("m-quoted"), S("v")],
    [S("m-body-effect"), ARG("be", 3)],
    [S("m-fail"), 1],
    [S("m-nonlist"), 1],
    [S("m-rec"), 3],
    [S("m-twice"), [S("m-twice"), ARG("nest", 2)]],
    [S("m-twice")],
    [S("m-twice"), 1, 2],
]


def macro_program(rnd, call, site):
    quoted = Q(call)
    direct = [S("probe"), Q(S("direct")), call]
    expanded = [S("probe"), Q(S("expanded")), [S("eval"), [S("macroexpand"), quoted]]]
    mx1 = [S("probe"), Q(S("mx1")), [S("macroexpand-1"), quoted]]
    mx = [S("probe"), Q(S("mx")), [S("macroexpand"), quoted]]
    body = [direct, [S("probe"), Q(S("sep"))], expanded, mx1, mx]
    guard = lambda f: [S("handler-bind"), [[S("condition"), [S("lambda"), [S("c"), S("&rest"), S("r")], [S("probe"), Q(S("err")), S("c")], Q(S("e"))]]], f]
    body = [guard(f) for f in body]
    if site == "top":
        return list(MACROS) + [[S("set"), Q(S("v")), 3]] + body
    if site == "let":
        return list(MACROS) + [[S("let"), [[S("v"), 4]]] + body]
    if site == "fun":
        return list(MACROS) + [[S("defun"), S("host"), [S("v")]] + body, [S("host"), 6]]
    if site == "macrolet":
        local = [S("macrolet"), [[S("m-twice"), [S("a")], QQ([S("list"), Q(S("local")), UQ(S("a"))])]]] + body
        return list(MACROS) + [[S("set"), Q(S("v")), 3], local]
    raise ValueError(site)


def macrolet_scope_programs():
    """a local macro is a closure of the scope that encloses the macrolet form: its BODY (run at expansion time) reads
    the parameters, let variables, local functions and outer local macros around it, next to a global of the same name;
    called directly, through macroexpand / macroexpand-1, and compared with a defmacro at the same place"""
    PR = lambda tag, e: [S("probe"), Q(S(tag)), [S("handler-bind"), [[S("condition"), [S("lambda"), [S("c"), S("&rest"), S("r")], [S("probe"), Q(S("err")), S("c")], Q(S("e"))]]], e]]
    G = [[S("set"), Q(S("n")), 100], [S("set"), Q(S("k")), 200], [S("defun"), S("h"), [S("a")], [S("+"), S("a"), 1000]]]
    addn = [S("addn"), [S("x")], QQ([S("+"), UQ(S("x")), UQ(S("n"))])]
    addn_l = [S("addn"), [S("x")], [S("list"), Q(S("+")), S("x"), S("n")]]
    out = []
    for mac in (addn, addn_l):
        out.append(G + [[S("defun"), S("f"), [S("n")], [S("macrolet"), [mac], PR("call", [S("addn"), 1]), PR("mx", [S("macroexpand"), Q([S("addn"), 1])]),
                                                      PR("mx1", [S("macroexpand-1"), Q([S("addn"), 1])]), PR("ev", [S("eval"), [S("macroexpand"), Q([S("addn"), 1])]])]],
                        [S("f"), 5], [S("f"), 6]])
        out.append(G + [[S("let"), [[S("n"), 7]], [S("macrolet"), [mac], PR("call", [S("addn"), 1]), [S("let"), [[S("n"), 8]], PR("inner", [S("addn"), S("n")])]]]])
        out.append(G + [[S("let*"), [[S("k"), 1], [S("n"), [S("+"), S("k"), 1]]], [S("macrolet"), [mac], PR("call", [S("addn"), S("k")])]]])
        out.append(G + [[S("funcall"), [S("lambda"), [S("n")], [S("macrolet"), [mac], PR("call", [S("addn"), 1])]], 9]])
        out.append(G + [[S("dotimes"), [S("n"), 3], [S("macrolet"), [mac], PR("call", [S("addn"), 10])]]])
        # a defmacro at the same place closes over the same scope
        out.append(G + [[S("defun"), S("f2"), [S("n")], [S("defmacro")] + mac, 0], [S("f2"), 5], PR("call", [S("addn"), 1])])
    # local functions and outer local macros used WHILE expanding
    out.append(G + [[S("flet"), [[S("h"), [S("a")], [S("*"), S("a"), 3]]], [S("macrolet"), [[S("m"), [S("x")], [S("h"), S("x")]]], PR("call", [S("m"), 4])]]])
    out.append(G + [[S("labels"), [[S("h"), [S("a")], [S("if"), [S("<="), S("a"), 0], 0, [S("+"), 2, [S("h"), [S("-"), S("a"), 1]]]]]], [S("macrolet"), [[S("m"), [S("x")], [S("h"), S("x")]]], PR("call", [S("m"), 4])]]])
    out.append(G + [[S("macrolet"), [[S("twice"), [S("x")], [S("list"), Q(S("*")), 2, S("x")]]],
                     [S("macrolet"), [[S("inner"), [S("y")], [S("list"), Q(S("+")), S("y"), [S("twice"), 10]]]], PR("call", [S("inner"), 1]), PR("mx", [S("macroexpand"), Q([S("inner"), 1])])]]])
    out.append(G + [[S("macrolet"), [[S("twice"), [S("x")], [S("list"), Q(S("*")), 2, S("x")]]],
                     [S("macrolet"), [[S("inner"), [S("y")], QQ([S("twice"), UQ(S("y"))])]], PR("call", [S("inner"), 4])]]])
    # siblings of one macrolet do not see each other while expanding; a shadowing macrolet wins inside, not outside
    out.append(G + [[S("macrolet"), [[S("a"), [], 1], [S("b"), [], [S("a")]]], PR("call", [S("b")])]])
    out.append(G + [[S("macrolet"), [[S("m"), [], 1]], [S("macrolet"), [[S("m"), [], 2]], PR("in", [S("m")])], PR("out", [S("m")])]])
    out.append(G + [[S("let"), [[S("n"), 3]], [S("macrolet"), [[S("cap"), [], [S("lambda"), [], S("n")]]], PR("call", [S("funcall"), [S("cap")]])]]])
    return out


def reentrant_macro_programs():
    """every macro call binds its parameters afresh: a macro whose body expands a nested call of ITSELF (macroexpand)
    and then reads its own parameters again, and a closure over a macro parameter that the expansion carries along and
    that is called after the same macro has been used again"""
    HEAD = lambda n: [S("car"), Q([S(n)])]
    my_and = [S("defmacro"), S("my-and"), [S("&rest"), S("xs")],
              [S("if"), [S("nil?"), S("xs")], S("true"),
               [S("if"), [S("nil?"), [S("cdr"), S("xs")]], QQ([S("progn"), UQ([S("car"), S("xs")])]),
                [S("let"), [[S("rest-exp"), [S("macroexpand"), [S("cons"), HEAD("my-and"), [S("cdr"), S("xs")]]]]],
                 QQ([S("if"), UQ([S("car"), S("xs")]), UQ(S("rest-exp")), S("false")])]]]]
    defadder = [S("defmacro"), S("defadder"), [S("name"), S("n")],
                [S("let"), [[S("f"), [S("lambda"), [S("x")], [S("+"), S("x"), S("n")]]]],
                 QQ([S("defun"), UQ(S("name")), [S("x")], [S("funcall"), UQ(S("f")), S("x")]])]]
    nest = [S("defmacro"), S("nest"), [S("tag"), S("k")],
            [S("if"), [S("<="), S("k"), 0], QQ([S("list"), [S("quote"), UQ(S("tag"))]]),
             [S("let"), [[S("inner"), [S("macroexpand-1"), [S("list"), HEAD("nest"), [S("car"), Q([S("in")])], [S("-"), S("k"), 1]]]]],
              QQ([S("list"), [S("quote"), UQ(S("tag"))], UQ(S("k")), UQ(S("inner"))])]]]
    out = [
        [my_and, [S("probe"), Q(S("mx")), [S("macroexpand"), Q([S("my-and"), S("a"), S("b"), S("c")])]],
         [S("set"), Q(S("a")), 1], [S("set"), Q(S("b")), S("false")], [S("set"), Q(S("c")), 3],
         [S("probe"), Q(S("r")), [S("my-and"), S("a"), S("b"), S("c")]], [S("probe"), Q(S("r2")), [S("my-and"), S("a"), S("c")]], [S("probe"), Q(S("r1")), [S("my-and"), S("c")]], [S("probe"), Q(S("r0")), [S("my-and")]]],
        [defadder, [S("defadder"), S("add1"), 1], [S("defadder"), S("add2"), 2], [S("probe"), Q(S("r")), [S("add1"), 10], [S("add2"), 10], [S("add1"), 20]]],
        [nest, [S("probe"), Q(S("mx1")), [S("macroexpand-1"), Q([S("nest"), S("out"), 2])]], [S("probe"), Q(S("r")), [S("nest"), S("out"), 2]], [S("probe"), Q(S("r0")), [S("nest"), S("z"), 0]]],
        # the same closure-carrying expansion from a local macro
        [[S("macrolet"), [[S("mk"), [S("n")], [S("let"), [[S("f"), [S("lambda"), [S("x")], [S("+"), S("x"), S("n")]]]], QQ([S("lambda"), [S("x")], [S("funcall"), UQ(S("f")), S("x")]])]]],
          [S("let"), [[S("p1"), [S("mk"), 1]], [S("p2"), [S("mk"), 2]]], [S("probe"), Q(S("r")), [S("funcall"), S("p1"), 10], [S("funcall"), S("p2"), 10], [S("funcall"), S("p1"), 20]]]]],
    ]
    return out


# ---- quasiquote templates
def templates(depth):
    leaves = [1, S("sym"), Q(S("qs")), UQ(S("x")), Q(UQ(S("x"))), []]
    level = list(leaves)
    for _ in range(depth):
        nxt = list(leaves)
        pool = level[:10]
        for n in (1, 2, 3):
            for combo in itertools.product(pool + [UQS(S("xs")), UQS(S("e"))], repeat=n):
                nxt.append(list(combo))
                if len(nxt) > 4000:
                    break
        for t in pool:
            nxt.append(Q(t) if not (isinstance(t, tuple) and t[0] == "q") else t)
        # lists written with two and three quote marks (a quote object around the quoted list), holding unquotes,
        # alone and as elements of a template list
        for inner in ([S("a"), UQ(S("x"))], [UQ(S("x")), UQS(S("xs"))], [[UQ(S("x"))], 1], UQ(S("x"))):
            for marks in (2, 3):
                t = inner
                for _ in range(marks):
                    t = Q(t)
                nxt += [t, [S("f"), t], [t, UQ(S("x"))], [S("g"), [t]]]
        level = nxt
    return level


def oracle(t, env):
    """literal substitution: the declared meaning of quasiquote (structure only, quoting ignored)"""
    if isinstance(t, list):
        if len(t) == 2 and t[0] == S("unquote"):
            return env[t[1][1]]
        out = []
        for c in t:
            if isinstance(c, list) and len(c) == 2 and c[0] == S("unquote-splicing"):
                out += list(env[c[1][1]])
            else:
                out.append(oracle(c, env))
        return out
    if isinstance(t, tuple) and t[0] == "q":
        return oracle(t[1], env)
    if isinstance(t, tuple) and t[0] == "s":
        return "sym:" + t[1]
    return t


def strip(nf):
    """normal form -> structure with quoting ignored"""
    k = nf[0]
    if k == "int":
        return nf[1]
    if k == "sym":
        return "sym:" + nf[1]
    if k == "nil":
        return []
    if k == "list":
        return [strip(x) for x in nf[2]]
    if k == "quote":
        return strip(nf[1])
    return nf


def run(tier):
    V = Verdict("C07", tier)
    work = Work("C07")
    try:
        return _run(V, work, tier)
    finally:
        work.close()


def _run(V, work, tier):
    thorough = tier == "thorough"
    rnd = random.Random(seed())
    binary = build_driver()
    progs_ = []
    for call in CALLS:
        for site in ("top", "let", "fun", "macrolet"):
            progs_.append(("macro", macro_program(rnd, call, site), None))
    # definitions produced by expansions are usable afterwards
    progs_.append(("macro", list(MACROS) + [[S("m-def"), S("made"), 11], [S("probe"), [S("made")]], [S("m-defmac"), S("made-mac")], [S("probe"), [S("made-mac"), 5]],
                                            [S("probe"), [S("macroexpand-1"), Q([S("made-mac"), 5])]]], None))
    progs_ += [("scope", f, None) for f in macrolet_scope_programs()]
    progs_ += [("reentrant", f, None) for f in reentrant_macro_programs()]
    ts = templates(2)
    # (every template in both tiers: the whole family costs ten seconds)
    if False:
        multi = [t for t in ts if "('q', ('q'," in repr(t)]       # templates with two or more quote marks: always all of them
        rest = [t for t in ts if "('q', ('q'," not in repr(t)]
        ts = rest[:60] + rnd.sample(rest[60:], 640) + multi[:120]
    for t in ts:
        progs_.append(("qq", [[S("let"), [[S("x"), 7], [S("xs"), Q([8, 9])], [S("e"), []]],
                               [S("probe"), [S("handler-bind"), [[S("condition"), [S("lambda"), [S("c"), S("&rest"), S("r")], Q(S("qq-error"))]]], QQ(t)]]]], t))
    # the MIX family (gen/mix.py): macros with templates, local macros, eval of macroexpand, next to everything else
    import mix
    for _ in range(400 if thorough else 60):
        progs_.append(("mix", mix.mix_program(rnd, depth=rnd.choice([3, 4])), None))
    # gensym
    progs_.append(("gensym", [[S("probe"), [S("gensym")], [S("gensym")]], [S("probe"), [S("equal?"), [S("gensym")], [S("gensym")]]]], None))
    progs_.append(("gensym", list(MACROS) + [[S("set"), Q(S("gen00000001")), 99], [S("probe"), Q(S("tmp")), [S("m-shadow"), S("gen00000001")]]], None))
    progs_.append(("gensym", list(MACROS) + [[S("set"), Q(S("gen00000003")), 99], [S("gensym")], [S("gensym")], [S("probe"), Q(S("tmp")), [S("m-shadow"), S("gen00000003")]]], None))
    progs_.append(("gensym", list(MACROS) + [[S("set"), Q(S("outer")), 5], [S("probe"), Q(S("tmp")), [S("m-shadow"), S("outer")]]], None))
    recs, drv = [], []
    for i, (kind, forms, _) in enumerate(progs_):
        recs.append(mach.prog_record(i, [forms], {}))
        drv.append({"id": i, "seq": [P.src(forms)], "cfg": {"nostdlib": True}})
    model, res = mach.run_machine(work, recs, timeout=3300)
    V.tlc(res, "Machine: %d macro / quasiquote / gensym programs" % len(progs_))
    if res.violated:
        raise MachineryError("Machine invariant %s violated in the model:\n%s" % (res.violated, res.raw[-2000:]))
    if len(model) != len(recs):
        raise MachineryError("Machine produced %d of %d transcripts" % (len(model), len(recs)))
    real = {r["id"]: r["runs"][0]["evals"] for r in driver_json(binary, ["run"], drv, timeout=3300)}
    nq = 0
    for i, (kind, forms, t) in enumerate(progs_):
        me, re_ = model[i][0], real[i][0]
        src = drv[i]["seq"][0]
        d = mach.compare_eval(me, re_, check_steps=True)
        if d:
            key = "gensym-collision" if kind == "gensym" and "gen0000000" in src and "tag" in d else None
            V.add(key, "%s program differs from the specification: %s" % (kind, d), {"src": src, "diff": d})
            continue
        probes = re_.get("probes") or []
        if kind == "macro":
            # direct call == evaluation of the expansion, same effects
            def seg(tag):
                idx = [j for j, p in enumerate(probes) if p["tag"] and p["tag"][0].get("s") == tag]
                return idx[0] if idx else None
            a, s_, b = seg("direct"), seg("sep"), seg("expanded")
            if a is not None and b is not None and s_ is not None:
                va, vb = probes[a]["tag"][1:], probes[b]["tag"][1:]
                ea = [p["tag"] for p in probes[:a]]
                eb = [p["tag"] for p in probes[s_ + 1:b] if not (p["tag"] and p["tag"][0].get("s") in ("expanding",))]
                ea = [x for x in ea if not (x and x[0].get("s") == "expanding")]
                if json.dumps(va, sort_keys=True) != json.dumps(vb, sort_keys=True) and "gen" not in json.dumps(va):
                    V.add(None, "a macro call and the evaluation of its macroexpand differ in value", {"src": src, "direct": va, "expanded": vb})
                if json.dumps(ea, sort_keys=True) != json.dumps(eb, sort_keys=True):
                    V.add(None, "a macro call and the evaluation of its macroexpand differ in the effects of the argument forms", {"src": src, "direct": ea, "expanded": eb})
        elif kind == "qq":
            nq += 1
            got = probes[0]["tag"][0] if probes and probes[0]["tag"] else None
            if got is not None and not (got.get("t") == "sym" and got.get("s") == "qq-error"):
                want = oracle(t, {"x": 7, "xs": [8, 9], "e": []})
                have = strip(mach.nr(got))
                if have != want:
                    V.add(None, "quasiquote does not reproduce its template: %s gives %s, literal substitution gives %s" % (P.render(QQ(t)), have, want),
                          {"template": P.render(t), "real": have, "expected": want})
        if i % 150 == 2:
            V.sample({"kind": kind, "program": src[-400:], "model_probes": len(me["probes"])})
    # ---- a macro that works on its argument list IN PLACE must not be able to change the form it was given ----------
    # (the Machine's data is immutable, so this relation is evaluated between real runs: the call, the evaluation of the
    # form, and the evaluation of what macroexpand returns must agree, the form must read the same afterwards, and one
    # step of macroexpand-1 must agree with macroexpand for a macro whose expansion is not a macro call)
    MUT = "(defmacro fts (&rest xs) (let ((f (first xs))) (stable-sort < xs) (quasiquote (list (unquote f) (unquote-splicing xs)))))\n"
    # (the head must be the bare symbol: a symbol taken out of a quoted list is one, (quote fts) evaluated is not)
    builders = {"quasiquote": "(quasiquote (fts 3 1 2))", "cons": "(cons (car '(fts)) (list 3 1 2))", "concat": "(concat 'list '(fts) (list 3 1) (list 2))",
                "literal": "'(fts 3 1 2)", "map": "(map 'list identity '(fts 3 1 2))", "unquoted": "(quasiquote (fts (unquote (+ 1 2)) 1 2))"}
    mrecs = [{"id": "direct", "seq": [MUT + "(probe 'r (fts 3 1 2))"], "cfg": {}}]
    for bn, b in builders.items():
        mrecs.append({"id": "eval/" + bn, "seq": [MUT + "(set 'form %s)\n(probe 'r (eval form))" % b], "cfg": {}})
        mrecs.append({"id": "expand/" + bn, "seq": [MUT + "(set 'form %s)\n(probe 'e (macroexpand form))\n(probe 'after form)\n(probe 'r (eval form))\n(probe 'e1 (macroexpand-1 form))\n(probe 'e2 (macroexpand form))\n(probe 'r2 (eval (macroexpand form)))" % b], "cfg": {}})
    mres = {r["id"]: r["runs"][0]["evals"][0] for r in driver_json(binary, ["run"], mrecs)}

    def tagged(ev, name):
        for p in ev.get("probes") or []:
            if p["tag"] and p["tag"][0].get("s") == name:
                return json.dumps(p["tag"][1:], sort_keys=True)
        return None
    want_r = tagged(mres["direct"], "r")
    if want_r is None:
        raise MachineryError("the mutating-macro program did not run: %s" % json.dumps(mres["direct"])[:300])
    for bn in builders:
        a, b = mres["eval/" + bn], mres["expand/" + bn]
        fresh_form = tagged(driver_json(binary, ["run"], [{"id": "f", "seq": [MUT + "(probe 'after %s)" % builders[bn]], "cfg": {}}])[0]["runs"][0]["evals"][0], "after")
        checks = [("evaluating the form differs from the call", tagged(a, "r"), want_r),
                  ("evaluating the form after macroexpand differs from the call", tagged(b, "r"), want_r),
                  ("evaluating macroexpand's result differs from the call", tagged(b, "r2"), want_r),
                  ("macroexpand changed the form it was given", tagged(b, "after"), fresh_form),
                  ("macroexpand-1 and macroexpand disagree", tagged(b, "e1"), tagged(b, "e")),
                  ("macroexpand gives a different expansion the second time", tagged(b, "e2"), tagged(b, "e"))]
        for what, got, want in checks:
            if got != want:
                V.add(None, "%s (form built by %s): %s, expected %s" % (what, bn, got, want), {"src": mrecs[[m["id"] for m in mrecs].index("expand/" + bn)]["seq"][0]})
    V.coverage["mutating_macro_forms"] = len(builders)
    V.coverage["macro_programs"] = len(CALLS) * 4 + 1
    V.coverage["quasiquote_templates"] = nq
    V.coverage["traces_validated_against_impl"] = len(progs_)
    V.coverage["exhaustive"] = False
    V.coverage["explanation"] = "%d macro x call x site programs (direct vs expansion), %d quasiquote templates (depth <= 2) against the Machine and a literal-substitution oracle, gensym programs" % (len(CALLS) * 4, nq)
    return V.finish()
