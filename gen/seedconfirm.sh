#!/bin/bash
# confirm a seeded change in its scratch worktree: suite passes with it, demo fails with it and passes without it
# usage: gen/seedconfirm.sh /tmp/seed17_C05
W=$1
cd "$W" || exit 2
export GOFLAGS=-mod=mod GOPROXY=off
L=seed_out/confirm.log
: > $L
git apply --check -R seed_out/patch.diff 2>>$L || { echo "patch not applied in tree" | tee -a $L; exit 2; }
go build ./... >>$L 2>&1 || { echo "BUILD FAILS" | tee -a $L; exit 1; }
PK=$(go list ./... | grep -v seed_demo)
if go test -vet=off -count=1 $PK >>$L 2>&1; then echo "suite: pass with change" | tee -a $L; else
  # a loaded machine trips the suite's wall-clock tests: run the failing packages again, one at a time
  FP=$(grep -E '^FAIL\s+github' $L | awk '{print $2}' | sort -u)
  : > $L.retry
  if [ -n "$FP" ] && go test -vet=off -count=1 -p 1 $FP >>$L.retry 2>&1; then echo "suite: pass with change (after re-running $FP alone)" | tee -a $L
  else echo "SUITE FAILS with change" | tee -a $L; grep -E '^(FAIL|---)' $L $L.retry | head; exit 1; fi
fi
if go test -vet=off -count=1 ./seed_demo/... >>$L 2>&1; then echo "DEMO PASSES with change (bad)" | tee -a $L; exit 1; else echo "demo: fails with change" | tee -a $L; fi
git apply -R seed_out/patch.diff || exit 2
if go test -vet=off -count=1 ./seed_demo/... >>$L 2>&1; then echo "demo: passes without change" | tee -a $L; R=0; else echo "DEMO FAILS without change (bad)" | tee -a $L; R=1; fi
git apply seed_out/patch.diff || exit 2
exit $R
