"""C14  Schema validators accept exactly what they declare.

Schema.tla defines Build(schema) and Accept(schema, value) as recursive functions over schema terms, from the
declared meaning of the `s` package.  Schema terms (every type x every constraint constructor with boundary
parameters, negations, key constraints, no-other-keys, when, nested validators, malformed schemas) and 30
representative values are generated here, TLC computes the verdict of every (schema, value) pair (one state
per pair, algebraic laws as invariants) and the harness evaluates (s:validate (s:make-validator ...) value)
on the real interpreter and compares the outcome class (binding B1).
"""
import random, json, itertools
from vlib import *

CFG = """SPECIFICATION Spec
INVARIANTS NotInverts FalsyIsNotTruthy MalformedNeverPasses DerivedNarrows
CHECK_DEADLOCK FALSE
"""


def V(t, n=0, s="", c=None, e=None):
    return {"t": t, "n": n, "s": s, "c": c or [], "e": e or []}


def C(c, k="", k2="", n=0, cs=None, g=None, vs=None, p=""):
    return {"c": c, "k": k, "k2": k2, "n": n, "cs": cs or [], "g": g or [], "vs": vs or [], "p": p}


def I(n): return V("int", n)
def F(t): return V("float", t)          # tenths
def S(s): return V("str", len(s), s)
def B(b): return V("bool", 0, "true" if b else "false")
def M(ents, kind="str"): return V("map", 0, kind, e=[{"k": k, "v": v} for k, v in ents])


VALUES = [I(-1), I(0), I(1), I(2), I(3), F(0), F(15), F(-25), F(20), F(25), F(-5),       # 2.5 and -0.5: a fraction across each integer bound
          S(""), S("a"), S("ab"), S("abc"), S("true"), S("false"),
          B(True), B(False), V("sym", 0, "foo"), V("nil"),
          V("vec"), V("vec", c=[I(1)]), V("vec", c=[I(1), S("a")]), V("vec", c=[S("a"), S("b")]),
          V("list", c=[I(1), I(2)]),
          M([]), M([("a", I(1))]), M([("a", I(1))], "sym"), M([("a", S("x")), ("b", I(2))]), M([("a", S("x")), ("b", S("y"))], "json"),
          M([("a", B(True)), ("b", I(0)), ("c", I(5))]),
          M([("a", V("nil"))]), M([("a", V("nil")), ("b", I(2))], "sym"),
          M([("a", F(20))], "json"), M([("a", I(2)), ("b", F(10))]), V("vec", c=[F(10), I(2)]),      # numbers of the OTHER kind than an enumeration spells          # a key that is PRESENT and bound to ()
          V("fun"), V("bytes", 0, ""), V("bytes", 2, "ab"),
          # arrays whose elements are of different kinds in both orders (an element is judged on its own, whatever came before)
          V("vec", c=[B(True), V("sym", 0, "foo")]), V("vec", c=[V("sym", 0, "foo"), B(True)]), V("vec", c=[B(True), B(False)]),
          V("vec", c=[I(1), B(False), V("sym", 0, "foo"), I(2)]), V("vec", c=[I(1), F(15)]), V("vec", c=[F(15), I(1)]), V("vec", c=[S("a"), I(1)]),
          V("vec", c=[S("a"), S("true")]), V("vec", c=[I(2), I(-1)]),
          # maps that satisfy the FIRST key constraint of a list and fail a later one, before and after maps that satisfy all
          M([("a", I(1)), ("b", B(True))]), M([("a", I(1)), ("b", I(2))]), M([("a", I(1)), ("c", S("x"))]), M([("a", I(1)), ("b", I(2)), ("c", I(3))]), M([("a", I(7)), ("c", I(3))], "sym")]


def rv(v):
    t = v["t"]
    if t == "int":
        return str(v["n"])
    if t == "float":
        return "%s%d.%d" % ("-" if v["n"] < 0 else "", abs(v["n"]) // 10, abs(v["n"]) % 10)
    if t == "str":
        return json.dumps(v["s"])
    if t == "bool":
        return v["s"]
    if t == "sym":
        return "'" + v["s"]
    if t == "nil":
        return "()"
    if t == "vec":
        return "(vector %s)" % " ".join(rv(x) for x in v["c"])
    if t == "list":
        return "'(%s)" % " ".join(rv(x) for x in v["c"])
    if t == "fun":
        return "(lambda (x) x)"
    if t == "bytes":
        return "(to-bytes %s)" % json.dumps(v["s"])
    if t == "map":
        if v["s"] == "json":
            # (strings, and floats - every number of a JSON document is a float by default)
            return "(json:load-string %s)" % json.dumps(json.dumps({e["k"]: (e["v"]["n"] / 10.0 if e["v"]["t"] == "float" else e["v"]["s"]) for e in v["e"]}))
        return "(sorted-map %s)" % " ".join("%s %s" % (("'" + e["k"]) if v["s"] == "sym" else json.dumps(e["k"]), rv(e["v"])) for e in v["e"])
    raise ValueError(t)


TYPES = ["string", "int", "float", "number", "bool", "array", "sorted-map", "fun", "any"]


def rs(c, top=False):
    k = c["c"]
    if k == "typed":
        return "(s:make-validator \"t\" s:%s%s)" % (c["k"], "".join(" " + rs(x) for x in c["cs"])) if c["k"] in TYPES else \
               "(s:make-validator \"t\" %s%s)" % (json.dumps(c["k"]), "".join(" " + rs(x) for x in c["cs"]))
    if k == "derived":
        return "(s:make-validator \"t\" %s%s)" % (rs(c["g"][0]), "".join(" " + rs(x) for x in c["cs"]))
    if k == "typename":
        return "s:" + c["k"] if c["k"] in TYPES else json.dumps(c["k"])
    if k == "bad":
        return {"int": "5", "unknown-type": "\"zzz\"", "lambda": "(lambda (x) x)", "bad-pattern": "(s:regexp \"(\")", "builtin-fn": "car"}[c["k"]]
    if k == "in":
        return "(s:in %s)" % " ".join(rv(v) for v in c["vs"])
    if k in ("gt", "gte", "lt", "lte", "len", "lengt", "lengte", "lenlt", "lenlte"):
        return "(s:%s %d)" % (k, c["n"])
    if k in ("positive", "negative"):
        return "(s:%s)" % k
    if k == "of":
        return "(s:of%s)" % "".join(" " + rs(x) for x in c["cs"])
    if k == "haskey":
        return "(s:has-key %s%s)" % (json.dumps(c["k"]), "".join(" " + rs(x) for x in c["cs"]))
    if k == "mayhavekey":
        return "(s:may-have-key %s%s)" % (json.dumps(c["k"]), "".join(" " + rs(x) for x in c["cs"]))
    if k == "nok":
        return "(s:no-other-keys%s)" % "".join(" " + rs(x) for x in c["cs"])
    if k == "when":
        return "(s:when %s %s %s%s)" % (json.dumps(c["k"]), rs(c["g"][0]), json.dumps(c["k2"]), "".join(" " + rs(x) for x in c["cs"]))
    if k == "not":
        return "(s:not %s)" % rs(c["g"][0])
    if k in ("istrue", "isfalse", "istruthy", "isfalsy"):
        return "(s:is-%s)" % k[2:]
    if k == "regexp":
        return "(s:regexp %s)" % json.dumps(c["p"])
    raise ValueError(k)


def TN(t): return C("typename", k=t)
def TY(t, *cs): return C("typed", k=t, cs=list(cs))
def DER(base, *cs): return C("derived", g=[base], cs=list(cs))


def atoms():
    a = [C("in", vs=[I(1), S("a"), B(True)]), C("in", vs=[]), C("positive"), C("negative"),
         # enumerations of strings only (one with the empty string, one spelling a symbol and a boolean of the value domain)
         C("in", vs=[S("a"), S("ab")]), C("in", vs=[S(""), S("a")]), C("in", vs=[S("foo"), S("true")]),
         # enumerations of numbers of ONE kind: a member given as the other kind (2 / 2.0) is the same number
         C("in", vs=[I(1), I(2), I(3)]), C("in", vs=[F(0), F(20), F(25)]), C("in", vs=[I(0), F(15)])]
    for op in ("gt", "gte", "lt", "lte"):
        a += [C(op, n=n) for n in (0, 2)]
    for op in ("len", "lengt", "lengte", "lenlt", "lenlte"):
        a += [C(op, n=n) for n in (0, 1, 2)]
    a += [C("of", cs=[TN("string")]), C("of", cs=[TN("int"), TN("string")]), C("of"), C("of", cs=[TY("int", C("gt", n=0))]),
          C("of", cs=[TN("bool")]), C("of", cs=[TN("bool"), TN("int")]), C("of", cs=[TN("int")]), C("of", cs=[TN("float")]), C("of", cs=[TN("number")]), C("of", cs=[TN("float"), TN("string")]),
          C("of", cs=[TN("any")])]
    a += [C("haskey", k="a"), C("haskey", k="a", cs=[TN("int")]), C("haskey", k="a", cs=[TN("string"), TN("int")]), C("haskey", k="z", cs=[TN("any")]),
          C("mayhavekey", k="b", cs=[TN("int")]), C("mayhavekey", k="a", cs=[TN("string")])]
    a += [C("haskey", k="a", cs=[C("in", vs=[I(1), I(2)])]), C("mayhavekey", k="a", cs=[C("in", vs=[F(10), F(20)])]), C("of", cs=[C("in", vs=[I(1), I(2)])]),
          C("haskey", k="a", cs=[C("in", vs=[S(""), S("x")])]), C("mayhavekey", k="a", cs=[C("in", vs=[S("x"), S("foo")])]), C("of", cs=[C("in", vs=[S("a"), S("b")])]), C("of", cs=[C("in", vs=[S(""), S("a")])])]
    a += [C("istrue"), C("isfalse"), C("istruthy"), C("isfalsy")]
    a += [C("regexp", p=p) for p in ("^a", "b$", ".*")]
    return a


def bads():
    return [C("bad", k=k) for k in ("int", "unknown-type", "lambda", "bad-pattern", "builtin-fn")]


def composites(at):
    out = [C("not", g=[c]) for c in at]
    hk = C("haskey", k="a", cs=[TN("int")])
    hs = C("haskey", k="a", cs=[TN("string")])
    mk = C("mayhavekey", k="b", cs=[TN("int"), TN("string")])
    hc = C("haskey", k="c", cs=[TN("int")])
    # key constraints WITHOUT a type (the type is optional: presence only) - alone and as the names of no-other-keys
    out += [C("haskey", k="a"), C("mayhavekey", k="b"), C("nok", cs=[C("haskey", k="a"), C("mayhavekey", k="b")]), C("nok", cs=[C("mayhavekey", k="a")])]
    out += [C("nok"), C("nok", cs=[hk]), C("nok", cs=[hk, mk]), C("nok", cs=[hs, mk]), C("nok", cs=[mk]), C("nok", cs=[hk, hc]), C("nok", cs=[hk, mk, hc]), C("nok", cs=[mk, hc, hk])]
    for g in (TN("int"), TN("string"), TY("bool", C("istrue")), C("istruthy"), TY("int", C("gt", n=0))):
        for c in (C("positive"), C("lengt", n=0), TN("int"), C("in", vs=[I(2), S("y")])):
            out.append(C("when", k="a", g=[g], k2="b", cs=[c]))
    out += [TY("int", C("gt", n=0)), TY("string", C("lengt", n=1)), TY("sorted-map", hk), TY("array", C("of", cs=[TN("int")]))]
    # malformed inside composites: can never make validation pass silently
    for b in bads():
        out += [C("not", g=[TY("int", b)]), C("when", k="a", g=[TY("int", b)], k2="b", cs=[C("positive")]), C("when", k="a", g=[TN("int")], k2="b", cs=[b]),
                C("nok", cs=[b]), C("of", cs=[b]), C("haskey", k="a", cs=[b]), TY("int", b), C("not", g=[b])]
    return out


def run(tier):
    V_ = Verdict("C14", tier)
    work = Work("C14")
    try:
        return _run(V_, work, tier)
    finally:
        work.close()


def classify(ev):
    v = ev["v"]
    if v["t"] != "err":
        return "ok"
    return v["s"]


def _run(V_, work, tier):
    thorough = tier == "thorough"
    rnd = random.Random(seed())
    binary = build_driver()
    at = atoms()
    comp = composites(at)
    schemas = []
    for ty in TYPES:
        schemas.append(TY(ty))
        for c in at + comp + bads():
            schemas.append(TY(ty, c))
    schemas.append(TY("nosuchtype"))
    # derived types: a validator in the TYPE position narrowed by further constraints (well-formed and malformed), nested twice,
    # under s:not and as the guard of s:when
    hk_ = C("haskey", k="a", cs=[TN("int")])
    ders = [DER(TY("int", C("gt", n=0)), C("lt", n=2)), DER(TY("int"), C("gt", n=0), C("lt", n=3)), DER(TY("string"), C("lengt", n=1)), DER(TY("number", C("positive"))),
            DER(TY("sorted-map", hk_), C("mayhavekey", k="b", cs=[TN("int")])), DER(DER(TY("int"), C("gt", n=0)), C("lt", n=3)), DER(TY("any"), C("in", vs=[I(2), S("ab")])),
            DER(TY("array"), C("of", cs=[TN("int")]), C("lengt", n=1))]
    for b in bads():
        ders += [DER(TY("int"), b), DER(TY("int", C("gt", n=0)), C("lt", n=5), b), DER(TY("int", b), C("lt", n=5))]
    for d in list(ders):
        ders += [TY("any", C("not", g=[d])), TY("sorted-map", C("when", k="a", g=[d], k2="b", cs=[C("positive")]))]
    schemas += ders
    pool = at + comp
    npairs = 6000 if thorough else 900
    for _ in range(npairs):
        schemas.append(TY(rnd.choice(TYPES), rnd.choice(pool), rnd.choice(pool + bads() if rnd.random() < 0.1 else pool)))
    cases = [{"id": i, "schema": sc, "values": VALUES} for i, sc in enumerate(schemas)]
    text = "".join(json.dumps(c, separators=(",", ":")) + "\n" for c in cases)
    model = {}

    def sink(rec):
        for j in range(len(rec["verdicts"])):
            model[(rec["id"], j + 1)] = {"build": rec["build"], "verdict": rec["verdicts"][j], "lenient": rec["lenient"][j]}
    res = run_tlc(work, "Schema", CFG, files={"cases.ndjson": text}, timeout=3300, line_sink=sink)
    V_.tlc(res, "Schema: %d schemas x %d values" % (len(schemas), len(VALUES)))
    if res.violated:
        raise MachineryError("Schema law violated inside the specification:\n" + res.raw[-2500:])
    if len(model) != len(schemas) * len(VALUES):
        raise MachineryError("Schema produced %d of %d verdicts" % (len(model), len(schemas) * len(VALUES)))
    # (every value is validated a second time after all the others: a verdict is a function of schema and value)
    drv = [{"id": i, "seq": ["(set 'vv %s)" % rs(sc)] + ["(s:validate vv %s)" % rv(v) for v in VALUES] + ["(s:validate vv %s)" % rv(v) for v in VALUES] +
            # ... and by a second validator built from the same declaration, which meets the values in the opposite order
            ["(set 'ww %s)" % rs(sc)] + ["(s:validate ww %s)" % rv(v) for v in reversed(VALUES)], "cfg": {"nocount": True}} for i, sc in enumerate(schemas)]
    real = {r["id"]: r["runs"][0]["evals"] for r in driver_json(binary, ["run"], drv, timeout=3300)}
    nbad = 0
    for i, sc in enumerate(schemas):
        evs = real[i]
        built = classify(evs[0])
        want_build = model[(i, 1)]["build"]
        text_ = rs(sc)
        if evs[0]["v"].get("panic"):
            V_.add(None, "building a schema panicked: %s" % text_, {"schema": text_})
            continue
        if want_build != "ok":
            nbad += 1
            if built == "ok":
                # not rejected at construction: the rest of the property still demands it never passes silently
                passes = [rv(VALUES[j]) for j in range(len(VALUES)) if classify(evs[j + 1]) == "ok"]
                V_.add(key_of(sc, "unbuilt"), "malformed schema is not rejected when it is built: %s%s" % (text_, (" - and validation PASSES for %s" % passes[:4]) if passes else ""),
                       {"schema": text_, "silently_passes_for": passes})
            elif built != "bad-arguments":
                V_.add(None, "malformed schema rejected with %s instead of bad-arguments: %s" % (built, text_), {"schema": text_})
            continue
        if built != "ok":
            V_.add(None, "well-formed schema cannot be built (%s): %s" % (built, text_), {"schema": text_, "msg": (evs[0].get("err") or {}).get("msg")})
            continue
        for j, v in enumerate(VALUES):
            ev = evs[j + 1]
            got = classify(ev)
            want = model[(i, j + 1)]["verdict"]
            if len(evs) > len(VALUES) + j + 1 and classify(evs[len(VALUES) + j + 1]) != got:
                V_.add(None, "the same validation gives two answers: (s:validate %s %s) gives %s the first time and %s the second" % (text_, rv(v), got, classify(evs[len(VALUES) + j + 1])), {"schema": text_, "value": rv(v)})
            k3 = 2 * len(VALUES) + 1 + (len(VALUES) - j)
            if len(evs) > k3 and classify(evs[k3]) != got:
                V_.add(None, "a verdict depends on what the validator was shown before: (s:validate %s %s) gives %s after the values before it and %s in a second validator that met the values in the opposite order" % (text_, rv(v), got, classify(evs[k3])), {"schema": text_, "value": rv(v)})
            if ev["v"].get("panic"):
                V_.add(None, "validation panicked: %s on %s" % (text_, rv(v)), {"schema": text_, "value": rv(v)})
            elif got != want:
                V_.add("bool-string" if got == model[(i, j + 1)]["lenient"] else None, "validator disagrees with its declared meaning: (s:validate %s %s) gives %s, declared %s" % (text_, rv(v), got, want),
                       {"schema": text_, "value": rv(v), "real": got, "declared": want, "msg": (ev.get("err") or {}).get("msg")})
        if i % 97 == 5:
            V_.sample({"schema": text_, "verdicts": {rv(VALUES[j]): model[(i, j + 1)]["verdict"] for j in (2, 10, 15, 25)}})
    # ---- leaf law: numeric bounds on integers beyond 2^53 (TLC's integers do not reach them; the specification's rule -
    # a bound compares NUMBERS - is applied with exact integers here): neighbours that float64 cannot tell apart
    B53 = 1 << 53
    big = []
    for op, f in (("gt", lambda v, b: v > b), ("gte", lambda v, b: v >= b), ("lt", lambda v, b: v < b), ("lte", lambda v, b: v <= b)):
        for b in (B53, B53 + 1, (1 << 62) + 1, -(B53 + 1)):
            for v in (b - 1, b, b + 1):
                big.append((op, b, v, f(v, b)))
    bres = driver_json(binary, ["run"], [{"id": i, "seq": ["(s:validate (s:make-validator \"t\" s:int (s:%s %d)) %d)" % (op, b, v)], "cfg": {"nocount": True}} for i, (op, b, v, w) in enumerate(big)])
    for r in bres:
        op, b, v, want = big[r["id"]]
        got = classify(r["runs"][0]["evals"][0])
        if (got == "ok") != want:
            V_.add(None, "leaf law: (s:validate (s:make-validator \"t\" s:int (s:%s %d)) %d) gives %s, the numbers compare %s" % (op, b, v, got, "within the bound" if want else "outside the bound"),
                   {"op": op, "bound": b, "value": v})
    V_.coverage["big_integer_bound_cases"] = len(big)
    V_.coverage["schemas"] = len(schemas)
    V_.coverage["malformed_schemas"] = nbad
    V_.coverage["traces_validated_against_impl"] = len(schemas) * len(VALUES)
    V_.coverage["exhaustive"] = False
    V_.coverage["explanation"] = "every type x every single constraint / composite / malformed term (%d) plus %d seeded two-constraint schemas, each against %d values" % (len(schemas) - npairs, npairs, len(VALUES))
    return V_.finish()


def key_of(sc, kind, v=None, want=None, got=None):
    """finding keys (known_findings.json)"""
    return None
