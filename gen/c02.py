"""C02  Tail-call elimination is transparent and tail loops run in constant stack.

Decided by (DESIGN 6 C02):
  1. Kernel.tla, exhaustive: K5 K7 K7b K8-style invariants over every control shape within bounds.
  2. Machine.tla as oracle (B1): shape-indexed and nesting families, elimination on and off;
     every probe's complete frame snapshot (names, Terminal, TROBlock, TailIterations), step
     count and nesting, and every value, compared with the real interpreter.
  3. The property's own relations on real runs: on vs off (dormant debugger) vs profiler
     attached; height at the bottom of a loop independent of n for terminal chains, exactly
     linear for non-terminal / blocking chains.
  4. B2: hook traces of all those runs validated by KernelTrace.tla.
"""
import random, itertools, json
from vlib import *
import progs as P, mach, ktrace

KERNEL_CFG = """SPECIFICATION Spec
CONSTANTS FIDS = {"f", "g"}
 G = %(G)d
 MAXPHYS = %(MAXPHYS)d
 MAXTAIL = 2
 MAXNEST = 5
 MAXMACRO = 1
 KIDS = 1
 TRO = TRUE
 BUDGET = 0
 ENTRIES = 1
 FIXTERM = %(FIX)s
 CTXFIX = TRUE
INVARIANTS K1 K2 K5 NoPanicChain K7 K7b K9 K10 FramesMatchGo
VIEW View
CHECK_DEADLOCK FALSE
"""


def tags_real(ev):
    return [tuple(mach.nr(x) for x in p["tag"]) for p in (ev.get("probes") or [])]


def run(tier):
    V = Verdict("C02", tier)
    work = Work("C02")
    try:
        return _run(V, work, tier)
    finally:
        work.close()


def _run(V, work, tier):
    thorough = tier == "thorough"
    rnd = random.Random(seed())
    binary = build_driver()

    # ---- 1. Kernel exhaustive -------------------------------------------------
    kc = {"G": 7 if thorough else 6, "MAXPHYS": 4 if thorough else 3, "FIX": "TRUE"}
    res = run_tlc(work, "Kernel", KERNEL_CFG % kc, timeout=3000 if thorough else 600)
    V.tlc(res, "Kernel exhaustive G=%(G)d MAXPHYS=%(MAXPHYS)d" % kc)
    if res.violated:
        raise MachineryError("Kernel invariant %s violated inside the model (design-level counterexample, not reproduced on the code):\n%s"
                             % (res.violated, res.raw[-3000:]))
    # non-vacuity of K7: the pre-repair design must violate it
    res0 = run_tlc(work, "Kernel", KERNEL_CFG % {"G": 6, "MAXPHYS": 3, "FIX": "FALSE"}, timeout=600)
    if "K7" not in res0.violated and "K7b" not in res0.violated:
        raise MachineryError("vacuity: Kernel with FIXTERM=FALSE no longer violates K7")
    V.coverage["kernel_k7_nonvacuous"] = True

    # ---- 2. programs ------------------------------------------------------------
    nshape = 1500 if thorough else 220
    cases = []      # (id, forms, kind)
    for i in range(nshape):
        cases.append(("s%d" % i, P.shape_program(rnd, wide=True), "shape"))
    wr = P.WT_ALL + [w for w in P.WRAPPERS if w[1] != "T"]
    chains = [()] + [(a,) for a in wr] + [(a, b) for a in wr for b in wr]
    if thorough:
        chains += [tuple(rnd.choice(wr) for _ in range(3)) for _ in range(1200)]
    else:
        chains = chains[:31] + rnd.sample(chains[31:], 150)
    # long terminal chains: the tail call under 15 .. 40 nested terminal forms (the search for the resumable frame has to
    # look that far down)
    # (special operators only: a lambda in the chain is a tail call of its own and collapses what is above it)
    tw = [w for w in wr if w[0] in ("progn-last", "let-body", "let*-body", "if-then", "if-else", "cond-clause", "cond-first", "or-last", "flet-body", "labels-body")]
    for L in (15, 16, 17, 18, 24, 33, 40):
        chains.append(tuple(rnd.choice(tw) for _ in range(L)))
    loops = []
    for ci, ch in enumerate(chains):
        mutual = rnd.random() < 0.3
        cls = P.chain_class(ch)
        loops.append((ci, ch, mutual, cls))
        cases.append(("l%d" % ci, P.loop_program(rnd, ch, 3, mutual), "loop"))

    # tail loops whose non-last body forms make ordinary calls and whose iterations reach new stack depths
    for i in range(120 if thorough else 30):
        cases.append(("g%d" % i, P.growing_loop_program(rnd), "grow"))

    # closures made in successive iterations of a tail loop keep that iteration's own bindings (on = off)
    import c01 as _c01
    for w in P.WRAPPERS:
        if w[1] in ("T", "N") and w[0] not in ("if-cond",):
            for mutual in (False, True):
                cases.append(("c%s%d" % (w[0], mutual), _c01.closure_loop_program(w, mutual), "closure-loop"))

    # the MIX family (gen/mix.py): tail loops, mutual recursion and ordinary recursion next to closures, handlers, macros,
    # cross-package calls, threading forms and higher-order builtins - on, off and under the profiler
    import mix
    for i in range(400 if thorough else 60):
        cases.append(("x%d" % i, mix.mix_program(rnd, depth=rnd.choice([3, 4])) if i % 3 else mix.mix_fail_program(rnd), "mix"))

    # Machine predictions: every program with elimination on and off
    recs, drv = [], []
    for cid, forms, kind in cases:
        recs.append(mach.prog_record(cid + "/on", [forms], {"tro": True}))
        recs.append(mach.prog_record(cid + "/off", [forms], {"tro": False}))
        drv.append({"id": cid, "seq": [P.src(forms)], "cfgs": [{}, {"tro": "off"}, {"tro": "prof"}]})
    model, res = mach.run_machine(work, recs, timeout=3000)
    V.tlc(res, "Machine: %d programs x {elimination on, off}" % len(cases))
    if res.violated:
        raise MachineryError("Machine invariant %s violated in the model:\n%s" % (res.violated, res.raw[-2000:]))
    if len(model) != len(recs):
        raise MachineryError("Machine produced %d of %d transcripts" % (len(model), len(recs)))
    real = {r["id"]: r for r in driver_json(binary, ["run"], drv)}

    nb1 = 0
    for cid, forms, kind in cases:
        runs = real[cid]["runs"]
        on, off, prof = runs[0]["evals"][0], runs[1]["evals"][0], runs[2]["evals"][0]
        src = P.src(forms)
        # model vs real, both configurations (frames, steps, nesting, values)
        for name, me, re_ in (("on", model[cid + "/on"][0], on), ("off", model[cid + "/off"][0], off)):
            d = mach.compare_eval(me, re_)
            nb1 += 1
            if d:
                V.add(None, "Machine/real disagreement (elimination %s): %s" % (name, d), {"src": src, "cfg": name, "diff": d})
        # the profiler must not change anything either (frames included)
        d = mach.compare_eval(model[cid + "/on"][0], prof)
        if d:
            V.add(None, "profiler attached changes behaviour: %s" % d, {"src": src, "diff": d})
        # transparency, real vs real: value and effect transcript
        if mach.nr(on["v"]) != mach.nr(off["v"]) or tags_real(on) != tags_real(off) or on["stderr"] != off["stderr"]:
            V.add(None, "elimination is not transparent: value/effects differ between default and dormant-debugger runs",
                  {"src": src, "on": on["v"], "off": off["v"], "on_tags": str(tags_real(on))[:500], "off_tags": str(tags_real(off))[:500]})
        # model-level transparency (self-composition of the two Machine runs)
        mo, mf = model[cid + "/on"][0], model[cid + "/off"][0]
        if mach.nm(mo["v"]) != mach.nm(mf["v"]) or [[mach.nm(x) for x in p["tag"]] for p in mo["probes"]] != [[mach.nm(x) for x in p["tag"]] for p in mf["probes"]]:
            raise MachineryError("Machine itself is not transparent on %s" % src)
        if len(V.coverage["samples"]) < 3:
            V.sample({"program": src[:600], "model_value": str(mach.nm(mo["v"])), "probes": len(mo["probes"])})

    # ---- 3. constant stack / never collapsed, at sizes the model cannot reach ----
    big = []
    for ci, ch, mutual, cls in loops:
        for n in (3, 4, 40, 41) if not (thorough and ci % 5 == 0) else (3, 4, 40, 41, 400):
            big.append({"id": "%d/%d" % (ci, n), "seq": [P.src(P.loop_program(rnd, ch, n, mutual))], "cfgs": [{}, {"tro": "off"}]})
    bigr = {r["id"]: r for r in driver_json(binary, ["run"], big)}

    def bottom(ci, n, cfg):
        ev = bigr["%d/%d" % (ci, n)]["runs"][cfg]["evals"][0]
        hs = [len(p["frames"]) for p in (ev.get("probes") or []) if p["tag"] and p["tag"][0].get("s") == "bottom"]
        return (hs[0] if hs else None), ev
    nlaw = 0
    for ci, ch, mutual, cls in loops:
        names = [w[0] for w in ch]
        h3, e3 = bottom(ci, 3, 0)
        h4, e4 = bottom(ci, 4, 0)
        h40, e40 = bottom(ci, 40, 0)
        h41, e41 = bottom(ci, 41, 0)
        o3, f3 = bottom(ci, 3, 1)
        o40, f40 = bottom(ci, 40, 1)
        if None in (h3, h4, h40, h41, o3, o40):
            # the loop did not reach the bottom (an error on the way) - value equality is still required
            for n in (3, 40):
                a, b = bigr["%d/%d" % (ci, n)]["runs"][0]["evals"][0], bigr["%d/%d" % (ci, n)]["runs"][1]["evals"][0]
                if mach.nr(a["v"]) != mach.nr(b["v"]):
                    V.add(None, "elimination not transparent on loop %s n=%d" % (names, n), {"chain": names, "n": n})
            continue
        nlaw += 1
        # mutual recursion alternates two frames shapes: compare same parity
        if cls == "X":
            pass
        elif cls == "T":
            if not (h3 == h40 or h3 == h41) or not (h4 == h40 or h4 == h41):
                V.add(None, "tail loop under terminal chain %s grows with n: heights n=3:%d n=4:%d n=40:%d n=41:%d" % (names, h3, h4, h40, h41),
                      {"chain": names, "mutual": mutual, "heights": [h3, h4, h40, h41]})
        else:
            per = h4 - h3
            if per < 1 or h40 != h3 + 37 * per or h41 != h3 + 38 * per:
                V.add(None, "loop under non-terminal/blocking chain %s is collapsed or not linear: n=3:%d n=4:%d n=40:%d n=41:%d" % (names, h3, h4, h40, h41),
                      {"chain": names, "mutual": mutual, "heights": [h3, h4, h40, h41]})
        # without elimination every iteration keeps its frames
        if not (o40 > o3):
            V.add(None, "dormant-debugger run does not keep frames", {"chain": names, "heights": [o3, o40]})
        for n in (3, 40):
            a, b = bigr["%d/%d" % (ci, n)]["runs"][0]["evals"][0], bigr["%d/%d" % (ci, n)]["runs"][1]["evals"][0]
            if mach.nr(a["v"]) != mach.nr(b["v"]) or tags_real(a) != tags_real(b):
                V.add(None, "elimination not transparent on loop %s n=%d" % (names, n), {"chain": names, "n": n})
    # calls made through a blocking boundary (macro body during expansion, nested load, handler-bind,
    # ignore-errors) are never collapsed: exactly linear height
    bl = []
    for kind in ("macro-body", "load-string", "handler-bind", "ignore-errors", "handler-call"):
        for n in (3, 4, 30, 31):
            bl.append({"id": "%s/%d" % (kind, n), "seq": [P.src(P.boundary_loop(kind, n))], "cfgs": [{}, {"tro": "off"}]})
    blr = {r["id"]: r for r in driver_json(binary, ["run"], bl)}
    for kind in ("macro-body", "load-string", "handler-bind", "ignore-errors", "handler-call"):
        hs = []
        for n in (3, 4, 30, 31):
            ev = blr["%s/%d" % (kind, n)]["runs"][0]["evals"][0]
            off = blr["%s/%d" % (kind, n)]["runs"][1]["evals"][0]
            h = [len(p["frames"]) for p in (ev.get("probes") or []) if p["tag"] and p["tag"][0].get("s") == "bottom"]
            hs.append(h[0] if h else None)
            if mach.nr(ev["v"]) != mach.nr(off["v"]) or tags_real(ev) != tags_real(off):
                V.add(None, "elimination not transparent on boundary loop %s n=%d" % (kind, n), {"kind": kind, "n": n})
        if None in hs or hs[1] - hs[0] < 1 or hs[2] != hs[0] + 27 * (hs[1] - hs[0]) or hs[3] != hs[0] + 28 * (hs[1] - hs[0]):
            V.add(None, "call through a %s boundary was collapsed (or height not linear): heights %r" % (kind, hs), {"kind": kind, "heights": hs})
        nlaw += 1
    V.coverage["loop_height_laws_checked"] = nlaw

    # ---- 4. B2: hook traces of the same runs -------------------------------------
    # (the hook traces of every program were several gigabytes in the thorough tier: a sample is recorded)
    tdrv = drv if len(drv) <= 900 else rnd.sample(drv, 900)
    trecs = [{"id": d["id"], "seq": d["seq"], "cfgs": [{"maxsteps": 200000}, {"tro": "off", "maxsteps": 200000}]} for d in tdrv]
    trecs += [{"id": "L" + d["id"], "seq": d["seq"], "cfgs": [{"maxsteps": 200000}]} for d in big if d["id"].endswith("/40")]
    tpath, summ = ktrace.record(work, binary, trecs, maxev=150000)
    rej, tot = ktrace.validate_all(work, tpath)
    V.coverage["states"] += tot["states"]
    V.coverage["transitions"] += tot["generated"]
    V.coverage["trace_events"] = tot["events"]
    V.coverage["trace_programs"] = summ["programs"]
    V.coverage["trace_programs_dropped_over_event_cap"] = summ["dropped"]
    for r in rej:
        if r["prop"] == "C02":
            V.add(None, "real trace rejected by KernelTrace at a tail-call action: %s" % json.dumps(r["event"]), r)
        else:
            V.notes.append("trace rejection attributed to %s: %s" % (r["prop"], json.dumps(r["event"])))
    # ---- the same relation UNDER A STEP BUDGET: a loop that finishes within b steps without elimination finishes within b
    # steps with it (value, output and error condition are the same in both modes).  The budgets tried are the ones between
    # the two modes' own step counts, where the modes can differ at all
    win = []
    for ci, ch, mutual, cls in loops[:12]:
        key = "%d/%d" % (ci, 40)
        if key not in bigr:
            continue
        s_on, s_off = (bigr[key]["runs"][c]["evals"][0].get("steps") for c in (0, 1))
        if not s_on or not s_off or s_on == s_off:
            continue
        b = (s_on + s_off) // 2
        src = next(x for x in big if x["id"] == key)["seq"]
        win.append({"id": key, "seq": src, "cfgs": [{"maxsteps": b}, {"tro": "off", "maxsteps": b}], "b": b, "s_on": s_on, "s_off": s_off})
    nwin = 0
    if win:
        wr = {r["id"]: r for r in driver_json(binary, ["run"], [{k: v for k, v in w.items() if k in ("id", "seq", "cfgs")} for w in win])}
        for w in win:
            a, b_ = (wr[w["id"]]["runs"][c]["evals"][0]["v"] for c in (0, 1))
            nwin += 1
            if json.dumps(a, sort_keys=True) != json.dumps(b_, sort_keys=True):
                V.add("budget-window:tail-iteration-step", "under a budget of %d steps a loop of 40 turns ends differently with elimination (%s; it needs %d steps) and without (%s; %d steps)" % (
                    w["b"], a.get("s") or a.get("t"), w["s_on"], b_.get("s") or b_.get("t"), w["s_off"]), {"src": w["seq"], "budget": w["b"], "on": a, "off": b_})
    V.coverage["budget_window_relations"] = nwin
    V.coverage["traces_validated_against_impl"] = nb1 + summ["programs"]
    V.coverage["exhaustive"] = False
    V.coverage["explanation"] = ("Kernel exhaustive within bounds; Machine transcripts of %d programs x 2 configurations compared with the real interpreter "
                                 "at every probe (frames, steps, nesting, values); %d loop chains checked for the height law; %d hook-trace events validated"
                                 % (len(cases), nlaw, tot["events"]))
    V.assumptions += ["hooks emit at the linearization points listed in DESIGN.md 2.3", "programs restricted to the Machine's language for the model comparison"]
    return V.finish()
