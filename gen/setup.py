"""setup_cmd: build the driver once (warms the Go build cache) and parse every specification."""
import sys, os, subprocess
sys.path.insert(0, os.path.dirname(os.path.abspath(__file__)))
from vlib import *

def main():
    b = build_driver()
    print("driver built:", b)
    bad = 0
    for f in sorted(os.listdir(SPECS)):
        if f.endswith(".tla"):
            p = subprocess.run(["timeout", "120", "tla-sany", f], cwd=SPECS, capture_output=True, text=True)
            ok = p.returncode == 0 and "Semantic errors" not in p.stdout and "Fatal errors" not in p.stdout
            print("sany %-22s %s" % (f, "ok" if ok else "FAILED"))
            if not ok:
                print(p.stdout[-1500:])
                bad += 1
    return 1 if bad else 0

main_wrap(main)
