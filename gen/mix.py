"""MIX family: seeded random programs that combine, in ONE program, the features the other families exercise one at a
time - binders and closures, assignment, every parameter kind, tail loops and ordinary recursion, macros with templates,
local macros, handlers / ignore-errors / rethrow, packages and qualified names, nested loads, threading forms,
higher-order builtins over lists / vectors / maps with closures that capture locals, funcall / apply through
designators, eval / macroexpand of quoted calls, and failing leaves of every kind.  Every construct is inside
Machine.tla's language, so the Machine predicts the whole transcript (values, effects, frames and steps at the probes).

The point of the family is INTERACTION: a change that needs two features to meet (a closure made inside a handler inside
a tail loop; a macro expanding to a cross-package call under ignore-errors; apply of an &optional function through a
threading step) is not reached by families that vary one feature at a time.

Used by C01 (reference meaning), C02 (elimination on / off / profiler), C04 (budgets), C10 (repetition), C18 (error
positions and stacks).
"""
from progs import S, Q, STR, SRC

QQ = lambda x: [S("quasiquote"), x]
UQ = lambda x: [S("unquote"), x]
UQS = lambda x: [S("unquote-splicing"), x]
L = lambda formals, *body: [S("lambda"), list(formals)] + list(body)

PRELUDE = [
    [S("set"), Q(S("g1")), 3], [S("set"), Q(S("g2")), 5], [S("set"), Q(S("lst")), Q([3, 1, 2])],
    [S("set"), Q(S("vec")), [S("vector"), 4, 0, 9]], [S("set"), Q(S("mp")), [S("sorted-map"), STR("b"), 2, Q(S("a")), 1]],
    [S("defun"), S("inc"), [S("n")], [S("+"), S("n"), 1]],
    [S("defun"), S("add"), [S("p"), S("q")], [S("+"), S("p"), S("q")]],
    [S("defun"), S("opt-fn"), [S("a"), S("&optional"), S("b"), S("c")], [S("list"), S("a"), S("b"), S("c")]],
    [S("defun"), S("rest-fn"), [S("a"), S("&rest"), S("more")], [S("cons"), S("a"), S("more")]],
    [S("defun"), S("key-fn"), [S("a"), S("&key"), S("k1"), S("k2")], [S("list"), S("a"), S("k1"), S("k2")]],
    [S("defun"), S("make-counter"), [S("start")], [S("let"), [[S("n"), S("start")]], L([], [S("set!"), S("n"), [S("+"), S("n"), 1]], S("n"))]],
    [S("set"), Q(S("ctr")), [S("make-counter"), 0]],
    [S("defun"), S("count-down"), [S("n"), S("acc")], [S("if"), [S("<="), S("n"), 0], S("acc"), [S("count-down"), [S("-"), S("n"), 1], [S("cons"), S("n"), S("acc")]]]],
    [S("defun"), S("sum-to"), [S("n")], [S("if"), [S("<="), S("n"), 0], 0, [S("+"), S("n"), [S("sum-to"), [S("-"), S("n"), 1]]]]],
    [S("defun"), S("even-p"), [S("n")], [S("if"), [S("="), S("n"), 0], S("true"), [S("odd-p"), [S("-"), S("n"), 1]]]],
    [S("defun"), S("odd-p"), [S("n")], [S("if"), [S("="), S("n"), 0], S("false"), [S("even-p"), [S("-"), S("n"), 1]]]],
    [S("defmacro"), S("swap-args"), [S("f"), S("a"), S("b")], QQ([UQ(S("f")), UQ(S("b")), UQ(S("a"))])],
    [S("defmacro"), S("my-when"), [S("c"), S("&rest"), S("body")], QQ([S("if"), UQ(S("c")), [S("progn"), UQS(S("body"))], []])],
    [S("defmacro"), S("with-probe"), [S("tag"), S("e")], QQ([S("progn"), [S("probe"), [S("quote"), UQ(S("tag"))]], UQ(S("e"))])],
    [S("defmacro"), S("twice"), [S("e")], QQ([S("list"), UQ(S("e")), UQ(S("e"))])],
    [S("defun"), S("fail-with"), [S("c"), S("d")], [S("error"), S("c"), S("d")]],
    [S("defun"), S("safe-div"), [S("a"), S("b")], [S("handler-bind"), [[S("condition"), L([S("c"), S("&rest"), S("r")], Q(S("div-failed")))]], [S("if"), [S("="), S("b"), 0], [S("error"), Q(S("div-zero")), S("a")], [S("/"), S("a"), S("b")]]]],
    # a tail loop that ends well for n >= 0 and raises at the bottom for n < 0 (after its iterations were collapsed)
    [S("defun"), S("down-then-fail"), [S("n")], [S("if"), [S("="), S("n"), 0], 0, [S("if"), [S("="), S("n"), -1], [S("error"), Q(S("cond-a")), S("n")], [S("down-then-fail"), [S("if"), [S(">"), S("n"), 0], [S("-"), S("n"), 1], [S("+"), S("n"), 1]]]]]],
    [S("in-package"), Q(S("lib"))],
    [S("export"), Q(S("lib-inc")), Q(S("lib-var")), Q(S("lib-apply"))],
    [S("set"), Q(S("lib-hidden")), 2], [S("set"), Q(S("lib-var")), 40],
    [S("defun"), S("lib-inc"), [S("n")], [S("+"), S("n"), S("lib-hidden")]],
    [S("defun"), S("lib-apply"), [S("f"), S("x")], [S("probe"), Q(S("in-lib")), S("lib-hidden")], [S("funcall"), S("f"), S("x")]],
    [S("defun"), S("lib-private"), [S("n")], [S("*"), S("n"), S("lib-var")]],
    [S("in-package"), Q(S("user"))],
]

CONDS = ["cond-a", "cond-b"]


class Mix:
    def __init__(self, rnd):
        self.r = rnd
        self.ints = ["g1", "g2"]          # int variables in scope
        self.lists = ["lst"]
        self.fun1 = ["inc", "lib:lib-inc", "lib:lib-private"]        # names of one-argument int functions (symbols evaluating to functions)
        self.depth_loops = 0

    def pick(self, xs):
        return self.r.choice(xs)

    # ---------------------------------------------------------------- ints
    def int_(self, d):
        r = self.r
        if d <= 0 or r.random() < 0.2:
            return r.choice([r.randrange(-3, 7), S(r.choice(self.ints)), S(r.choice(self.ints))])
        c = r.randrange(34)
        if c < 3:
            return [S(r.choice(["+", "-", "*"])), self.int_(d - 1), self.int_(d - 1)]
        if c == 3:
            return [S("if"), self.bool_(d - 1), self.int_(d - 1), self.int_(d - 1)]
        if c == 4:      # let with a fresh int variable
            v = r.choice(["a", "b", "x"])
            val = self.int_(d - 1)
            return [S(r.choice(["let", "let*"])), [[S(v), val]], self.with_int(v, lambda: self.int_(d - 1))]
        if c == 5:      # closure capturing a local, called at once or through funcall
            v = r.choice(["k", "x"])
            val = self.int_(d - 1)
            body = self.with_int(v, lambda: self.with_int("y", lambda: [S("+"), S("y"), self.int_(d - 2)]))
            return [S("let"), [[S(v), val]], [S("funcall"), L([S("y")], body), self.int_(d - 1)]]
        if c == 6:
            return [S(r.choice(self.fun1)), self.int_(d - 1)]
        if c == 7:
            return [S("add")] + [self.int_(d - 1) for _ in range(r.choice([2, 2, 2, 1, 3]))]
        if c == 8:
            return [S("funcall"), r.choice([Q(S("inc")), S("inc"), S("lib:lib-inc"), Q(S("lib:lib-inc")), L([S("z")], [S("*"), S("z"), 2])]), self.int_(d - 1)]
        if c == 9:
            return [S("apply"), r.choice([S("add"), Q(S("add")), S("+")]), self.int_(d - 1), [S("list"), self.int_(d - 1)]]
        if c == 10:
            return [S("length"), self.list_(d - 1)]
        if c == 11:
            return [S("foldl"), r.choice([S("add"), S("+"), L([S("acc"), S("e")], [S("+"), S("acc"), [S("*"), S("e"), 2]])]), self.int_(d - 2), self.list_(d - 1)]
        if c == 12:
            return [S("car"), self.list_(d - 1)]
        if c == 13:     # the counter closure: every call observes the previous ones
            return [S("funcall"), S("ctr")]
        if c == 14:     # assignment to a global or an enclosing local, observed afterwards
            v = r.choice(self.ints)
            return [S("progn"), [S("set!"), S(v), self.int_(d - 1)], [S("+"), S(v), self.int_(d - 2)]]
        if c == 15:     # a tail loop with an accumulator written inline (labels)
            n = r.randrange(0, 4)
            return [S("labels"), [[S("lp"), [S("i"), S("acc")], [S("if"), [S("<="), S("i"), 0], S("acc"), [S("lp"), [S("-"), S("i"), 1], [S("+"), S("acc"), self.with_int("i", lambda: self.int_(d - 2))]]]]], [S("lp"), n, 0]]
        if c == 16:
            return [S("sum-to"), r.randrange(0, 4)]
        if c == 17:     # dotimes accumulating through set!
            v = r.choice(["s", "t"])
            body = self.with_int(v, lambda: self.with_int("i", lambda: [S("set!"), S(v), [S("+"), S(v), self.int_(d - 2)]]))
            return [S("let"), [[S(v), 0]], [S("dotimes"), [S("i"), r.randrange(0, 4)], body], S(v)]
        if c == 18:
            return [S("swap-args"), S(r.choice(["-", "add"])), self.int_(d - 1), self.int_(d - 1)]
        if c == 19:
            return [S("with-probe"), S(r.choice(["t1", "t2"])), self.int_(d - 1)]
        if c == 20:     # handler turning a failure into a number computed from the error's data
            return [S("handler-bind"), [[S(r.choice(CONDS + ["condition"])), L([S("c"), S("&rest"), S("d")], [S("probe"), Q(S("handling")), S("c")], [S("if"), [S("int?"), [S("car"), S("d")]], [S("+"), 100, [S("car"), S("d")]], -1])]], self.failing_int(d - 1)]
        if c == 21:
            return [S("or"), [S("ignore-errors"), self.failing_int(d - 1)], self.int_(d - 2)]
        if c == 22:
            return [S("load-string"), SRC([self.closed_int(d - 1)])]
        if c == 23:
            return [S("thread-first"), self.int_(d - 1), [S("add"), self.int_(d - 2)], [S(r.choice(["inc", "lib:lib-inc"]))]]
        if c == 24:
            return [S("thread-last"), self.int_(d - 1), [S("-"), self.int_(d - 2)], [S("inc")]]
        if c == 25:
            return [S("cond"), [self.bool_(d - 1), self.int_(d - 1)], [self.bool_(d - 1), self.int_(d - 1)], [S(":else"), self.int_(d - 1)]]
        if c == 26:
            return [S("flet"), [[S("h"), [S("u")], [S("+"), S("u"), self.int_(d - 2)]]], [S("h"), self.int_(d - 1)]]
        if c == 27:
            return [S("eval"), r.choice([Q([S("add"), 1, 2]), [S("list"), Q(S("inc")), self.int_(d - 1)], [S("macroexpand"), Q([S("swap-args"), S("-"), 1, 10])], QQ([S("+"), UQ(self.int_(d - 1)), 1])])]
        if c == 28:
            return [S("get"), self.map_(d - 1), r.choice([STR("a"), STR("b"), Q(S("a")), Q(S("b"))])]
        if c == 29:
            return [S("lib:lib-apply"), r.choice([S("inc"), L([S("q")], [S("+"), S("q"), S("g1")]), Q(S("inc")), S("lib:lib-inc")]), self.int_(d - 1)]
        if c == 30:
            return [S("macrolet"), [[S("dbl"), [S("e")], QQ([S("*"), 2, UQ(S("e"))])]], [S("dbl"), self.int_(d - 1)]]
        if c == 31:
            return [S("nth"), self.list_(d - 1), r.randrange(0, 3)]        # may be () : an ill-typed use may follow
        if c == 32:
            return [S("aref"), self.vec_(d - 1), r.randrange(0, 2)]
        return [S("funcall"), r.choice([[S("compose"), S("inc"), S("inc")], [S("curry-function"), S("add"), self.int_(d - 2)], [S("flip"), S("-")]])] + ([self.int_(d - 1)] if r.random() < 0.7 else [self.int_(d - 1), self.int_(d - 2)])

    def closed_int(self, d):
        """an int expression that reads globals only (it is rendered into a nested source text, which has no access to the
        locals of the place it is loaded from)"""
        saved = self.ints
        self.ints = ["g1", "g2"]
        try:
            return self.int_(d)
        finally:
            self.ints = saved

    def with_int(self, v, thunk):
        self.ints = self.ints + [v]
        try:
            return thunk()
        finally:
            self.ints = self.ints[:-1]

    def failing_int(self, d):
        r = self.r
        if r.random() < 0.45:
            # failures that happen inside a callback or a later call AFTER a tail loop has run (and been collapsed) in the
            # same builtin call, operator or function: what the error reports is the place of the call that failed
            ns = lambda: [S("list")] + [r.choice([0, 1, 2, 3]) for _ in range(r.randrange(0, 3))] + [r.choice([-1, -2, -3])] + [r.choice([1, 2]) for _ in range(r.randrange(0, 2))]
            return r.choice([
                lambda: [S("map"), Q(S("list")), r.choice([S("down-then-fail"), Q(S("down-then-fail")), L([S("e")], [S("down-then-fail"), S("e")])]), ns()],
                lambda: [S("foldl"), L([S("acc"), S("e")], [S("+"), S("acc"), [S("down-then-fail"), S("e")]]), 0, ns()],
                lambda: [S("foldr"), L([S("e"), S("acc")], [S("down-then-fail"), S("e")]), 0, ns()],
                lambda: [S(r.choice(["select", "reject"])), Q(S("list")), L([S("e")], [S("="), 0, [S("down-then-fail"), S("e")]]), ns()],
                lambda: [S(r.choice(["any?", "all?"])), L([S("e")], [S("="), 1, [S("down-then-fail"), S("e")]]), ns()],
                lambda: [S("stable-sort"), L([S("p"), S("q")], [S("<"), [S("down-then-fail"), S("p")], S("q")]), ns()],
                lambda: [S("progn"), [S("down-then-fail"), r.randrange(1, 4)], [S("down-then-fail"), r.choice([-1, -2])]],
                lambda: [S("+"), [S("down-then-fail"), r.randrange(1, 4)], [S("down-then-fail"), r.choice([-1, -3])]],
                lambda: [S("apply"), S("down-then-fail"), [S("list"), r.choice([-1, -2])]],
                lambda: [S("funcall"), L([S("k")], [S("down-then-fail"), 2], [S("down-then-fail"), S("k")]), r.choice([-1, -2])],
                lambda: [S("lib:lib-apply"), S("down-then-fail"), r.choice([-1, -2, -3])],
                lambda: [S("my-when"), S("true"), [S("down-then-fail"), 2], [S("down-then-fail"), r.choice([-1, -2])]],
                lambda: [S("thread-first"), r.choice([-1, -2]), [S("down-then-fail")], [S("inc")]],
                lambda: [S("dotimes"), [S("i"), 4], [S("down-then-fail"), [S("-"), r.randrange(1, 3), S("i")]]],
                lambda: [S("let"), [[S("v"), [S("down-then-fail"), 3]]], [S("list"), S("v"), [S("down-then-fail"), -2]]],
                lambda: [S("assert"), [S(r.choice(["even-p", "odd-p"])), r.randrange(1, 4)]],
                lambda: [S("add"), [S("down-then-fail"), 2], S(r.choice(["lib:no-such-name", "nopkg:x", "lisp:nope"]))],
                lambda: [S("list"), [S("list"), 1, 2], S("g1"), S(r.choice(["lib:no-such-name", "nopkg:x"])), 4],
                lambda: [S("count-down"), 2, [S("list"), [S("down-then-fail"), r.choice([-1, -2])]]],
                lambda: [S("cond"), [[S("="), 1, [S("down-then-fail"), 2]], 5], [[S("="), 0, [S("down-then-fail"), -2]], 6], [S(":else"), 7]],
            ])()
        c = r.randrange(9)
        if c == 0:
            return [S("fail-with"), Q(S(r.choice(CONDS))), self.int_(d - 1)]
        if c == 1:
            return [S("error"), Q(S(r.choice(CONDS))), self.int_(d - 1), Q(S("extra"))]
        if c == 2:
            return [S("+"), 1, [S("car"), self.int_(d - 1)]]
        if c == 3:
            return [S("progn"), [S("probe"), Q(S("before-fail"))], S("unbound-name"), [S("probe"), Q(S("after-fail"))]]
        if c == 4:
            return [S("inc"), 1, 2]
        if c == 5:
            return [S("count-down"), 2, [S("fail-with"), Q(S("cond-a")), 7]]
        if c == 6:
            return [S("map"), Q(S("list")), L([S("e")], [S("if"), [S("="), S("e"), 2], [S("error"), Q(S("cond-b")), S("e")], S("e")]), Q([1, 2, 3])]
        if c == 7:
            return [S("handler-bind"), [[S("cond-a"), L([S("c"), S("&rest"), S("d")], [S("rethrow")])]], [S("fail-with"), Q(S("cond-a")), self.int_(d - 1)]]
        return self.int_(d)      # does not fail after all

    # ---------------------------------------------------------------- bools
    def bool_(self, d):
        r = self.r
        if d <= 0:
            return r.choice([S("true"), S("false"), []])
        c = r.randrange(9)
        if c < 3:
            return [S(r.choice(["<", ">", "=", "<=", ">="])), self.int_(d - 1), self.int_(d - 1)]
        if c == 3:
            return [S(r.choice(["and", "or"])), self.bool_(d - 1), self.bool_(d - 1)]
        if c == 4:
            return [S("not"), self.bool_(d - 1)]
        if c == 5:
            return [S(r.choice(["even-p", "odd-p"])), r.randrange(0, 4)]
        if c == 6:
            return [S(r.choice(["nil?", "empty?"])), self.list_(d - 1)]
        if c == 7:
            return [S(r.choice(["any?", "all?"])), L([S("e")], [S(">"), S("e"), self.int_(0)]), self.list_(d - 1)]
        return [S("equal?"), self.list_(d - 1), self.list_(d - 1)]

    # ---------------------------------------------------------------- lists (of ints)
    def list_(self, d):
        r = self.r
        if d <= 0 or r.random() < 0.2:
            return r.choice([Q([1, 2, 3]), S(r.choice(self.lists)), [], [S("list"), 4, 5]])
        c = r.randrange(17)
        if c == 0:
            return [S("list")] + [self.int_(d - 1) for _ in range(r.randrange(4))]
        if c == 1:
            return [S("cons"), self.int_(d - 1), self.list_(d - 1)]
        if c == 2:
            return [S(r.choice(["cdr", "rest"])), self.list_(d - 1)]
        if c == 3:      # map with a closure capturing a local
            v = "m"
            return [S("let"), [[S(v), self.int_(d - 1)]], [S("map"), Q(S("list")), self.with_int(v, lambda: L([S("e")], [S("+"), S("e"), S(v)])), self.list_(d - 1)]]
        if c == 4:
            return [S(r.choice(["select", "reject"])), Q(S("list")), L([S("e")], [S(">"), S("e"), self.int_(0)]), self.list_(d - 1)]
        if c == 5:
            return [S("count-down"), r.randrange(0, 4), self.list_(d - 2)]
        if c == 6:
            return [S("rest-fn")] + [self.int_(d - 1) for _ in range(r.randrange(1, 4))]
        if c == 7:
            return [S("opt-fn")] + [self.int_(d - 1) for _ in range(r.choice([1, 2, 3, 1, 2, 0, 4]))]
        if c == 8:
            args = [self.int_(d - 1)]
            for k in r.sample(["k1", "k2"], r.randrange(0, 3)):
                args += [S(":" + k), self.int_(d - 1)]
            if r.random() < 0.1:
                args += [S(":k3"), 1]
            return [S("key-fn")] + args
        if c == 9:
            return [S("stable-sort"), r.choice([S("<"), S(">"), L([S("p"), S("q")], [S("<"), [S("mod"), S("p"), 3], [S("mod"), S("q"), 3]])]), self.list_(d - 1)]
        if c == 10:
            return QQ([self.r.randrange(5), UQ(self.int_(d - 1)), UQS(self.list_(d - 1)), UQ(self.int_(d - 2))])
        if c == 11:
            return [S("twice"), self.int_(d - 1)]
        if c == 12:
            return [S("my-when"), self.bool_(d - 1), [S("probe"), Q(S("when-body"))], self.list_(d - 1)]
        if c == 13:
            return [S("apply"), r.choice([S("rest-fn"), Q(S("rest-fn")), S("list"), S("opt-fn")]), self.int_(d - 1), self.list_(d - 1)]
        if c == 14:
            return [S("keys"), self.map_(d - 1)]
        if c == 15:
            v = r.choice(["acc", "out"])
            body = self.with_int("i", lambda: [S("set!"), S(v), [S("cons"), self.int_(d - 2), S(v)]])
            return [S("let"), [[S(v), []]], [S("dotimes"), [S("i"), r.randrange(0, 4), S(v)], body]]
        return [S("concat"), Q(S("list")), self.list_(d - 1), self.list_(d - 1)]

    def vec_(self, d):
        r = self.r
        c = r.randrange(4)
        if c == 0 or d <= 0:
            return r.choice([S("vec"), [S("vector"), 1, 2, 3]])
        if c == 1:
            return [S("map"), Q(S("vector")), S(r.choice(self.fun1)), self.list_(d - 1)]
        if c == 2:
            return [S("append"), Q(S("vector")), S("vec"), self.int_(d - 1)]
        return [S("vector")] + [self.int_(d - 1) for _ in range(r.randrange(1, 4))]

    def map_(self, d):
        r = self.r
        c = r.randrange(4)
        if c == 0 or d <= 0:
            return r.choice([S("mp"), [S("sorted-map"), STR("a"), 1]])
        if c == 1:
            return [S("assoc"), self.map_(d - 1), r.choice([STR("a"), Q(S("b")), STR("c")]), self.int_(d - 1)]
        if c == 2:
            return [S("dissoc"), self.map_(d - 1), r.choice([STR("a"), Q(S("b"))])]
        return [S("sorted-map"), STR("b"), self.int_(d - 1), Q(S("a")), self.int_(d - 1)]

    def any_(self, d):
        k = self.r.random()
        if k < 0.45:
            return self.int_(d)
        if k < 0.7:
            return self.list_(d)
        if k < 0.8:
            return self.bool_(d)
        if k < 0.88:
            return self.failing_int(d)
        if k < 0.94:
            return self.vec_(d - 1)
        return self.map_(d - 1)


GUARD = lambda f: [S("handler-bind"), [[S("condition"), L([S("c"), S("&rest"), S("r")], [S("probe"), Q(S("err")), S("c")], Q(S("e")))]], f]


def mix_program(rnd, nforms=None, depth=4, guard=True):
    g = Mix(rnd)
    forms = list(PRELUDE)
    n = nforms or rnd.randrange(3, 7)
    for j in range(n):
        k = rnd.random()
        if k < 0.12:
            # a definition made in mid-program: a function over the generator's language, used by later forms
            name = "u%d" % j
            body = g.with_int("n", lambda: g.int_(depth - 1))
            forms.append([S("defun"), S(name), [S("n")], body])
            g.fun1 = g.fun1 + [name]
            continue
        if k < 0.17:
            forms.append([S("set"), Q(S(rnd.choice(["g1", "g2"]))), g.closed_int(depth - 2)])
            continue
        if k < 0.2:
            forms.append([S("set"), Q(S("lst")), g.list_(depth - 2)])
            continue
        e = g.any_(depth)
        forms.append([S("probe"), Q(S("v")), GUARD(e) if guard else e])
    forms.append([S("probe"), Q(S("end")), S("g1"), S("g2"), S("lst"), [S("funcall"), S("ctr")]])
    return forms


def mix_fail_program(rnd, depth=3):
    """a mix program whose LAST form fails unguarded (C18 compares the position the error carries and every frame of its
    stack): the failure sits under a short chain of wrappers, in some programs behind a handler that rethrows it"""
    g = Mix(rnd)
    forms = list(PRELUDE)
    for j in range(rnd.randrange(0, 3)):
        forms.append([S("probe"), Q(S("v")), GUARD(g.any_(depth))])
    e = g.failing_int(depth)
    for _ in range(rnd.randrange(0, 3)):
        w = rnd.randrange(8)
        if w == 0:
            e = [S("let"), [[S("z"), 1]], e]
        elif w == 1:
            e = [S("progn"), [S("probe"), Q(S("before"))], e]
        elif w == 2:
            e = [S("list"), 1, e]
        elif w == 3:
            e = [S("inc"), e]
        elif w == 4:
            e = [S("if"), S("true"), e, 0]
        elif w == 5:
            e = [S("funcall"), L([], e)]
        elif w == 6:
            e = [S("with-probe"), S("t9"), e]
        else:
            e = [S("or"), [], e]
    if rnd.random() < 0.3:
        e = [S("handler-bind"), [[S("condition"), L([S("c"), S("&rest"), S("r")], [S("capture")], [S("rethrow")])]], e]
    forms.append(e)
    forms.append([S("probe"), Q(S("not-reached"))])
    return forms
