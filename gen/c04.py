"""C04  Execution limits only truncate a computation and bound work and stack exactly.

  1. Kernel.tla exhaustive with a finite budget and two entries: K1 K2 K9 K10 StepsBound.
  2. Machine.tla as oracle (B1): every program under EVERY step budget n = 1..S+1 (S = steps of the
     unlimited run), under cancellation at every poll index, and under small physical-height /
     nesting / tail-iteration / macro-expansion limits; histories of several top-level evaluations
     (budget refilled per evaluation; runtime usable after a limit error).
  3. The property's relations evaluated on the real runs themselves: prefix law (effects tagged with
     a step <= n are exactly the unlimited run's), exhaustion (no effect after the budget ran out),
     enough-budget law, bounds on frames and nesting at every probe.
  4. B2: `step` / `nest` / `push` events of the same runs validated by KernelTrace.tla.
"""
import random, json
from vlib import *
import progs as P, mach, ktrace
from progs import S, Q, STR

KERNEL_CFG = """SPECIFICATION Spec
CONSTANTS FIDS = {"f", "g"}
 G = %(G)d
 MAXPHYS = 3
 MAXTAIL = 2
 MAXNEST = 4
 MAXMACRO = 1
 KIDS = 1
 TRO = TRUE
 BUDGET = %(B)d
 ENTRIES = %(E)d
 FIXTERM = TRUE
 CTXFIX = TRUE
INVARIANTS K1 K2 K5 K7 K7b K9 K10 FramesMatchGo
PROPERTIES BudgetStops StepMonotone
VIEW View
CHECK_DEADLOCK FALSE
"""


def special_programs():
    """(name, [evaluations])  each evaluation a list of forms"""
    out = []
    out.append(("dotimes-empty", [[[S("dotimes"), [S("i"), 6]], [S("probe"), Q(S("after"))]]]))
    out.append(("dotimes-body", [[[S("dotimes"), [S("i"), 4, [S("probe"), Q(S("res")), S("i")]], [S("probe"), Q(S("t")), S("i")]], [S("probe"), Q(S("after"))]]]))
    out.append(("dotimes-nested", [[[S("dotimes"), [S("i"), 3], [S("dotimes"), [S("j"), 2], [S("probe"), S("i"), S("j")]]]]]))
    out.append(("dotimes-swallowed", [[[S("probe"), 1], [S("ignore-errors"), [S("dotimes"), [S("i"), 9]]], [S("probe"), 2],
                                       [S("handler-bind"), [[S("condition"), [S("lambda"), [S("c"), S("&rest"), S("r")], S("c")]]], [S("dotimes"), [S("i"), 5]]], [S("probe"), 3]]]))
    out.append(("macro-rec", [[[S("defmacro"), S("cnt"), [S("n")], [S("if"), [S("<="), S("n"), 0], [S("quasiquote"), [S("probe"), Q(S("z"))]],
                                                                 [S("quasiquote"), [S("cnt"), [S("unquote"), [S("-"), S("n"), 1]]]]]],
                               [S("cnt"), 5], [S("probe"), Q(S("after"))]]]))
    out.append(("tail-loop", [[[S("defun"), S("lp"), [S("n")], [S("probe"), S("n")], [S("if"), [S("<="), S("n"), 0], Q(S("done")), [S("lp"), [S("-"), S("n"), 1]]]],
                               [S("lp"), 6]]]))
    out.append(("rec", [[[S("defun"), S("r"), [S("n")], [S("if"), [S("<="), S("n"), 0], 0, [S("+"), 1, [S("r"), [S("-"), S("n"), 1]]]]],
                         [S("probe"), [S("r"), 5]]]]))
    out.append(("swallow", [[[S("defun"), S("lp"), [S("n")], [S("probe"), S("n")], [S("if"), [S("<="), S("n"), 0], Q(S("done")), [S("lp"), [S("-"), S("n"), 1]]]],
                             [S("probe"), Q(S("a")), [S("ignore-errors"), [S("lp"), 4]]],
                             [S("probe"), Q(S("b")), [S("handler-bind"), [[S("condition"), [S("lambda"), [S("c"), S("&rest"), S("r")], [S("probe"), Q(S("h")), S("c")], S("c")]]], [S("lp"), 3]]],
                             [S("probe"), Q(S("end"))]]]))
    out.append(("refill", [[[S("defun"), S("lp"), [S("n")], [S("if"), [S("<="), S("n"), 0], [S("probe"), Q(S("done"))], [S("lp"), [S("-"), S("n"), 1]]]]],
                           [[S("lp"), 5]], [[S("lp"), 2]], [[S("probe"), Q(S("third")), [S("lp"), 3]]]]))
    # every new evaluation starts with a full budget WHATEVER ended the one before it: a value, an ordinary error, a host
    # panic in a builtin called directly, through funcall / apply, as the callback of map / foldl / stable-sort, in a host
    # macro or a host special operator
    LP = [S("defun"), S("lp"), [S("n")], [S("if"), [S("<="), S("n"), 0], [S("probe"), Q(S("done"))], [S("lp"), [S("-"), S("n"), 1]]]]
    faults = [[S("map"), Q(S("list")), S("boom"), Q([1, 2])], [S("funcall"), Q(S("boom"))], [S("apply"), S("boom"), Q([1])], [S("foldl"), S("boom"), 0, Q([1])],
              [S("stable-sort"), S("boom"), [S("list"), 2, 1]], [S("boom")], [S("boom-macro"), 1], [S("boom-op"), 1], [S("error"), Q(S("plain")), 1], [S("car"), 1, 2],
              [S("handler-bind"), [[S("internal-panic"), [S("lambda"), [S("c"), S("&rest"), S("r")], [S("funcall"), Q(S("boom"))]]]], [S("boom")]], [S("all?"), S("boom"), Q([1])]]
    hist = [[LP]]
    for f in faults:
        hist += [[f], [[S("probe"), Q(S("next")), [S("lp"), 2]]]]
    out.append(("refill-after-fault", hist))
    # nested loads made from inside function bodies (cancellation and budget must reach them)
    inner = [[S("dotimes"), [S("i"), 5], [S("probe"), Q(S("in")), S("i")]], [S("probe"), Q(S("inner-done"))]]
    out.append(("nested-load", [[[S("defun"), S("f"), [], [S("let"), [[S("x"), 1]], [S("load-string"), P.SRC(inner)]]]],
                                [[S("probe"), Q(S("r")), [S("f")]], [S("probe"), Q(S("after"))]]]))
    out.append(("nested-load-top", [[[S("probe"), Q(S("a"))], [S("load-string"), P.SRC(inner)], [S("probe"), Q(S("b"))]]]))
    return out


def limit_programs():
    """programs exercising the stack / nesting / tail / macro limits, with the error caught and the
    runtime used again afterwards"""
    catch = lambda e: [S("handler-bind"), [[S("condition"), [S("lambda"), [S("c"), S("&rest"), S("r")], [S("probe"), Q(S("caught")), S("c")], Q(S("recovered"))]]], e]
    defs = [[S("defun"), S("r"), [S("n")], [S("probe"), Q(S("r")), S("n")], [S("if"), [S("<="), S("n"), 0], 0, [S("+"), 1, [S("r"), [S("-"), S("n"), 1]]]]],
            [S("defun"), S("lp"), [S("n")], [S("if"), [S("<="), S("n"), 0], [S("probe"), Q(S("done"))], [S("lp"), [S("-"), S("n"), 1]]]],
            [S("defun"), S("drain"), [S("a"), S("b"), S("c")], [S("probe"), Q(S("drain")), S("a")], [S("if"), S("a"), [S("drain"), S("b"), S("c"), []], 7]],
            [S("defun"), S("dive"), [S("d")], [S("if"), [S("="), S("d"), 0], [S("drain"), 1, 1, []], [S("+"), 0, [S("dive"), [S("-"), S("d"), 1]]]]],
            [S("defmacro"), S("cnt"), [S("n")], [S("if"), [S("<="), S("n"), 0], 7, [S("quasiquote"), [S("cnt"), [S("unquote"), [S("-"), S("n"), 1]]]]]],
            # an expansion chain that alternates between two macros (and one that never ends): the bound counts expansions, not names
            [S("defmacro"), S("ping"), [S("n")], [S("if"), [S("<="), S("n"), 0], 8, [S("quasiquote"), [S("pong"), [S("unquote"), [S("-"), S("n"), 1]]]]]],
            [S("defmacro"), S("pong"), [S("n")], [S("if"), [S("<="), S("n"), 0], 9, [S("quasiquote"), [S("ping"), [S("unquote"), [S("-"), S("n"), 1]]]]]],
            [S("defmacro"), S("ping-forever"), [], Q([S("pong-forever")])], [S("defmacro"), S("pong-forever"), [], Q([S("ping-forever")])]]

    def nestexpr(d):
        e = [S("probe"), Q(S("deep"))]
        for _ in range(d):
            e = [S("list"), e]
        return e
    out = []
    for n in (1, 2, 3, 4, 6):
        out.append(("phys-r%d" % n, [defs, [[S("probe"), Q(S("v")), catch([S("r"), n])]], [[S("probe"), Q(S("again")), [S("r"), 1]]]]))
        out.append(("tail-lp%d" % n, [defs, [[S("probe"), Q(S("v")), catch([S("lp"), n])]], [[S("probe"), Q(S("again")), [S("lp"), 1]]]]))
        out.append(("macro-cnt%d" % n, [defs, [[S("probe"), Q(S("v")), catch([S("cnt"), n])]], [[S("probe"), Q(S("again")), [S("cnt"), 1]]]]))
        out.append(("macro-pingpong%d" % n, [defs, [[S("probe"), Q(S("v")), catch([S("ping"), n])]], [[S("probe"), Q(S("again")), [S("ping"), 1]]]]))
        out.append(("nest-%d" % n, [defs, [[S("probe"), Q(S("v")), catch(nestexpr(n))]], [[S("probe"), Q(S("again")), nestexpr(1)]]]))
        out.append(("uncaught-r%d" % n, [defs, [[S("r"), n]], [[S("probe"), Q(S("again")), [S("r"), 1]]]]))
    # recursion carried by builtins calling builtins over nested data (foldl -> apply -> foldl ...): two frames per level
    for n in (1, 2, 3, 5):
        build = [[S("set"), Q(S("x")), [S("list"), S("+"), 0, [S("list"), 1, 2]]]] + [[S("set"), Q(S("x")), [S("list"), S("apply"), S("foldl"), [S("list"), S("x")]]]] * n + [0]
        out.append(("builtin-chain%d" % n, [defs, build, [[S("probe"), Q(S("v")), catch([S("apply"), S("foldl"), S("x")])]], [[S("probe"), Q(S("again")), [S("apply"), S("foldl"), S("x")]]]]))
    # tail calls whose arguments are symbols and constants: the tail call itself is the deepest push of the loop
    for d in (0, 1, 2, 3):
        out.append(("tail-drain%d" % d, [defs, [[S("probe"), Q(S("v")), catch([S("dive"), d])]], [[S("probe"), Q(S("again")), [S("drain"), 1, [], []]]]]))
    out.append(("macro-forever", [defs, [[S("probe"), Q(S("v")), catch([S("ping-forever")])]], [[S("probe"), Q(S("again")), [S("cnt"), 1]]]]))
    return out


LIMIT_CFGS = [{"maxphys": 2}, {"maxphys": 3}, {"maxphys": 4}, {"maxphys": 7}, {"maxphys": 8}, {"maxphys": 9}, {"maxtail": 2}, {"maxtail": 4}, {"maxmacro": 3}, {"maxnest": 4}, {"maxnest": 6},
              {"maxphys": 5, "maxnest": 5, "maxtail": 3, "maxmacro": 2}]


def run(tier):
    V = Verdict("C04", tier)
    work = Work("C04")
    try:
        return _run(V, work, tier)
    finally:
        work.close()


def tag_steps(ev):
    return [(tuple(mach.nr(x) for x in p["tag"]), p["steps"]) for p in (ev.get("probes") or [])]


def _run(V, work, tier):
    thorough = tier == "thorough"
    rnd = random.Random(seed())
    binary = build_driver()

    # ---- 1. Kernel with a finite budget, two entries --------------------------
    kc = {"G": 6 if thorough else 5, "B": 5 if thorough else 4, "E": 2}
    res = run_tlc(work, "Kernel", KERNEL_CFG % kc, timeout=3000)
    V.tlc(res, "Kernel exhaustive, budget %(B)d, %(E)d entries, G=%(G)d" % kc)
    if res.violated or "violated" in res.raw:
        raise MachineryError("Kernel invariant %s violated inside the model:\n%s" % (res.violated, res.raw[-3000:]))

    # ---- 2. programs -------------------------------------------------------------
    progs_ = special_programs()
    for i in range(40 if thorough else 10):
        progs_.append(("shape%d" % i, [P.shape_program(rnd, wide=True, maxn=3)]))
    # unlimited real run first: gives S per evaluation
    base = driver_json(binary, ["run"], [{"id": n, "seq": [P.src(f) for f in evals], "cfg": {}} for n, evals in progs_])
    baser = {r["id"]: r["runs"][0]["evals"] for r in base}
    recs, drv, meta = [], [], {}
    maxb = 400 if thorough else 90
    for name, evals in progs_:
        S_ = max(e["steps"] for e in baser[name])
        budgets = list(range(1, S_ + 2))
        if len(budgets) > maxb:
            budgets = sorted(rnd.sample(budgets[:-2], maxb - 2) + budgets[-2:])
        srcs = [P.src(f) for f in evals]
        recs.append(mach.prog_record(name + "/inf", evals, {}))
        for n in budgets:
            cid = "%s/b%d" % (name, n)
            recs.append(mach.prog_record(cid, evals, {"budget": n}))
            drv.append({"id": cid, "seq": srcs, "cfg": {"maxsteps": n}})
            meta[cid] = (name, "budget", n)
        # cancellation at poll index k (polls happen once per successful step)
        for k in (budgets if thorough else budgets[::3]):
            cid = "%s/c%d" % (name, k)
            recs.append(mach.prog_record(cid, evals, {"cancel": k}))
            drv.append({"id": cid, "seq": srcs, "cfg": {"cancel_at": k}})
            meta[cid] = (name, "cancel", k)
        if name.startswith("nested-load") and len(evals) > 1:
            # the definitions are loaded through the context-less entry point; the context arrives with evaluation 2
            for k in budgets:
                cid = "%s/n%d" % (name, k)
                recs.append(mach.prog_record(cid, evals, {"cancel": k, "noctx": 1}))
                drv.append({"id": cid, "seq": srcs, "cfg": {"cancel_at": k, "noctx_first": 1}})
                meta[cid] = (name, "cancel-late-ctx", k)
    for name, evals in limit_programs():
        srcs = [P.src(f) for f in evals]
        for li, lc in enumerate(LIMIT_CFGS):
            cid = "%s/l%d" % (name, li)
            # (a generous step budget on both sides: a limit that has stopped working shows as a different error, not as a hang)
            recs.append(mach.prog_record(cid, evals, dict(lc, budget=60000)))
            drv.append({"id": cid, "seq": srcs, "cfg": dict(lc, maxsteps=60000)})
            meta[cid] = (name, "limits", lc)
    model, res = mach.run_machine(work, recs, timeout=3000)
    V.tlc(res, "Machine: %d (program, limit configuration) runs" % len(recs))
    if res.violated:
        raise MachineryError("Machine invariant %s violated in the model:\n%s" % (res.violated, res.raw[-2000:]))
    if len(model) != len(recs):
        raise MachineryError("Machine produced %d of %d transcripts" % (len(model), len(recs)))
    real = {r["id"]: r["runs"][0]["evals"] for r in driver_json(binary, ["run"], drv)}
    srcof = {n: [P.src(f) for f in evals] for n, evals in progs_ + limit_programs()}

    # unlimited: model vs real
    for name, evals in progs_:
        for j, (me, re_) in enumerate(zip(model[name + "/inf"], baser[name])):
            d = mach.compare_eval(me, re_)
            if d:
                V.add(None, "Machine/real disagreement, unlimited run, evaluation %d: %s" % (j, d), {"src": srcof[name], "diff": d})

    nrel = 0
    for cid, (name, kind, par) in meta.items():
        src = srcof[name]
        # (a) the specification's prediction for exactly this configuration
        for j, (me, re_) in enumerate(zip(model[cid], real[cid])):
            d = mach.compare_eval(me, re_)
            if d:
                V.add(None, "Machine/real disagreement under %s=%s, evaluation %d: %s" % (kind, par, j, d), {"src": src, kind: par, "diff": d})
                break
        if len(model[cid]) != len(real[cid]):
            V.add(None, "number of evaluations differs", {"src": src})
        # (b) the property's relations on the real runs
        if kind == "cancel-late-ctx":
            pass
        elif kind in ("budget", "cancel"):
            for j, (re_, inf) in enumerate(zip(real[cid], baser[name])):
                # the relations compare an evaluation with the unlimited run's only while the history before it
                # is the same (an earlier truncated evaluation legitimately changes what later ones do); the
                # poll counter of a cancellation runs across the whole history, so only evaluation 0 is related
                if j > 0 and (kind == "cancel" or any(mach.nr(real[cid][i]["v"]) != mach.nr(baser[name][i]["v"]) or tag_steps(real[cid][i]) != tag_steps(baser[name][i]) for i in range(j))):
                    break
                nrel += 1
                lim = par if kind == "budget" else par - 1      # cancel at poll k: steps 1..k-1 succeeded
                mine, full = tag_steps(re_), tag_steps(inf)
                # (effects completed by calls that were already entered when the budget ran out are allowed by
                # the statement; "no further step succeeds" is decided by the Machine comparison above and,
                # on the hook trace, by KernelTrace's `failed` discipline)
                pre = [x for x in full if x[1] <= lim]
                got = [x for x in mine if x[1] <= lim]
                if got != pre:
                    V.add(None, "prefix law broken under %s=%d (evaluation %d): effects up to that step differ from the unlimited run's" % (kind, par, j),
                          {"src": src, kind: par, "limited": str(got)[:800], "unlimited": str(pre)[:800]})
                if kind == "budget":
                    if inf["steps"] <= par:
                        if mach.nr(re_["v"]) != mach.nr(inf["v"]) or mine != full:
                            V.add(None, "budget %d suffices (unlimited run needs %d) but the outcome differs" % (par, inf["steps"]), {"src": src, "budget": par})
                    else:
                        v = mach.nr(re_["v"])
                        if re_["steps"] <= par:
                            V.add(None, "evaluation ended below its budget although the unlimited run needs more steps", {"src": src, "budget": par, "steps": re_["steps"]})
                else:
                    if inf["steps"] >= par and not (re_["v"]["t"] == "err" or re_["steps"] >= par):
                        V.add(None, "evaluation continued past the cancel poll", {"src": src, "cancel_at": par})
        else:
            for j, re_ in enumerate(real[cid]):
                nrel += 1
                for p in (re_.get("probes") or []):
                    if "maxphys" in par and len(p["frames"]) + 1 > par["maxphys"]:
                        V.add(None, "more frames than the physical maximum %d" % par["maxphys"], {"src": src, "cfg": par})
                    if "maxnest" in par and p["nest"] > par["maxnest"]:
                        V.add(None, "evaluator nesting %d above maximum %d" % (p["nest"], par["maxnest"]), {"src": src, "cfg": par})
                if re_["v"]["t"] == "err" and re_["v"].get("panic"):
                    V.add(None, "limit produced an internal panic instead of an ordinary error", {"src": src, "cfg": par})
        if len(V.coverage["samples"]) < 4 and kind != "limits" and par in (3, 7):
            V.sample({"program": src[-1][:300], kind: par, "model_value": str(mach.nm(model[cid][-1]["v"])), "real_steps": real[cid][-1]["steps"]})
    # ---- 2b. a limit that is never reached changes nothing -----------------------------------------------------
    # (C04: limits only truncate.)  Every program is run under each limit configuration, and again with ONE more limit
    # added at a value no run can reach; the two real transcripts must be identical.  This is where limits interact:
    # a tail-iteration bound must keep working when a logical-height bound is configured as well, and so on.
    SLACK = {"maxlog": 10**9, "maxphys": 10**8, "maxtail": 10**9, "maxnest": 10**8, "maxmacro": 10**6, "maxsteps": 10**12}
    W = {w[0]: w for w in P.WRAPPERS}
    loops = [("tail-loop", [P.loop_program(rnd, [W["if-else"]], 40)]), ("mutual-tail-loop", [P.loop_program(rnd, [W["progn-last"], W["cond-clause"]], 25, mutual=True)]),
             ("deep-rec", [P.loop_program(rnd, [W["arg-list"]], 30)])]
    srec = []
    for name, evals in progs_[: (len(progs_) if thorough else 14)] + loops:
        srcs = [P.src(f) for f in evals]
        for ci, lc in enumerate(LIMIT_CFGS + [{"maxtail": 10}, {"maxphys": 12}, {"maxlog": 9}, {"maxlog": 30}]):
            srec.append({"id": "%s|%d|base" % (name, ci), "seq": srcs, "cfg": lc})
            for k, v in SLACK.items():
                if k not in lc:
                    srec.append({"id": "%s|%d|%s" % (name, ci, k), "seq": srcs, "cfg": dict(lc, **{k: v})})
    sres = {r["id"]: r["runs"][0]["evals"] for r in driver_json(binary, ["run"], srec, timeout=3000)}

    def sig(evs):
        return [(json.dumps(e["v"], sort_keys=True), json.dumps([p["tag"] for p in (e.get("probes") or [])], sort_keys=True), (e.get("err") or {}).get("cond"), (e.get("err") or {}).get("msg")) for e in evs]
    nslack = 0
    for r in srec:
        name, ci, k = r["id"].split("|")
        if k == "base":
            continue
        nslack += 1
        if sig(sres[r["id"]]) != sig(sres["%s|%s|base" % (name, ci)]):
            a, b = sig(sres["%s|%s|base" % (name, ci)]), sig(sres[r["id"]])
            V.add(None, "adding the unreachable limit %s=%d to %r changes the outcome of %s" % (k, SLACK[k], r["cfg"], name),
                  {"src": r["seq"], "cfg": r["cfg"], "without": str(a)[-600:], "with": str(b)[-600:]})
    V.coverage["unreachable_limit_pairs"] = nslack
    V.coverage["relations_checked_on_real_runs"] = nrel

    # ---- 3. B2 traces ---------------------------------------------------------------
    pick = rnd.sample(drv, min(len(drv), 1500 if thorough else 400))
    tpath, summ = ktrace.record(work, binary, pick, maxev=100000)
    rej, tot = ktrace.validate_all(work, tpath)
    V.coverage["states"] += tot["states"]
    V.coverage["transitions"] += tot["generated"]
    V.coverage["trace_events"] = tot["events"]
    for r in rej:
        if r["prop"] == "C04":
            V.add(None, "real trace rejected by KernelTrace at a limit action: %s" % json.dumps(r["event"]), r)
        else:
            V.notes.append("trace rejection attributed to %s: %s" % (r["prop"], json.dumps(r["event"])))
    V.coverage["traces_validated_against_impl"] = len(meta) + summ["programs"]
    # ---- a pending time:sleep: a cancellation that arrives while an admitted sleep is in progress ends it at once, whatever
    # kind of context carries it (cancel-only, with a far deadline, with a ceiling); Time.tla's admission rule (C15) gives
    # the verdicts, here only the clause of THIS property is asked: stopped, and promptly
    sl = [{"id": "s%d" % i, "sleep": c} for i, c in enumerate([
        {"d": 3000, "max": 0, "ceiling": 0, "deadline": 0, "cancelled": False, "cancelat": 150},
        {"d": 3000, "max": 0, "ceiling": 0, "deadline": 60000, "cancelled": False, "cancelat": 150},
        {"d": 3000, "max": 5000, "ceiling": 0, "deadline": 60000, "cancelled": False, "cancelat": 150},
        {"d": 3000, "max": 0, "ceiling": 10000, "deadline": 20000, "cancelled": False, "cancelat": 150},
        {"d": 3000, "max": 0, "ceiling": 0, "deadline": 0, "cancelled": True, "cancelat": 0}])]
    for r in driver_json(binary, ["timex"], sl, timeout=120):
        c = [x for x in sl if x["id"] == r["id"]][0]["sleep"]
        if r["out"] != "context-cancelled" or r["elapsed_ms"] > 150 + 1500:
            V.add(None, "a cancelled context does not stop a pending time:sleep: %r answered %s after %d ms" % (c, r["out"], r["elapsed_ms"]), {"case": c, "real": r})
    V.coverage["pending_sleep_cancellations"] = len(sl)
    V.coverage["exhaustive"] = False
    V.coverage["explanation"] = "%d (program, budget/cancel/limit) configurations predicted by Machine.tla and replayed; budgets enumerate every n in 1..S+1 for programs with S <= %d" % (len(meta), maxb)
    V.assumptions += ["cancellation modelled as the k-th poll of ctx.Err() (deterministic), not wall-clock deadlines"]
    return V.finish()
