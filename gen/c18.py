"""C18  Errors identify the failing form and the calls that were active.

Machine.tla carries a per-environment location register (set by eval, saved/restored by evalSExprCells, set by
set!), stamps errors with a copy of it and of the call stack (every frame with its call-site location), keeps
template positions through quasiquote and gives position-less nodes of a macro expansion the macro call site.
For every generated failing program (19 error kinds - error, host panic, unbound symbol, arity and type errors
in builtins, non-function heads, rethrow outside a handler, errors in macro templates / macro-built forms,
failures at nested call depth, set! of an unbound symbol - under the wrapper chains of the shape family, inside
function bodies, handlers and macro arguments, with SEEDED RANDOM LAYOUT) TLC predicts the node whose position
the error must carry and the list of (frame name, call-site node); the harness maps node ids to (line, col)
of the rendered source and compares with (*LVal).Source() and CallStack() of the real error (binding B1).
"""
import random, json
from vlib import *
import progs as P, mach
from progs import S, Q, STR


def nested_source_programs():
    from progs import SRC
    leaves = [[S("car"), 5], [S("error"), Q(S("my-cond")), STR("boom")], S("unbound-zz"), [S("car"), 1, 2], [5, 1], [S("boom")], [S("set!"), S("never-bound"), 1],
              [S("funcall"), Q(S("car")), 1, 2]]
    out = []
    for leaf in leaves:
        texts = [[leaf], [1, leaf], [[S("list"), 2, leaf]], [[S("progn"), leaf, 3]], [[S("load-string"), SRC([leaf])]], [[S("list"), 1, [S("load-string"), SRC([7, leaf])]]]]
        for t in texts:
            call = [S("load-string"), SRC(t)]
            out.append([[S("defun"), S("outer"), [S("x")], [S("list"), S("x"), call]], [S("probe"), Q(S("r")), [S("outer"), 1]]])
            out.append([[S("list"), 1, call]])
            out.append([[S("handler-bind"), [[S("condition"), [S("lambda"), [S("c"), S("&rest"), S("r")], [S("capture")], [S("rethrow")]]]], [S("progn"), 0, call]]])
    return out


def expansion_time_load_programs():
    """a macro whose BODY loads a nested source text while it expands and then returns a form it built without any
    position: the form takes the macro call site - also when the call is evaluated directly in the root environment (a
    top-level form, under progn / if / handler-bind at top level), the environment a nested load runs in"""
    from progs import SRC
    defs = [[S("defmacro"), S("m-load-built"), [S("a")], [S("load-string"), SRC([[S("probe"), Q(S("expanding"))], 7])], [S("list"), S("car"), S("a"), 2]],
            [S("defmacro"), S("m-load-built-error"), [S("a")], [S("load-string"), SRC([1, 2])], [S("list"), S("error"), [S("list"), S("quote"), Q(S("built"))], S("a")]],
            [S("defmacro"), S("m-load-nested"), [S("a")], [S("load-string"), SRC([[S("load-string"), SRC([3])]])], [S("list"), S("list"), 1, [S("list"), S("cdr"), S("a"), S("a")]]]]
    out = []
    for call in ([S("m-load-built"), Q([1])], [S("m-load-built-error"), 5], [S("m-load-nested"), Q([1])]):
        for wrap in (lambda e: e, lambda e: [S("progn"), 0, e], lambda e: [S("if"), S("true"), e, 0], lambda e: [S("list"), 1, e],
                     lambda e: [S("handler-bind"), [[S("condition"), [S("lambda"), [S("c"), S("&rest"), S("r")], [S("capture")], [S("rethrow")]]]], e],
                     lambda e: [[S("lambda"), [], e]], lambda e: [S("let"), [[S("z"), 1]], e]):
            out.append(defs + [[S("probe"), Q(S("before"))], wrap(call)])
        out.append(defs + [[S("defun"), S("in-fn"), [], call], [S("in-fn")]])
    return out


def rejected_tail_call_programs():
    """a call in tail position that tail-call elimination collapses into an earlier frame of the same function and that
    the binder then REJECTS (wrong number of arguments, bad keyword): the error belongs to that call expression"""
    out = []
    N = S("n")
    dec = [S("-"), N, 1]
    tails = [lambda bad, go: [S("if"), [S("="), N, 0], bad, go], lambda bad, go: [S("if"), [S(">"), N, 0], go, bad],
             lambda bad, go: [S("cond"), [[S("="), N, 0], bad], [S("else"), go]], lambda bad, go: [S("progn"), [S("probe"), Q(S("turn")), N], [S("if"), [S("="), N, 0], bad, go]],
             lambda bad, go: [S("let"), [[S("m"), N]], [S("if"), [S("="), S("m"), 0], bad, go]]]
    for k in (0, 1, 3):
        for t in tails:
            for bad in ([S("f")], [S("f"), 1, 2]):
                out.append([[S("defun"), S("f"), [N], t(bad, [S("f"), dec])], [S("f"), k]])
            # the rejected call is reached through ordinary recursion: every frame below keeps its own call site
            out.append([[S("defun"), S("f"), [N], t([S("f")], [S("+"), 1, [S("f"), dec]])], [S("list"), 1, [S("f"), k]]])
            # mutual recursion: g's tail call of f is collapsed into f's frame, through g's
            out.append([[S("defun"), S("g"), [N], [S("if"), [S("="), N, 0], [S("f")], [S("f"), dec]]], [S("defun"), S("f"), [N], t([S("g"), 0], [S("g"), N])], [S("f"), k]])
        out.append([[S("defun"), S("f"), [N, S("&key"), S("a")], [S("if"), [S("="), N, 0], [S("f"), 0, S(":b"), 1], [S("f"), dec, S(":a"), 1]]], [S("f"), k]])
        out.append([[S("defun"), S("f"), [N, S("&optional"), S("o")], [S("if"), [S("="), N, 0], [S("f"), 0, 1, 2], [S("f"), dec, 1]]], [S("f"), k]])
    return out


def handler_history_programs():
    """an error B that was handled - and whose handler ended in an error - INSIDE the handler of another error A, after
    which A's handler rethrows: the host receives A with A's location and trace.  Returns (single-load programs,
    two-load histories whose second load calls rethrow outside every handler)"""
    H = lambda *body: [S("lambda"), [S("c"), S("&rest"), S("r")]] + list(body)
    As = [[S("error"), Q(S("a")), 1], [S("car"), 5], S("unbound-a"), [S("list"), 1, [S("error"), Q(S("a")), 2]]]
    Bs = [[S("error"), Q(S("b")), 2], [S("cdr"), 7], S("unbound-b")]
    inner_handlers = [H([S("rethrow")]), H([S("car"), 6]), H([S("error"), Q(S("in-handler")), 3]), H(Q(S("fine")))]
    single, double = [], []
    for a in As:
        for b in Bs:
            for ih in inner_handlers:
                cleanup = [S("ignore-errors"), [S("handler-bind"), [[S("condition"), ih]], [S("progn"), 0, b]]]
                single.append([[S("defun"), S("work"), [], [S("list"), 0, a]],
                               [S("handler-bind"), [[S("condition"), H(cleanup, [S("capture")], [S("rethrow")])]], [S("progn"), [S("probe"), Q(S("start"))], [S("work")]]]])
                # the same clean-up one level further in: a handler of B that itself handles a third error
                single.append([[S("handler-bind"), [[S("condition"), H([S("ignore-errors"), [S("handler-bind"), [[S("condition"), H(cleanup, [S("rethrow")])]], b]], [S("capture")], [S("rethrow")])]], a]])
        for ih in inner_handlers[:3]:
            double.append([[[S("probe"), Q(S("first"))], [S("handler-bind"), [[S("condition"), ih]], [S("list"), 1, a]]], [[S("probe"), Q(S("second"))], [S("list"), 2, [S("rethrow")]]]])
    return single, double


def limit_location_histories(rnd, thorough):
    """two Loads in one runtime under a step budget / a cancellation at every small index: whichever evaluation the limit
    ends, at whichever form, the error is located at the form that was about to be evaluated - inside THAT source"""
    first = [[S("defun"), S("g"), [S("x")], [S("list"), S("x")]], [S("g"), 1]]
    seconds = [[[S("g"), 2]], [[S("list"), 1, [S("g"), 2]], [S("g"), [S("g"), 3]]], [7, [S("g"), 4]],
               [[S("defun"), S("lp"), [S("n")], [S("if"), [S("="), S("n"), 0], Q(S("done")), [S("lp"), [S("-"), S("n"), 1]]]], [S("lp"), 3]],
               [[S("let"), [[S("a"), [S("g"), 5]]], [S("handler-bind"), [[S("condition"), [S("lambda"), [S("c"), S("&rest"), S("r")], Q(S("h"))]]], [S("g"), S("a")]]]]]
    out = []
    top = 44 if thorough else 30
    for sec in seconds:
        for b in range(1, top):
            out.append(([first, sec], {"budget": b}))
        for c in range(1, 2 * top, 1 if thorough else 2):
            out.append(([first, sec], {"cancel": c}))
    return out


def run(tier):
    V = Verdict("C18", tier)
    work = Work("C18")
    try:
        return _run(V, work, tier)
    finally:
        work.close()


def _run(V, work, tier):
    thorough = tier == "thorough"
    rnd = random.Random(seed())
    binary = build_driver()
    n = 6000 if thorough else 900
    recs, drv, poss = [], [], []
    for i in range(n):
        # two layouts of every third program: the position must follow the layout, nothing else may change
        forms = P.shape_program(rnd, wide=True, raise_p=0.4, err_kinds=True, maxn=4)
        # an error that reaches a handler which rethrows: location and trace unchanged at the host
        if rnd.random() < 0.3:
            forms = forms[:-2] + [[S("handler-bind"), [[S("condition"), [S("lambda"), [S("c"), S("&rest"), S("r")], [S("capture")], [S("rethrow")]]]], forms[-2]]] + forms[-1:]
        rec, srcs, pos = mach.prog_with_layout(i, [forms], {}, None, rnd)
        recs.append(rec)
        drv.append({"id": i, "seq": srcs, "cfg": {}})
        poss.append(pos)
    # failing forms inside a NESTED source text (load-string): the error carries the position inside that text - also
    # when the failing form is the very first thing in it (offset 0) - and the frames below it keep theirs
    for forms in nested_source_programs():
        i = len(recs)
        rec, srcs, pos = mach.prog_with_layout(i, [forms], {}, None, rnd)
        recs.append(rec)
        drv.append({"id": i, "seq": srcs, "cfg": {}})
        poss.append(pos)
    for forms in expansion_time_load_programs():
        i = len(recs)
        rec, srcs, pos = mach.prog_with_layout(i, [forms], {}, None, rnd)
        recs.append(rec)
        drv.append({"id": i, "seq": srcs, "cfg": {}})
        poss.append(pos)
    for forms in rejected_tail_call_programs():
        i = len(recs)
        rec, srcs, pos = mach.prog_with_layout(i, [forms], {}, None, rnd)
        recs.append(rec)
        drv.append({"id": i, "seq": srcs, "cfg": {}})
        poss.append(pos)
    # the MIX family: failures inside callbacks, later calls and operator bodies AFTER a tail loop was collapsed in the same
    # builtin call / operator / function, through cross-package calls, macros, threading forms and handlers that rethrow
    import mix
    for _ in range(2500 if thorough else 350):
        i = len(recs)
        rec, srcs, pos = mach.prog_with_layout(i, [mix.mix_fail_program(rnd)], {}, None, rnd)
        recs.append(rec)
        drv.append({"id": i, "seq": srcs, "cfg": {}})
        poss.append(pos)
    hsingle, hdouble = handler_history_programs()
    for forms in hsingle:
        i = len(recs)
        rec, srcs, pos = mach.prog_with_layout(i, [forms], {}, None, rnd)
        recs.append(rec)
        drv.append({"id": i, "seq": srcs, "cfg": {}})
        poss.append(pos)
    nplain = len(recs)
    for evals, cfg in [(e, {}) for e in hdouble] + limit_location_histories(rnd, thorough):
        i = len(recs)
        rec, srcs, pos = mach.prog_with_layout(i, evals, cfg, None, rnd)
        recs.append(rec)
        drv.append({"id": i, "seq": srcs, "cfg": mach.driver_cfg(cfg)})
        poss.append(pos)
    n = len(recs)
    model, res = mach.run_machine(work, recs, timeout=3300)
    V.tlc(res, "Machine: %d failing-program candidates with random layout" % n)
    if res.violated:
        raise MachineryError("Machine invariant %s violated in the model:\n%s" % (res.violated, res.raw[-2000:]))
    if len(model) != len(recs):
        raise MachineryError("Machine produced %d of %d transcripts" % (len(model), len(recs)))
    real = {r["id"]: r["runs"][0]["evals"] for r in driver_json(binary, ["run"], drv, timeout=3300)}
    nerr, kinds = 0, {}
    nlim = 0
    for i in range(nplain, n):
        for k, (me, re_) in enumerate(zip(model[i], real[i])):
            d = mach.compare_eval(me, re_)
            if d:
                V.notes.append("limit history %d evaluation %d: transcript differs (%s) - not a location verdict" % (i, k, d))
                break
            if me["v"]["t"] != "err":
                continue
            err = re_["err"]
            nlim += 1
            kinds[err["cond"]] = kinds.get(err["cond"], 0) + 1
            mloc = poss[i].get(me["v"]["i"])
            f = err.get("file") or ""
            rloc = (int(f[1:]) if f[:1] == "t" and f[1:].isdigit() else f, err.get("line"), err.get("col")) if err.get("line") else None
            if mloc != rloc or (not drv[i]["cfg"] and me["v"].get("s") != err["cond"]):
                V.add(None, (("an error is not located inside the source being loaded: evaluation %d" if not drv[i]["cfg"] else "a limit error is not located at the form that was about to be evaluated: evaluation %d") + " (%s, %s) ends in %s located at %s, the form stands at %s") % (
                    k, drv[i]["cfg"], "source t%d" % k, err["cond"], rloc, mloc), {"seq": drv[i]["seq"], "cfg": drv[i]["cfg"], "evaluation": k, "real": rloc, "expected": mloc})
    V.coverage["limit_error_locations"] = nlim
    for i in range(nplain):
        me, re_ = model[i][0], real[i][0]
        src = drv[i]["seq"][0]
        d = mach.compare_eval(me, re_)
        if d and not (me["v"]["t"] == "err" and re_["v"]["t"] == "err"):
            # value-level disagreement belongs to C01/C02; it makes the location comparison meaningless here
            V.notes.append("program %d: transcript differs (%s) - not a location verdict" % (i, d))
            continue
        # (both end in an error: which error the host receives, where it is located and what its trace lists IS this
        # property, whatever else differs - a rethrow that hands over another error than the one being handled shows here)
        if me["v"]["t"] != "err":
            continue
        nerr += 1
        err = re_["err"]
        kinds[err["cond"]] = kinds.get(err["cond"], 0) + 1
        mloc = poss[i].get(me["v"]["i"])
        rloc = ("load-string" if err.get("file") == "load-string" else 0, err.get("line"), err.get("col")) if err.get("line") else None
        if mloc != rloc:
            # (Machine.tla FailAt: the position the code is known to report instead travels in the error's p field)
            alt = poss[i].get(me["v"].get("p")) if isinstance(me["v"].get("p"), int) else None
            V.add("rejected-tail-call-located-at-reused-frame" if alt is not None and alt == rloc else None, "error location differs: %s reported at %s, the failing form is at %s" % (err["cond"], rloc and rloc[1:], mloc and mloc[1:]),
                  {"src": src, "real": rloc, "expected": mloc, "msg": err.get("msg")})
            continue
        ms = [(f["name"], poss[i].get(f["src"], (None, None, None))[1:]) for f in reversed(me["estack"])]
        rs = [(f["name"], (f.get("line"), f.get("col"))) for f in (err.get("stack") or [])]
        if ms != rs:
            V.add(None, "stack trace differs: real %s, expected %s" % (rs, ms), {"src": src, "real": rs, "expected": ms})
            continue
        # a handler that rethrows hands the host the same location and trace (captured inside the handler)
        for p in (re_.get("probes") or []):
            if p.get("capture") and p["tag"][1]["n"] == re_.get("errid"):
                a = p["err"]
                if (a.get("line"), a.get("col")) != (err.get("line"), err.get("col")) or a.get("stack") != err.get("stack"):
                    V.add(None, "location / trace changed between the handler and the host after rethrow", {"src": src, "in_handler": a, "at_host": err})
        if nerr % 60 == 1:
            V.sample({"condition": err["cond"], "location": rloc[1:] if rloc else None, "stack": rs[:4], "source_excerpt": src[-300:]})
    if nerr < nplain // 6:
        raise MachineryError("only %d of %d programs ended in an error: the family is not exercising the property" % (nerr, n))
    V.coverage["failing_programs"] = nerr
    V.coverage["conditions"] = kinds
    V.coverage["traces_validated_against_impl"] = nerr
    V.coverage["exhaustive"] = False
    V.coverage["explanation"] = "%d programs ended in an error; location (line, col) and every frame's name and call-site position compared under seeded random layout" % nerr
    return V.finish()
