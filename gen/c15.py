"""C15  Time values round-trip, order and add consistently, and sleeping is bounded.

Time.tla reads RFC 3339 timestamps character by character (Class: accept / unspecified / reject; Denote: the instant),
renders instants (Format, with FormatRoundTrip checked in the model), orders and subtracts instants (Cmp, Diff, with the
order laws checked in the model) and decides sleep admission (SleepVerdict, with SleepBounded checked in the model).
  stamps  : every combination of the field spellings (and every single-character mutation of two base timestamps) is
            given to the real time:parse-rfc3339 and -nano; acceptance must agree wherever the specification speaks;
            what the real formatter prints for a parsed timestamp is read back by the SPECIFICATION, which must find the
            same instant (to the nanosecond / second); the real re-parse must be time= to the original.
  pairs   : for pairs of accepted timestamps the real time= / time< / time> (both argument orders), the sign and
            nanoseconds of time-from, (time-add t (time-from t u)) = u and (time-from t (time-add t d)) = d are compared
            with Cmp / Diff.
  durations: Go-syntax duration strings with exactly representable values: duration-ns / -s / -ms against integer
            arithmetic.
  sleep   : every (duration, :max, ceiling, deadline, cancelled, cancel-at) combination is run on a real runtime and the
            outcome and measured wall clock compared with SleepVerdict.
"""
import json, random, struct, concurrent.futures, itertools
from vlib import *
from c13 import driver_sharded


def text_of(chars):
    return "".join(chars)


def run(tier):
    V = Verdict("C15", tier)
    work = Work("C15")
    try:
        return _run(V, work, tier)
    finally:
        work.close()


def tlc_mode(work, V, mode, big, what, files=None, invariant=None, timeout=3300):
    recs = []

    def sink(rec):
        recs.append(rec)
    cfg = "SPECIFICATION Spec\nCONSTANTS MODE = \"%s\"\n BIG = %s\nCHECK_DEADLOCK FALSE\n" % (mode, "TRUE" if big else "FALSE")
    if invariant:
        cfg += "INVARIANT %s\n" % invariant
    res = run_tlc(work, "Time", cfg, files=files, timeout=timeout, line_sink=sink)
    V.tlc(res, what % len(recs))
    if res.violated:
        raise MachineryError("Time.tla: %s fails inside the model: %s" % (invariant, res.raw[-500:]))
    if res.error:
        raise MachineryError("TLC failed on Time.tla (%s): %s" % (mode, res.error[:500]))
    return recs


def inst_key(t):
    return (t["d"], t["s"], t["ns"])


def _run(V, work, tier):
    thorough = tier == "thorough"
    rnd = random.Random(seed())
    binary = build_driver()
    # ---- timestamps ----------------------------------------------------------------------------------------------
    stamps = tlc_mode(work, V, "stamps", thorough, "Time stamps: %d assembled timestamps classified, FormatRoundTrip checked", invariant="StampInv")
    stamps += tlc_mode(work, V, "mutants", thorough, "Time mutants: %d single-character mutations classified", invariant="StampInv")
    if len(stamps) < 50000:
        raise MachineryError("Time.tla produced only %d timestamps" % len(stamps))
    for i, s in enumerate(stamps):
        s["text"] = text_of(s["text"])
    real = driver_sharded(binary, "timex", [{"id": i, "stamp": s["text"]} for i, s in enumerate(stamps)])
    counts = {"accept": 0, "reject": 0, "unspecified": 0}
    reformatted = []          # (index, which parser, which formatter, text) to be read back by the specification
    for i, s in enumerate(stamps):
        r = real[i]
        counts[s["class"]] += 1
        for key, fn in (("p", "parse-rfc3339"), ("pn", "parse-rfc3339-nano")):
            p = r[key]
            # (the specification's Class is a function of the text: an answer that depends on what was parsed before is
            # not any function of it)
            if p["ok"] != p["ok2"] or p.get("same2") not in (None, True):
                V.add(None, "time:%s gives two different answers for %s when asked twice in a row (%s, then %s)" % (fn, s["text"], "accepted" if p["ok"] else "rejected", "accepted" if p["ok2"] else ("rejected" if p["ok"] != p["ok2"] else "another instant")), {"stamp": s["text"], "result": p})
            if s["class"] == "accept" and not p["ok"]:
                V.add(None, "time:%s rejects the well-formed timestamp %s: %s" % (fn, s["text"], p.get("msg", "")[-80:]), {"stamp": s["text"], "result": p})
            elif s["class"] == "reject" and p["ok"]:
                V.add(leniency_key(s["text"]), "time:%s accepts %s (read as %s), which is not a well-formed RFC 3339 timestamp" % (fn, s["text"], p.get("fmtn")), {"stamp": s["text"], "result": p})
            if p["ok"]:
                if p.get("again") is not True:
                    V.add(None, "(time= t (parse-rfc3339-nano (format-rfc3339-nano t))) is %r for t = %s" % (p.get("again"), s["text"]), {"stamp": s["text"], "result": p})
                if p.get("again_s") is not True:
                    V.add(None, "parse-rfc3339 of format-rfc3339 of %s is not within the same second" % s["text"], {"stamp": s["text"], "result": p})
                if not p.get("fmt") or not p.get("fmtn"):
                    V.add(None, "a parsed timestamp cannot be formatted: %s (format-rfc3339 -> %r, -nano -> %r)" % (s["text"], p.get("fmt"), p.get("fmtn")), {"stamp": s["text"], "result": p})
                elif s["class"] == "accept" and key == "pn":
                    reformatted.append((i, "fmtn", p.get("fmtn")))
                    reformatted.append((i, "fmt", p.get("fmt")))
    # a second pass over a sample, in another order, through another runtime of another process: every answer as before
    idx = rnd.sample(range(len(stamps)), min(len(stamps), 60000 if thorough else 12000))
    again = driver_sharded(binary, "timex", [{"id": i, "stamp": stamps[i]["text"]} for i in idx])
    for i in idx:
        for key, fn in (("p", "parse-rfc3339"), ("pn", "parse-rfc3339-nano")):
            a, b = real[i][key], again[i][key]
            if a["ok"] != b["ok"] or a.get("fmtn") != b.get("fmtn"):
                V.add(None, "time:%s answers %s differently in a second pass (another order, another process)" % (fn, stamps[i]["text"]), {"stamp": stamps[i]["text"], "first": a, "second": b})
    V.coverage["timestamps_asked_again_in_another_order"] = len(idx)
    V.coverage["timestamps"] = dict(counts, total=len(stamps))
    if counts["accept"] < 300 or counts["reject"] < 5000:
        raise MachineryError("timestamp classes are unbalanced: %r" % counts)
    # what the real formatter printed, read by the specification: same instant
    # (text that does not even have the fixed layout - a year of five digits, a sign in front of the year - is no timestamp
    # the parsers would take back: that is the round trip failing, and the specification is not asked to read it)
    import re as _re
    LAYOUT = _re.compile(r"^\d{4}-\d\d-\d\dT\d\d:\d\d:\d\d(\.\d{1,9})?(Z|[+-]\d\d:\d\d)$")
    shaped = []
    for i, which, t in reformatted:
        if t and LAYOUT.match(t):
            shaped.append((i, which, t))
        else:
            V.add(None, "format-rfc3339%s of the parsed timestamp %s prints %r, which is not a timestamp the parsers read back" % ("-nano" if which == "fmtn" else "", stamps[i]["text"], t), {"stamp": stamps[i]["text"], "formatted": t})
    reformatted = shaped
    sample = reformatted if thorough else rnd.sample(reformatted, min(len(reformatted), 6000))
    text = "".join(json.dumps({"id": k, "a": list(stamps[i]["text"]), "b": list(t or "x")}) + "\n" for k, (i, which, t) in enumerate(sample))
    back = tlc_mode(work, V, "pairs", thorough, "Time pairs (formatter output read back): %d", files={"timepairs.ndjson": text})
    byid = {b["id"]: b for b in back}
    for k, (i, which, t) in enumerate(sample):
        b = byid[k]
        if which == "fmtn" and b["cmp"] != 0:
            V.add(None, "format-rfc3339-nano of %s prints %s, a different instant" % (stamps[i]["text"], t), {"stamp": stamps[i]["text"], "formatted": t})
        if which == "fmt":
            # formatted (plain) instant must be the original truncated to the second: 0 <= original - formatted < 1s
            d = b["diff"]     # b - a = formatted - original
            ok = (d["d"] == 0 and d["s"] == 0 and d["ns"] == 0) or (d["d"] == -1 and d["s"] == 86399 and d["ns"] > 0)
            if not ok:
                V.add(None, "format-rfc3339 of %s prints %s, which is not that instant truncated to the second" % (stamps[i]["text"], t), {"stamp": stamps[i]["text"], "formatted": t})
    # ---- pairs ---------------------------------------------------------------------------------------------------
    acc = [s for s in stamps if s["class"] == "accept"]
    distinct = {}
    for s in acc:
        distinct.setdefault(inst_key(s["t"]), s)
    pool = list(distinct.values())
    # equal instants written differently are wanted as well
    pool = rnd.sample(pool, min(len(pool), 260 if thorough else 70)) + rnd.sample(acc, min(len(acc), 60 if thorough else 20))
    pairs = [(a, b) for a in pool for b in pool]
    if not thorough:
        pairs = rnd.sample(pairs, min(len(pairs), 5000))
    adds = ["1ns", "-1ns", "1.5s", "-36h", "24h", "1h0m0.000000001s", "2540400h10m10.000000001s", "-2540400h"]
    text = "".join(json.dumps({"id": k, "a": list(a["text"]), "b": list(b["text"])}) + "\n" for k, (a, b) in enumerate(pairs))
    pres = tlc_mode(work, V, "pairs", thorough, "Time pairs: %d ordered pairs ordered and subtracted, order laws checked", files={"timepairs.ndjson": text}, invariant="PairInv")
    byid = {p["id"]: p for p in pres}
    real = driver_sharded(binary, "timex", [{"id": k, "pair": [a["text"], b["text"]], "adds": adds} for k, (a, b) in enumerate(pairs)])
    for k, (a, b) in enumerate(pairs):
        sp, r = byid[k], real[k]
        if "err" in r:
            V.add(None, "an accepted timestamp fails to parse in a pair: %s" % r["err"], {"pair": [a["text"], b["text"]]})
            continue
        want = {"eq": sp["cmp"] == 0, "lt": sp["cmp"] < 0, "gt": sp["cmp"] > 0, "lt_rev": sp["cmp"] > 0, "gt_rev": sp["cmp"] < 0}
        got = {x: r[x] for x in want}
        if got != want:
            V.add(None, "time= / time< / time> disagree with the order of the instants %s and %s" % (a["text"], b["text"]), {"pair": [a["text"], b["text"]], "real": got, "spec": want})
        if sp["inrange"]:
            d = sp["diff"]
            ns = (d["d"] * 86400 + d["s"]) * 10**9 + d["ns"]
            if not r["from"]["ok"] or int(r["from"]["ns"]) != ns:
                V.add(None, "time-from %s %s is %s, the instants are %d ns apart" % (a["text"], b["text"], r["from"].get("ns") or r["from"].get("msg"), ns), {"pair": [a["text"], b["text"]], "real": r["from"], "spec_ns": ns})
            if r["add_back"] is not True:
                V.add(None, "(time-add t (time-from t u)) is not u for t = %s, u = %s" % (a["text"], b["text"]), {"pair": [a["text"], b["text"]], "real": r["add_back"]})
        elif r["from"]["ok"]:
            # outside a duration's range time-from saturates; its sign must still agree with the order
            sign = (int(r["from"]["ns"]) > 0) - (int(r["from"]["ns"]) < 0)
            if sign != (1 if sp["cmp"] < 0 else -1 if sp["cmp"] > 0 else 0):
                V.add(None, "the sign of time-from %s %s disagrees with the order" % (a["text"], b["text"]), {"pair": [a["text"], b["text"]], "real": r["from"], "cmp": sp["cmp"]})
        # time-add then time-from gives the duration back unless the sum leaves the representable years (no overflow clause)
        for fa in r["from_add"]:
            if fa["same"] is not True and 1800 < int(a["text"][:4]) < 2200:
                V.add(None, "(time-from t (time-add t d)) is not d for t = %s, d = %s" % (a["text"], fa["d"]), {"t": a["text"], "d": fa["d"], "real": fa["same"]})
    V.coverage["pairs"] = len(pairs)
    # ---- durations -----------------------------------------------------------------------------------------------
    units = {"ns": 1, "us": 10**3, "µs": 10**3, "ms": 10**6, "s": 10**9, "m": 60 * 10**9, "h": 3600 * 10**9}
    durs = []
    for _ in range(4000 if thorough else 800):
        n = rnd.randint(1, 3)
        us = rnd.sample(["h", "m", "s", "ms", "us", "ns"], n)
        us.sort(key=lambda u: -units[u])
        sign = rnd.choice(["", "", "-", "+"])
        total, textd = 0, ""
        for u in us:
            whole = rnd.choice([0, 1, 7, 59, 999, rnd.randint(0, 2000)])
            fracd = rnd.choice(["", "", ".5", ".25", ".125", ".000", ".001"]) if units[u] >= 10**3 else ""
            num = "%d%s" % (whole, fracd)
            val = whole * units[u] + (int(float("0" + fracd) * 1000) * units[u]) // 1000 if fracd else whole * units[u]
            total += val
            textd += num + (rnd.choice(["us", "µs"]) if u == "us" else u)
        durs.append((sign + textd, -total if sign == "-" else total))
    durs += [("0", 0), ("1h", 3600 * 10**9), ("2562047h47m16.854775807s", 2**63 - 1), ("-2562047h47m16.854775808s", -2**63), ("1.5h", 5400 * 10**9), (".5s", 5 * 10**8), ("1.s", 10**9)]
    bad = ["", "1", "1x", "h", "1hh", "1h 2m", "--1h", "1e3s", "2562047h47m16.854775808s", "1d", " 1h", "1h ", "١s", ".s", "+", "1.2.3s"]
    dres = driver_sharded(binary, "timex", [{"id": i, "duration": t} for i, (t, _) in enumerate(durs)] + [{"id": "bad%d" % i, "duration": t} for i, t in enumerate(bad)], shards=4)
    for i, (t, ns) in enumerate(durs):
        r = dres[i]
        if not r["ok"]:
            V.add(None, "time:parse-duration rejects %r: %s" % (t, r.get("msg", "")[-80:]), {"duration": t})
            continue
        if r.get("ns") != str(ns):
            V.add(None, "duration-ns of %r is %s, exact arithmetic gives %d" % (t, r.get("ns"), ns), {"duration": t, "real": r})
        for key, div in (("s_bits", 1e9), ("ms_bits", 1e6)):
            want = "%016x" % struct.unpack(">Q", struct.pack(">d", float(ns) / div))[0]
            if r.get(key) != want:
                V.add(None, "duration-%s of %r differs from ns / %g" % (key[:-5], t, div), {"duration": t, "real": r.get(key), "want": want})
    for i, t in enumerate(bad):
        if dres["bad%d" % i]["ok"]:
            V.add(None, "time:parse-duration accepts the malformed duration %r (%s ns)" % (t, dres["bad%d" % i].get("ns")), {"duration": t})
    V.coverage["durations"] = len(durs) + len(bad)
    # ---- sleep admission -----------------------------------------------------------------------------------------
    cases = tlc_mode(work, V, "sleep", thorough, "Time sleep: %d admission cases decided, SleepBounded checked", invariant="SleepInv")
    runnable = [c for c in cases if c["v"]["slept"] <= 5000]
    if not thorough:
        # (every case in which the sleep is cut short by a cancellation arriving while it is in progress is always run)
        cut = [c for c in runnable if c["c"]["cancelat"] > 0 and c["v"]["slept"] == c["c"]["cancelat"]]
        rest_ = [c for c in runnable if not (c["c"]["cancelat"] > 0 and c["v"]["slept"] == c["c"]["cancelat"])]
        runnable = cut + rnd.sample(rest_, min(len(rest_), 700))
    sres = driver_sharded(binary, "timex", [{"id": i, "sleep": c["c"]} for i, c in enumerate(runnable)], shards=6)
    outs = {}
    for i, c in enumerate(runnable):
        r, v = sres[i], c["v"]
        outs[v["out"]] = outs.get(v["out"], 0) + 1
        if r["out"] != v["out"]:
            # a cancellation timed to arrive shortly after (or before) the end of the sleep is a genuine race on a loaded
            # machine: the answer is judged by the MEASURED times, not by the nominal ones
            import re as _re2
            mm = _re2.match(r"pre=(\d+)", r.get("msg") or "")
            pre = int(mm.group(1)) if mm else 0
            cc, el = c["c"], r["elapsed_ms"]
            if r["out"] == "context-cancelled" and v["out"] == "nil" and cc["cancelat"] > 0 and pre + el >= cc["cancelat"] - 2 and el <= cc["d"] + 1500:
                V.notes.append("sleep of %d ms was still in progress when the cancellation of %d ms arrived (call entered %d ms after arming, lasted %d ms): scheduling, not a verdict" % (cc["d"], cc["cancelat"], pre, el))
                continue
            if r["out"] == "nil" and v["out"] == "context-cancelled" and cc["cancelat"] > 0 and 0 < cc["d"] - cc["cancelat"] <= 200 and el >= cc["d"] - 1:
                V.notes.append("sleep of %d ms ended before the cancellation timed %d ms was delivered: scheduling, not a verdict" % (cc["d"], cc["cancelat"]))
                continue
            V.add(None, "time:sleep %r answers %s, the admission rule gives %s" % (c["c"], r["out"], v["out"]), {"case": c["c"], "real": r, "spec": v})
            continue
        el = r["elapsed_ms"]
        # never shorter than the sleep that was admitted, never more than generous scheduling slack beyond it
        if el < v["slept"] - 1 or el > v["slept"] + 1500:
            V.add(None, "time:sleep %r took %d ms, the rule gives %d ms" % (c["c"], el, v["slept"]), {"case": c["c"], "real": r, "spec": v})
    V.coverage["sleep_cases"] = {"decided": len(cases), "run": len(runnable), "outcomes": outs}
    if len(outs) < 4:
        raise MachineryError("sleep cases do not reach every outcome: %r" % outs)
    V.sample({"stamp": acc[0]["text"], "instant": acc[0]["t"]})
    V.coverage["traces_validated_against_impl"] = len(stamps) + len(pairs) + len(durs) + len(runnable)
    V.coverage["exhaustive"] = True
    V.coverage["explanation"] = ("%d timestamps (field-spelling product + single-character mutants), %d pairs, %d durations, %d of %d sleep cases run on real runtimes"
                               % (len(stamps), len(pairs), len(durs) + len(bad), len(runnable), len(cases)))
    V.assumptions.append("second 60, lower-case t / z, a space for T and more than nine fractional digits are classed 'unspecified': RFC 3339 tolerates them and the property does not demand either answer")
    V.assumptions.append("sleep cases whose rule says they sleep longer than 5 s are decided in the model only; their cancel-at-120-ms siblings are run")
    return V.finish()


def leniency_key(text):
    """known-finding key for an accepted malformed timestamp: by the kind of deviation, not the whole string"""
    if "," in text:
        return "lenient:comma-fraction"
    z = text[19:]
    import re
    m = re.search(r"[+-](\d\d):(\d\d)$", text)
    if m and (int(m.group(1)) > 23 or int(m.group(2)) > 59):
        return "lenient:offset-out-of-range"
    return None
