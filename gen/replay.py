"""Replay a violation file: prints the recorded case and re-runs it on the current /repo with the driver command
that produced it (program source, JSON document, timestamp, reader text, minifier session, hostile program)."""
import sys, os, json, base64
sys.path.insert(0, os.path.dirname(os.path.abspath(__file__)))
from vlib import *


def show(x):
    print(json.dumps(x, indent=1, default=str)[:6000])


def main():
    d = json.load(open(sys.argv[1]))
    show(d)
    det = d.get("detail") or {}
    if not isinstance(det, dict):
        return 0
    b = build_driver()
    if det.get("src"):
        src = det["src"]
        seq = src if isinstance(src, list) else [src]
        cfg = det.get("cfg") if isinstance(det.get("cfg"), dict) else {}
        if d.get("property") == "C03" and isinstance(src, str):
            show(driver_json(b, ["hostile"], [{"id": "replay", "src": src, "maxsteps": det.get("maxsteps", 1000000), "deadline_ms": det.get("deadline_ms", 5000)}]))
        else:
            show(driver_json(b, ["run"], [{"id": "replay", "seq": seq, "cfgs": [cfg, dict(cfg, tro="off")]}]))
    elif det.get("doc") is not None:
        show(driver_json(b, ["jsonx"], [{"id": "replay", "doc_b64": base64.b64encode(det["doc"].encode("utf-8", "backslashreplace")).decode()}]))
    elif det.get("stamp"):
        show(driver_json(b, ["timex"], [{"id": "replay", "stamp": det["stamp"]}]))
    elif det.get("pair"):
        show(driver_json(b, ["timex"], [{"id": "replay", "pair": det["pair"], "adds": []}]))
    elif det.get("duration") is not None:
        show(driver_json(b, ["timex"], [{"id": "replay", "duration": det["duration"]}]))
    elif det.get("case") and d.get("property") == "C15":
        show(driver_json(b, ["timex"], [{"id": "replay", "sleep": det["case"]}]))
    elif det.get("text") is not None:
        show(driver_json(b, ["reader"], [{"id": "replay", "text": det["text"], "format": True}]))
    elif det.get("files"):
        show(driver_json(b, ["minify"], [{"id": "replay", "files": [{"path": "f%d.lisp" % i, "src": s} for i, s in enumerate(det["files"])], "preserve_params": True}]))
    return 0


main_wrap(main)
