"""Replay a violation file: prints the recorded case and, when it carries a program source, runs it
on the current /repo under the recorded configurations."""
import sys, os, json
sys.path.insert(0, os.path.dirname(os.path.abspath(__file__)))
from vlib import *

def main():
    d = json.load(open(sys.argv[1]))
    print(json.dumps(d, indent=1)[:6000])
    det = d.get("detail") or {}
    if isinstance(det, dict) and det.get("src"):
        b = build_driver()
        out = driver_json(b, ["run"], [{"id": "replay", "seq": [det["src"]], "cfgs": [{}, {"tro": "off"}]}])
        print(json.dumps(out, indent=1)[:6000])
    return 0

main_wrap(main)
