"""Entry point of every registered check:  python3 gen/check.py <ID> <quick|thorough>"""
import sys, os, importlib
sys.path.insert(0, os.path.dirname(os.path.abspath(__file__)))
from vlib import *


def main():
    if len(sys.argv) < 3:
        print("usage: check.py <ID> <quick|thorough>")
        return 2
    prop, tier = sys.argv[1].upper(), sys.argv[2]
    if os.environ.get("VERIF_TIER"):
        tier = os.environ["VERIF_TIER"]
    mod = importlib.import_module(prop.lower())
    return mod.run(tier)


main_wrap(main)
