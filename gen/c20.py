"""C20  Source loading cannot escape its configured root.

PathFS.tla defines a directory tree with links, lexical cleaning, link-expanding resolution and what the
RootDir library / the fs.FS library are allowed to answer for a location.  TLC enumerates every location of
up to MAXC components over 19 component names x 6 prefixes x 3 loading contexts x 2 root spellings (one
state per case) checking NoEscape, and prints the cases the specification serves.  The harness creates the
same tree on the real file system, enumerates the same case space through LoadSource, (load-file ...) and
LoadFile, and the two served maps are compared: whatever the code serves must be served by the specification
with the same content (binding B1).
"""
import json, os
from vlib import *

COMPS = [".", "..", "a.lisp", "sub", "b.lisp", "lf_in", "lf_out", "ld_out", "ld_in", "up", "ld_parent",
         "secret.lisp", "c.lisp", "root2", "out", "back", "dangling", "loop", "root"]
PREFIXES = ["rel", "abs-root", "abs-W", "abs-root2", "abs-out", "abs-rootlink"]
CONTEXTS = ["none", "main", "subx"]
ROOTS = ["root", "rootlink"]
CFG = """SPECIFICATION Spec
CONSTANT MAXC = %d
INVARIANT NoEscape
CHECK_DEADLOCK FALSE
"""


def key(r):
    return (r["lib"], r["root"], r["prefix"], r["ctx"], "/".join(r["comps"]))


def run(tier):
    V = Verdict("C20", tier)
    work = Work("C20")
    try:
        return _run(V, work, tier)
    finally:
        work.close()


def _run(V, work, tier):
    thorough = tier == "thorough"
    maxc = 4 if thorough else 3
    binary = build_driver()
    model = {}

    def sink(rec):
        model[key(rec)] = rec["marker"]
    res = run_tlc(work, "PathFS", CFG % maxc, timeout=3300, line_sink=sink)
    V.tlc(res, "PathFS: every location of <= %d components x prefixes x contexts x roots" % maxc)
    if res.violated:
        raise MachineryError("PathFS NoEscape violated inside the specification:\n" + res.raw[-2500:])
    base = work.path("tree")
    os.makedirs(base)
    req = {"base": base, "maxc": maxc, "comps": COMPS, "prefixes": PREFIXES, "contexts": CONTEXTS, "roots": ROOTS, "eval_mod": 97 if thorough else 23}
    rc, out, err = run_driver(binary, ["pathfs"], json.dumps(req) + "\n", timeout=3300)
    if rc != 0:
        raise MachineryError("pathfs driver failed: " + err[-2000:])
    real = {}
    sessions = []
    hists = []
    dots = []
    ncases = 0
    nserved = 0
    for line in out.splitlines():
        r = json.loads(line)
        if r.get("summary"):
            ncases = r["cases"]
            continue
        if r.get("session"):
            sessions.append(r)
            continue
        if r.get("dotroot"):
            dots.append(r)
            continue
        if r.get("history"):
            hists.append(r)
            continue
        nserved += 1
        k = key(r)
        real.setdefault(k, []).append(r)
    inside = {"in-a", "in-b", "in-x", "in-main"}
    for k, rs in real.items():
        for r in rs:
            want = model.get(k, "refused")
            if r["marker"] not in inside:
                V.add(None, "a file outside the root was served (%s via %s): location %s (prefix %s, loading context %s, root %s) returned %s"
                      % (r["lib"], r["via"], k[4], k[2], k[3], k[1], r["marker"]), r)
            elif want == "refused":
                V.add(None, "served although the specification refuses (%s via %s): location %s (prefix %s, context %s, root %s) returned %s"
                      % (r["lib"], r["via"], k[4], k[2], k[3], k[1], r["marker"]), r)
            elif want != r["marker"]:
                V.add(None, "wrong file served - relative location resolved against the wrong directory? (%s via %s): location %s (prefix %s, context %s) returned %s, specification %s"
                      % (r["lib"], r["via"], k[4], k[2], k[3], r["marker"], want), r)
    # sessions: the answer depends only on the file doing the loading NOW (root/sub/main.lisp sits in the directory of the
    # specification's context subx), never on what the same runtime loaded before
    for r in sessions:
        ctx = "subx" if r["ctx"] == "submain" else r["ctx"]
        want = model.get(("root", r["root"], "rel", ctx, "/".join(r["comps"])), "refused")
        got = r["marker"] or "refused"
        if got != want and got != "refused":
            V.add(None, "in a session (order %d, step %d) the file %s loading %s got %s, the specification says %s: the loading context is stale"
                  % (r["order"], r["step"], r["ctx"], "/".join(r["comps"]), got, want), r)
    # a relative root directory (".", "./", "sub/..") with the process standing in the root: whatever is served is what the
    # specification serves for the same location under the absolute root (the directory of a context-less load is the root)
    for r in dots:
        # (a context-less relative location is resolved against the directory the process stands in: the root in the first
        # pass - where main.lisp sits - and root/sub in the climbing-root pass - where x.lisp sits)
        ctx = ("subx" if r.get("cwd") == "sub" else "main") if r["ctx"] == "none" else r["ctx"]
        want = model.get(("root", "root", "rel", ctx, "/".join(r["comps"])), "refused")
        if r["marker"] not in inside:
            V.add(None, "a file outside the root was served under the relative root %r (via %s): location %s (loading context %s) returned %s" % (r["root"], r["via"], "/".join(r["comps"]), r["ctx"], r["marker"]), r)
        elif want != r["marker"]:
            V.add(None, "under the relative root %r location %s (context %s) returned %s, the specification says %s" % (r["root"], "/".join(r["comps"]), r["ctx"], r["marker"], want), r)
    # the same root TEXT at different moments: what is served lies inside what the text resolves to at that moment
    INSIDE = {"dot-in-root": {"in-a", "in-main", "in-b", "in-x"}, "dot-in-out": {"out-secret", "out-oa", "out-ob"}, "dot-in-sub": {"in-b", "in-x"},
              "cur-is-root": {"in-a", "in-main", "in-b", "in-x"}, "cur-is-out": {"out-secret", "out-oa", "out-ob"}, "cur-is-sub": {"in-b", "in-x"}}
    for r in hists:
        if r["marker"] and r["marker"] not in INSIDE[r["tag"]]:
            V.add(None, "a file outside the root was served: root %r (%s) location %s returned %s" % (r["root"], r["tag"], r["loc"], r["marker"]), r)
    if hists and not any(r["marker"] for r in hists):
        raise MachineryError("the root-history cases served nothing")
    V.coverage["root_history_cases"] = len(hists)
    V.coverage["relative_root_served"] = len(dots)
    V.coverage["session_loads"] = len(sessions)
    if len(sessions) < 100 or not any(r["marker"] for r in sessions):
        raise MachineryError("session histories did not run or served nothing (%d records)" % len(sessions))
    # refusing is always allowed by the property; record how often the code refuses what the specification would allow
    allowed_refused = [k for k in model if k not in real]
    V.coverage["model_served"] = len(model)
    V.coverage["real_served_records"] = nserved
    V.coverage["refused_though_allowed"] = len(allowed_refused)
    V.coverage["refused_though_allowed_by_context"] = {c: sum(1 for k in allowed_refused if k[3] == c) for c in CONTEXTS}
    # non-vacuity: the code must serve a healthy share of what it may serve (otherwise nothing is being compared)
    if len(real) < 0.3 * len(model):
        raise MachineryError("the real libraries served only %d of the %d cases the specification allows: comparison would be vacuous" % (len(real), len(model)))
    V.coverage["cases_real"] = ncases
    V.coverage["traces_validated_against_impl"] = ncases
    V.coverage["exhaustive"] = True
    for k in list(real)[:4]:
        V.sample({"case": k, "served": real[k][0]["marker"], "via": [r["via"] for r in real[k]]})
    V.coverage["explanation"] = "every location string of <= %d components over %d names x %d prefixes x %d contexts x %d roots: %d real cases" % (maxc, len(COMPS), len(PREFIXES), len(CONTEXTS), len(ROOTS), ncases)
    V.assumptions += ["os.DirFS follows symbolic links by design, so link layouts are exercised only against the RootDir library (DESIGN 6 C20)"]
    return V.finish()
