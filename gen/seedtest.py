"""Run checks against a seeded change: copy seed_out from a scratch worktree into /verif/seeded/<pid>-<name>/,
apply the patch to /repo, run the given checks (quick tier unless VERIF_TIER says otherwise), undo, record.

usage: python3 gen/seedtest.py /tmp/seed_C12 C12 [C03 ...]     (or: python3 gen/seedtest.py seeded/C12-name C12)
"""
import json, os, shutil, subprocess, sys, time

ROOT = os.path.dirname(os.path.dirname(os.path.abspath(__file__)))


def main():
    src = sys.argv[1]
    checks = sys.argv[2:]
    if os.path.isdir(os.path.join(src, "seed_out")):
        meta = json.load(open(os.path.join(src, "seed_out", "meta.json")))
        dest = os.path.join(ROOT, "seeded", "%s-%s" % (meta["property"], meta["name"]))
        os.makedirs(dest, exist_ok=True)
        for f in os.listdir(os.path.join(src, "seed_out")):
            if f.startswith("confirm.log."):
                continue
            sp = os.path.join(src, "seed_out", f)
            if os.path.isdir(sp):
                shutil.copytree(sp, os.path.join(dest, f), dirs_exist_ok=True)
            else:
                shutil.copy(sp, dest)
        demo = os.path.join(src, "seed_demo")
        if os.path.isdir(demo):
            shutil.copytree(demo, os.path.join(dest, "demo"), dirs_exist_ok=True)
    else:
        dest = os.path.join(ROOT, src) if not os.path.isabs(src) else src
        meta = json.load(open(os.path.join(dest, "meta.json")))
    patch = os.path.join(dest, "patch.diff")
    alt = os.environ.get("VERIF_REPO")
    if alt:
        # the scratch worktree already carries the change: run the checks against it, /repo is not touched
        results = {}
        tier = os.environ.get("VERIF_TIER", "quick")
        for c in checks:
            p = subprocess.run(["python3", os.path.join(ROOT, "gen", "check.py"), c, tier], capture_output=True, text=True, cwd=ROOT)
            viol = [l for l in p.stdout.splitlines() if l.startswith("VIOLATION")]
            results[c] = {"exit": p.returncode, "violations": len(viol), "first": viol[:3], "tail": p.stdout.splitlines()[-1:] + p.stderr.splitlines()[-2:]}
            print(c, "exit", p.returncode, "violations", len(viol), viol[:2] or (p.stdout.splitlines()[-2:] + p.stderr.splitlines()[-2:]), flush=True)
        meta.setdefault("runs", []).append({"tier": tier, "results": results, "against": alt})
        meta["caught_by"] = sorted(set(meta.get("caught_by", [])) | {c for c, v in results.items() if v["exit"] == 1})
        json.dump(meta, open(os.path.join(dest, "meta.json"), "w"), indent=1)
        return
    st = subprocess.run(["git", "-C", "/repo", "status", "--porcelain"], capture_output=True, text=True).stdout.strip()
    if st:
        sys.exit("/repo is not clean:\n" + st)
    r = subprocess.run(["git", "-C", "/repo", "apply", patch], capture_output=True, text=True)
    if r.returncode != 0:
        sys.exit("patch does not apply: " + r.stderr)
    results = {}
    try:
        tier = os.environ.get("VERIF_TIER", "quick")
        for c in checks:
            t0 = time.time()
            p = subprocess.run(["python3", os.path.join(ROOT, "gen", "check.py"), c, tier], capture_output=True, text=True, cwd=ROOT)
            viol = [l for l in p.stdout.splitlines() if l.startswith("VIOLATION")]
            results[c] = {"exit": p.returncode, "violations": len(viol), "first": viol[:3], "wall_s": round(time.time() - t0, 1), "tail": p.stdout.splitlines()[-1:] + p.stderr.splitlines()[-2:]}
            print(c, "exit", p.returncode, "violations", len(viol), viol[:2] or p.stdout.splitlines()[-2:], flush=True)
    finally:
        subprocess.run(["git", "-C", "/repo", "checkout", "--", "."], check=True)
        subprocess.run(["git", "-C", "/repo", "clean", "-fdq", "--", "seed_demo", "seed_out"], check=False)
    meta.setdefault("runs", []).append({"tier": os.environ.get("VERIF_TIER", "quick"), "results": results})
    meta["caught_by"] = sorted(set(meta.get("caught_by", [])) | {c for c, v in results.items() if v["exit"] == 1})
    json.dump(meta, open(os.path.join(dest, "meta.json"), "w"), indent=1)


main()
