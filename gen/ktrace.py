"""B2 binding: record hook traces from the real interpreter and validate them
with specs/KernelTrace.tla."""
import json, os, glob, subprocess
from vlib import *

KT_CFG = """SPECIFICATION Spec
INVARIANTS K1 K5 K9 KMark
CONSTRAINT HighWater
POSTCONDITION Accepted
CHECK_DEADLOCK FALSE
"""

# which property an event's rejection is attributed to
EV_PROP = {"mark": "C02", "dec": "C02", "iter": "C02", "term": "C02", "tro": "C02",
           "step": "C04", "nest+": "C04", "nest-": "C04", "push": "C04", "pop": "C05",
           "begin": "C05", "end": "C05", "reset": "C05", "cfg": "C05", "pkg": "C05",
           "cpush": "C06", "cpop": "C06", "mexp": "C04", "panic": "C03"}


class TraceOutcome:
    def __init__(self):
        self.accepted = False
        self.events = 0
        self.programs = 0
        self.dropped = 0
        self.panics = 0
        self.states = 0
        self.generated = 0
        self.hw = 0
        self.context = []
        self.rejected_event = None
        self.violated = []
        self.wall = 0.0


def record(work, binary, records=None, files=None, name="trace", maxev=200000, maxsteps=3000000, timeout=1800):
    """Run the driver in trace mode. Returns (trace_path, summary dict)."""
    path = work.path(name + ".ndjson")
    if files is not None:
        args = ["trace", "-o", path, "-max", str(maxev), "-maxsteps", str(maxsteps), "-files"] + list(files)
        rc, out, err = run_driver(binary, args, None, timeout)
    else:
        text = "".join(json.dumps(r, separators=(",", ":")) + "\n" for r in records)
        rc, out, err = run_driver(binary, ["trace", "-o", path, "-max", str(maxev)], text, timeout)
    if rc != 0:
        raise MachineryError("trace driver failed (%d): %s" % (rc, err[-2000:]))
    summ = json.loads(out.strip().splitlines()[-1])
    return path, summ


def validate(work, trace_path, timeout=1800):
    """Validate one recorded trace file with KernelTrace.tla (single worker:
    the high-water register is per-process)."""
    o = TraceOutcome()
    with open(trace_path, "rb") as fh:
        data = fh.read()
    o.events = data.count(b"\n")
    if o.events == 0:
        o.accepted = True
        return o
    res = run_tlc(work, "KernelTrace", KT_CFG, files={"trace.ndjson": data}, workers=1, timeout=timeout)
    o.states, o.generated, o.wall = res.distinct, res.generated, res.wall
    o.violated = res.violated
    import re
    m = re.search(r'"REJECTED-AT", (\d+)', res.raw)
    if res.violated:
        o.accepted = False
        # invariant violated at some state: locate by depth is not available; report the invariant
        o.hw = 0
    elif m:
        o.hw = int(m.group(1))
    elif "Model checking completed. No error has been found." in res.raw:
        o.accepted = True
        return o
    elif res.error or res.timed_out:
        raise MachineryError("KernelTrace run failed: %s\n%s" % (res.error, res.raw[-1500:]))
    else:
        raise MachineryError("KernelTrace: unrecognised TLC output\n" + res.raw[-1500:])
    lines = data.split(b"\n")
    if o.hw:
        lo = max(0, o.hw - 8)
        o.context = [l.decode("utf8", "replace") for l in lines[lo:o.hw + 2]]
        try:
            o.rejected_event = json.loads(lines[o.hw - 1])
        except Exception:
            o.rejected_event = None
        # which program (reset record) does it belong to?
        for i in range(o.hw - 1, -1, -1):
            if lines[i].startswith(b'{"ev":"reset"'):
                o.program = json.loads(lines[i]).get("x")
                break
    return o


def repo_lisp_files():
    fs = []
    for pat in ("lisp/**/*.lisp", "_examples/**/*.lisp", "elpstest/**/*.lisp", "lisp/lisplib/**/*.lisp"):
        fs += glob.glob(os.path.join(REPO, pat), recursive=True)
    fs = sorted(set(fs))
    return fs


def validate_all(work, trace_path, max_rounds=6, timeout=1800):
    """Validate a trace file; when a program's trace is rejected, attribute the
    rejection to a property by the class of the rejected event, drop that
    program's events and validate the rest, so that one departure does not
    leave the remainder unexamined.  Returns (rejections, totals)."""
    rejections = []
    totals = {"events": 0, "states": 0, "generated": 0, "rounds": 0, "wall": 0.0, "residual": False}
    path = trace_path
    for rnd_ in range(max_rounds):
        o = validate(work, path, timeout)
        totals["rounds"] += 1
        totals["events"] = max(totals["events"], o.events)
        totals["states"] += o.states
        totals["generated"] += o.generated
        totals["wall"] += o.wall
        if o.accepted:
            return rejections, totals
        if o.violated and not o.hw:
            rejections.append({"program": None, "event": None, "prop": "C02" if "K5" in o.violated or "KMark" in o.violated else "C04",
                               "why": "invariant %s violated on a real trace" % ",".join(o.violated), "context": []})
            totals["residual"] = True
            return rejections, totals
        ev = o.rejected_event or {}
        prog = getattr(o, "program", None)
        if o.hw > o.events:
            # every event was consumed up to the end but the final state is not reachable: cannot happen with N+1 rule
            raise MachineryError("inconsistent high-water mark")
        rejections.append({"program": prog, "event": ev, "prop": EV_PROP.get(ev.get("ev"), "C05"),
                           "why": "trace event not explainable by the Kernel discipline", "context": o.context})
        # drop the rejected program's lines
        with open(path, "rb") as fh:
            lines = fh.read().split(b"\n")
        start = None
        for i in range(o.hw - 1, -1, -1):
            if lines[i].startswith(b'{"ev":"reset"'):
                start = i
                break
        if start is None:
            totals["residual"] = True
            return rejections, totals
        end = len(lines)
        for i in range(o.hw, len(lines)):
            if lines[i].startswith(b'{"ev":"reset"'):
                end = i
                break
        lines = lines[:start] + lines[end:]
        path = work.path("trace-round%d.ndjson" % (rnd_ + 1))
        with open(path, "wb") as fh:
            fh.write(b"\n".join(lines))
    totals["residual"] = True
    return rejections, totals


def corrupt_selftest(work, trace_path):
    """Binding demonstration: three single-event corruptions of an accepted
    trace must each be rejected.  Returns list of (name, rejected?)."""
    with open(trace_path, "rb") as fh:
        lines = [l for l in fh.read().split(b"\n") if l]
    lines = lines[:60000]
    # cut at a program boundary
    last = max(i for i, l in enumerate(lines) if l.startswith(b'{"ev":"reset"'))
    if last > 0:
        lines = lines[:last]
    out = []

    def idx(pred, nth):
        c = 0
        for i, l in enumerate(lines):
            if pred(json.loads(l)):
                c += 1
                if c == nth:
                    return i
        return None
    muts = []
    i = idx(lambda e: e["ev"] == "pop", 50)
    if i is not None:
        muts.append(("drop-pop", lines[:i] + lines[i + 1:]))
    i = idx(lambda e: e["ev"] == "term" and e["y"] == "body", 20)
    if i is not None:
        muts.append(("drop-term-body", lines[:i] + lines[i + 1:]))
    i = idx(lambda e: e["ev"] == "mark", 3)
    if i is not None:
        e = json.loads(lines[i]); e["a"] += 1
        muts.append(("mark-npop+1", lines[:i] + [json.dumps(e).encode()] + lines[i + 1:]))
    i = idx(lambda e: e["ev"] == "step", 100)
    if i is not None:
        muts.append(("drop-step", lines[:i] + lines[i + 1:]))
    i = idx(lambda e: e["ev"] == "iter", 2)
    if i is not None:
        e = json.loads(lines[i]); e["y"] = "t"
        muts.append(("iter-keeps-terminal", lines[:i] + [json.dumps(e).encode()] + lines[i + 1:]))
    for name, ls in muts:
        p = work.path("corrupt-%s.ndjson" % name)
        with open(p, "wb") as fh:
            fh.write(b"\n".join(ls) + b"\n")
        o = validate(work, p)
        out.append((name, not o.accepted))
    return out
