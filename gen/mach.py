"""Machine.tla plumbing: programs -> JSON AST, TLC run, normalisation and comparison of transcripts."""
import json
from vlib import *
import progs as P


class Ids:
    def __init__(self):
        self.n = 0
        self.nsrc = 0      # nested source texts met so far: their nodes are numbered from 100000 * nsrc

    def sub(self):
        self.nsrc += 1
        s = Ids()
        s.n = 100000 * self.nsrc
        s.nsrc = 50 + 10 * self.nsrc          # (a source nested in a nested source gets a range of its own)
        return s

    def next(self):
        self.n += 1
        return self.n


def node(t, n=0, s="", p="", q=False, c=None, i=0):
    return {"t": t, "n": n, "s": s, "p": p, "q": q, "c": c or [], "i": i}


def to_ast(e, ids):
    """S-expression (progs.py form) -> uniform node."""
    if isinstance(e, bool):
        return node("sym", s="true" if e else "false", i=ids.next())
    if isinstance(e, int):
        return node("int", n=e, i=ids.next())
    if isinstance(e, float):
        if e * 16 != int(e * 16):
            raise ValueError("float literal off the machine's grid: %r" % e)
        return node("float", n=int(e * 16), i=ids.next())
    if isinstance(e, list):
        i = ids.next()
        return node("list", c=[to_ast(x, ids) for x in e], i=i)
    k = e[0]
    if k == "s":
        name = e[1]
        i = ids.next()
        if name.startswith(":"):
            return node("sym", s=name[1:], p=":", i=i)
        if ":" in name:
            p, s = name.split(":", 1)
            return node("sym", s=s, p=p, i=i)
        return node("sym", s=name, i=i)
    if k == "str":
        return node("str", s=e[1], i=ids.next())
    if k == "src":
        i = ids.next()
        sub = ids.sub()
        return node("str", s=P.render(e), c=[to_ast(x, sub) for x in e[1]], i=i)
    if k == "q":
        inner = to_ast(e[1], ids)
        if not inner["q"]:
            inner["q"] = True
            return inner
        return node("quote", q=True, c=[inner], i=inner["i"])
    raise ValueError(e)


class Layout:
    """Renders forms to source text with seeded line breaks / indentation and records, for every node id
    (assigned exactly as to_ast assigns them), the (line, col) at which the node starts."""

    def __init__(self, rnd=None):
        self.rnd = rnd
        self.buf = []
        self.line, self.col = 1, 1
        self.pos = {}

    def w(self, text):
        for ch in text:
            self.buf.append(ch)
            if ch == "\n":
                self.line += 1
                self.col = 1
            else:
                self.col += 1

    def sep(self, depth):
        if self.rnd is not None and self.rnd.random() < 0.25:
            self.w("\n" + " " * self.rnd.randrange(0, 2 + 2 * depth))
        else:
            self.w(" " * (1 if self.rnd is None else 1 + (self.rnd.random() < 0.1)))

    def emit(self, e, ids, depth=0, start=None):
        here = start or (self.line, self.col)
        if isinstance(e, bool):
            self.pos[ids.next()] = here
            self.w("true" if e else "false")
        elif isinstance(e, int):
            self.pos[ids.next()] = here
            self.w(str(e))
        elif isinstance(e, list):
            self.pos[ids.next()] = here
            self.w("(")
            for j, x in enumerate(e):
                if j:
                    self.sep(depth + 1)
                self.emit(x, ids, depth + 1)
            self.w(")")
        elif e[0] == "q":
            self.w("'")
            self.emit(e[1], ids, depth, start=here)
        elif e[0] == "src":
            # the nodes of a nested source text: positions are those INSIDE the text (one line, forms separated by one
            # blank, exactly as progs.render writes it), under the file name the runtime gives such a text
            self.pos[ids.next()] = here
            sub = ids.sub()
            inner = Layout(None)
            for j, x in enumerate(e[1]):
                if j:
                    inner.w(" ")
                inner.emit(x, sub)
            for i2, lc in inner.pos.items():
                self.pos[i2] = lc if len(lc) == 3 else ("load-string", lc[0], lc[1])
            text = "".join(inner.buf)
            if text != " ".join(P.render(x) for x in e[1]):
                raise ValueError("nested source rendered two ways")
            self.w(P.render(e))
        else:
            self.pos[ids.next()] = here
            self.w(P.render(e))

    def forms(self, forms, ids):
        for f in forms:
            self.emit(f, ids)
            self.w("\n" if self.rnd is None or self.rnd.random() < 0.7 else "\n\n  ")
        return "".join(self.buf)


def prog_with_layout(pid, evals, cfg=None, modes=None, rnd=None):
    """prog_record plus the source text of every evaluation and the node-id -> (evaluation, line, col) map"""
    rec = prog_record(pid, evals, cfg, modes)
    ids = Ids()
    srcs, pos = [], {}
    for k, forms in enumerate(evals):
        lay = Layout(rnd)
        srcs.append(lay.forms(forms, ids))
        for i, lc in lay.pos.items():
            pos[i] = lc if len(lc) == 3 else (k, lc[0], lc[1])
    return rec, srcs, pos


def prog_record(pid, evals, cfg=None, modes=None):
    ids = Ids()
    c = {"tro": True, "budget": 0, "cancel": 0, "noctx": 0, "ctxfirst": 0, "maxphys": 25000, "maxtail": 1000000, "maxnest": 100000, "maxmacro": 1000}
    c.update(cfg or {})
    return {"id": pid, "cfg": c, "evals": [[to_ast(f, ids) for f in forms] for forms in evals],
            "modes": list(modes) if modes else ["load"] * len(evals)}


def driver_cfg(cfg):
    c = cfg or {}
    d = {}
    if not c.get("tro", True):
        d["tro"] = "off"
    if c.get("budget"):
        d["maxsteps"] = c["budget"]
    if c.get("cancel"):
        d["cancel_at"] = c["cancel"]
    if c.get("noctx"):
        d["noctx_first"] = c["noctx"]
    if c.get("ctxfirst"):
        d["ctx_first"] = c["ctxfirst"]
    for k in ("maxphys", "maxtail", "maxnest", "maxmacro"):
        if k in c:
            d[k] = c[k]
    return d


# ---------------------------------------------------------------- normal forms

def nm(v):
    """normal form of a Machine value (uniform record)"""
    t = v["t"]
    if t == "int":
        return ("int", v["n"])
    if t == "float":
        return ("float", None if v["s"] == "?" else v["n"] / 16.0)
    if t == "str":
        return ("str", v["s"])
    if t == "sym":
        p = v["p"]
        if v["n"] > 0 and v["s"].startswith("gen"):
            return ("sym", "gen%08d" % v["n"], bool(v["q"]))       # a gensym: the runtime's zero-padded spelling
        name = v["s"] if p == "" else (":" + v["s"] if p == ":" else p + ":" + v["s"])
        return ("sym", name, bool(v["q"]))
    if t == "list":
        if len(v["c"]) == 0:
            return ("nil", bool(v["q"]))
        return ("list", bool(v["q"]), tuple(nm(x) for x in v["c"]))
    if t == "quote":
        return ("quote", nm(v["c"][0]))
    if t == "vec":
        return ("vec", tuple(nm(x) for x in v["c"]))
    if t == "map":
        return ("map", tuple((nm(e["c"][0]), nm(e["c"][1])) for e in v["c"]))
    if t == "fun":
        return ("fun",)
    if t == "err":
        return ("err", v["s"], bool(v["q"]))
    return ("other", t)


def nr(v):
    """normal form of a real value (driver jv)"""
    t = v["t"]
    if t == "int":
        return ("int", v["n"])
    if t == "float":
        return ("float", float(v["s"]))
    if t == "str":
        return ("str", v["s"])
    if t == "sym":
        return ("sym", v["s"], bool(v.get("q")))
    if t == "nil":
        return ("nil", bool(v.get("q")))
    if t == "list":
        return ("list", bool(v.get("q")), tuple(nr(x) for x in v["c"]))
    if t == "quote":
        return ("quote", nr(v["c"][0]))
    if t == "vec":
        return ("vec", tuple(nr(x) for x in v["c"]))
    if t == "map" and "e" in v:
        return ("map", tuple((nr(e[0]), nr(e[1])) for e in (v["e"] or [])))
    if t in ("fun", "op", "macro"):
        return ("fun",)
    if t == "err":
        return ("err", v["s"], bool(v.get("panic")))
    return ("other", t, json.dumps(v, sort_keys=True))


WILD = ("str", "#msg")


def veq(m_, r_):
    """model normal form vs real normal form; the model's "#msg" string matches any real value"""
    if m_ == WILD:
        return True
    if isinstance(m_, tuple) and len(m_) == 2 and m_[0] == "float":
        # a float the machine does not track is any float; a tracked one is that value (signed zeros are equal)
        return isinstance(r_, tuple) and len(r_) == 2 and r_[0] == "float" and (m_[1] is None or m_[1] == r_[1])
    if isinstance(m_, tuple) and isinstance(r_, tuple):
        if len(m_) != len(r_):
            return False
        return all(veq(a, b) for a, b in zip(m_, r_))
    return m_ == r_


def frames_m(fs):
    return [(f["name"], bool(f["term"]), bool(f["tro"]), f["iters"]) for f in fs]


def frames_r(fs):
    return [(f["name"], bool(f["term"]), bool(f["tro"]), f["iters"]) for f in (fs or [])]


MACHINE_CFG = """SPECIFICATION Spec
INVARIANTS K1 K5 K7 K10 Balanced NoPanicChain
CHECK_DEADLOCK TRUE
"""


def run_machine(work, records, timeout=1200, cfg_text=MACHINE_CFG, module="Machine", chunk=2500):
    """records: prog_record list. Returns (dict id -> results list, TLCResult).
    Every program is one initial state carrying its whole text, so TLC is given at most `chunk` programs per run
    (11,000 at once exhausted its heap); the counters of the runs are added up."""
    out, total = {}, None
    for k in range(0, max(len(records), 1), chunk):
        part = records[k:k + chunk]
        text = "".join(json.dumps(r, separators=(",", ":")) + "\n" for r in part)
        res = run_tlc(work, module, cfg_text, files={"progs.ndjson": text}, timeout=timeout)
        for rec in res.lines:
            out[rec["id"]] = rec["results"]
        if total is None:
            total = res
        else:
            total.distinct += res.distinct
            total.generated += res.generated
            total.depth = max(total.depth, res.depth)
            total.wall += res.wall
            total.raw += res.raw[-4000:]
            total.violated = list(total.violated) + [v for v in res.violated if v not in total.violated]
            total.error = total.error or res.error
            total.lines = []
        if res.violated or res.error:
            break
    return out, total


def compare_eval(me, re_, check_steps=True, check_frames=True):
    """Compare one top-level evaluation: model result record vs real eval record.
    Returns None or a description of the first difference."""
    mv, rv = nm(me["v"]), nr(re_["v"])
    mp, rp = me["probes"], (re_.get("probes") or [])
    canon = {}

    def cid(eid):       # error identity: model error ids numbered by first sight, like the driver numbers pointers
        if eid == 0:
            return 0
        if eid not in canon:
            canon[eid] = len(canon) + 1
        return canon[eid]
    for j, (a, b) in enumerate(zip(mp, rp)):
        ta, tb = tuple(nm(x) for x in a["tag"]), tuple(nr(x) for x in b["tag"])
        if len(ta) == 2 and ta[0] == ("sym", "capture", True):
            ta = (ta[0], ("int", cid(ta[1][1])))
        if not veq(ta, tb):
            return "probe %d tag: model %r real %r" % (j, ta, tb)
        if b.get("capture"):
            continue
        if check_frames and frames_m(a["frames"]) != frames_r(b["frames"]):
            return "probe %d frames: model %r real %r" % (j, frames_m(a["frames"]), frames_r(b["frames"]))
        if check_steps and a["steps"] != b["steps"]:
            return "probe %d steps: model %d real %d" % (j, a["steps"], b["steps"])
        if a["nest"] != b["nest"]:
            return "probe %d nesting: model %d real %d" % (j, a["nest"], b["nest"])
        if a["pkg"] != b["pkg"]:
            return "probe %d package: model %s real %s" % (j, a["pkg"], b["pkg"])
    if len(mp) != len(rp):
        return "probe count: model %d real %d" % (len(mp), len(rp))
    if not veq(mv, rv):
        return "value: model %r real %r" % (mv, rv)
    if me["v"]["t"] == "err" and "errid" in re_:
        if cid(me["v"]["n"]) != re_["errid"]:
            return "error identity: the model returns error #%d (numbered by first sight), the real run returns a different object (#%d)" % (cid(me["v"]["n"]), re_["errid"])
        md, rd = tuple(nm(x) for x in me["v"]["c"]), tuple(nr(x) for x in (re_.get("data") or []))
        if not veq(md, rd):
            return "error data: model %r real %r" % (md, rd)
    if check_steps and me["steps"] != re_["steps"]:
        return "final steps: model %d real %d" % (me["steps"], re_["steps"])
    rest = re_["rest"]
    if rest["frames"] != 0 or rest["nest"] != 0 or rest["cond"]:
        return "runtime not clean after evaluation: %r" % rest
    if me["pkg"] != rest["pkg"]:
        return "package after evaluation: model %s real %s" % (me["pkg"], rest["pkg"])
    if "reg" in me and "reg" in rest:
        mr = {p: (sorted(set(x["exports"])), sorted(x["names"])) for p, x in me["reg"].items()}
        rr = {p: (sorted(set(x["exports"] or [])), sorted(x["names"] or [])) for p, x in rest["reg"].items()}
        if mr != rr:
            return "package registry: model %r real %r" % (mr, rr)
    return None
