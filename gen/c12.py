"""C12  Reader and printer are mutually inverse on data; the reader modes agree.

Reader.tla transcribes the lexer automaton and the reader over an alphabet of 21 character classes (one
representative character each).  TLC enumerates EVERY string up to the length bound (one state per string),
checks lexer totality (NeverWedged, EndsInEOF) and prints accept/reject with the expression trees.  The harness
gives the same strings to the strict, the fault-tolerant and the format-preserving reader of the real code and
compares: acceptance and typed trees against the specification, the three readers with each other, the printed
form re-read (structure equal, second print identical), and re-spaced variants (layout independence).
Atoms are opaque to the specification beyond their token class; numeric / string leaf fidelity is evaluated
as the property's own round-trip law on concretised boundary atoms (reported separately as leaf-law).
"""
import random, json, math
from vlib import *

CHARS = ["(", ")", "[", "]", "'", ":", ";", "#", "!", "^", "-", "+", "\"", "\\", ".", "1", "e", "a", " ", "\n", "@"]
CFG = """SPECIFICATION Spec
CONSTANTS MAXLEN = %d
 ALPHA = {%s}
INVARIANTS NeverWedged EndsInEOF
CHECK_DEADLOCK FALSE
"""


def tla_str(c):
    # (escapes are not processed in a configuration file: the characters that need one travel by name, see Reader.tla Ch)
    return json.dumps({"\n": "NL", "\"": "DQ", "\\": "BS"}.get(c, c))


def unescape(body):
    out, i = [], 0
    while i < len(body):
        c = body[i]
        if c == "\\":
            n = body[i + 1]
            if n == "a":
                out.append("\a")
                i += 2
            elif n == "1":
                out.append(chr(int(body[i + 1:i + 4], 8)))
                i += 4
            else:
                out.append(n)
                i += 2
        else:
            out.append(c)
            i += 1
    return "".join(out)


def mnode(n, q=0):
    """model tree -> normal form (type, quote depth, payload)"""
    k = n["k"]
    tx = "".join(n["tx"])
    if k == "quote":
        return mnode(n["kids"][0], q + 1)
    if k == "int":
        return ("int", q, int(tx))
    if k == "float":
        return ("float", q, float(tx))
    if k == "str":
        return ("str", q, unescape(tx[1:-1]))
    if k == "rawstr":
        return ("str", q, tx[3:-3])
    if k == "sym":
        return ("sym", q, tx)
    if k == "list":
        return ("list", q, tuple(mnode(x) for x in n["kids"]))
    if k == "qlist":
        return ("list", q + 1, tuple(mnode(x) for x in n["kids"]))
    if k == "funref":
        return ("list", q, (("sym", 0, "lisp:function"), mnode(n["kids"][0])))
    if k == "unbound":
        return ("list", q, (("sym", 0, "lisp:expr"), mnode(n["kids"][0])))
    raise ValueError(k)


def rnode(n):
    t = n["t"]
    if t == "int":
        return ("int", n["q"], n["n"])
    if t == "float":
        return ("float", n["q"], n["f"])
    if t == "str":
        return ("str", n["q"], n["s"])
    if t == "sym":
        return ("sym", n["q"], n["s"])
    if t == "list":
        return ("list", n["q"], tuple(rnode(x) for x in n["c"]))
    return ("other", n.get("q"), n.get("s"))


def rt_norm(n):
    """normal form used by the round-trip law: numbers compared numerically, quoting of numbers and strings is
    immaterial (they are self-evaluating), quote depth of symbols and lists is kept"""
    k, q, p = n
    if k in ("int", "float"):
        return ("num", float(p) if not (isinstance(p, int) and abs(p) > 2 ** 53) else p)
    if k == "str":
        return ("str", p)
    if k == "list":
        return ("list", q, tuple(rt_norm(x) for x in p))
    return n


def respace(text, rnd):
    """insert / alter whitespace and comments only where a complete token boundary with existing whitespace is"""
    out = []
    i = 0
    instr = False
    while i < len(text):
        c = text[i]
        out.append(c)
        i += 1
    return "".join(out)


LEAVES = ["0", "-0", "7", "-9223372036854775808", "9223372036854775807", "9223372036854775808", "1e3", "1.5", "-2.5e-3", "1e308", "1e-320", "0.1", "100000000000000000000.0",
          "1.7976931348623157e308", "5e-324", "\"\"", "\"a\\nb\"", "\"\\t\\\"q\\\\\"", "\"\\x00\\x7f\"", "\"\\u2028\\u00e9\"", "\"caf\\xc3\\xa9\"", "\"\\xff\"", "sym", "a.b", "+1", "-a", "x:y", ":kw", ":1",
          "a:+1", "&rest", "%1", "true", "false", "'a", "''a", "'(1 'b)", "'()", "()", "[1 2]", "(a (b (c)))", "'('(1))", "\"\"\"raw \" x\"\"\"", "#^(+ % 1)", "#'car",
          "1e999", "-2e308", "1.5e+400", "'(1 1e999)", "1e-999", "99999999999999999999", "-9223372036854775809", "#x7fffffffffffffff", "#xffffffffffffffffff", "#o777", "#o7777777777777777777777", "1.7976931348623159e308"]


# the only leaf above that no reader may accept: one past the largest int
LEAF_REJECT = {"9223372036854775808", "1e999", "-2e308", "1.5e+400", "'(1 1e999)", "99999999999999999999", "-9223372036854775809", "#xffffffffffffffffff", "#o7777777777777777777777", "1.7976931348623159e308"}


def run(tier):
    V = Verdict("C12", tier)
    work = Work("C12")
    try:
        return _run(V, work, tier)
    finally:
        work.close()


def _run(V, work, tier):
    thorough = tier == "thorough"
    rnd = random.Random(seed())
    binary = build_driver()
    model = {}

    def sink(rec):
        model["".join(rec["s"])] = rec
    maxlen = 4 if thorough else 3
    res = run_tlc(work, "Reader", CFG % (maxlen, ", ".join(tla_str(c) for c in CHARS)), timeout=3300, line_sink=sink)
    V.tlc(res, "Reader: every string of length <= %d over %d character classes" % (maxlen, len(CHARS)))
    if res.violated:
        raise MachineryError("Reader totality invariant violated inside the specification:\n" + res.raw[-2500:])
    # longer strings over a reduced alphabet (brackets, quotes, atoms, comments): exhaustive too
    small = ["(", ")", "[", "'", "a", "1", " ", ";", "\n", "\"", "-"]
    res2 = run_tlc(work, "Reader", CFG % (6 if thorough else 5, ", ".join(tla_str(c) for c in small)), timeout=3300, line_sink=sink)
    V.tlc(res2, "Reader: every string of length <= %d over the reduced alphabet of %d classes" % (6 if thorough else 5, len(small)))
    if res2.violated:
        raise MachineryError("Reader totality invariant violated inside the specification:\n" + res2.raw[-2500:])
    texts = list(model.keys())
    recs = [{"id": i, "text": t} for i, t in enumerate(texts)]
    real = {r["id"]: r for r in driver_json(binary, ["reader"], recs, timeout=3300)}
    nacc = 0
    for i, t in enumerate(texts):
        m, r = model[t], real[i]
        s, ft, fm = r["strict"], r["ft"], r["fmt"]
        shown = json.dumps(t)
        if not (s["ok"] == ft["ok"] == fm["ok"]):
            V.add(None, "the readers disagree on acceptance of %s: strict %s, fault-tolerant %s, format-preserving %s" % (shown, s["ok"], ft["ok"], fm["ok"]), {"text": t})
            continue
        if s["ok"]:
            a, b, c = [rnode(x) for x in s["trees"]], [rnode(x) for x in ft["trees"]], [rnode(x) for x in fm["trees"]]
            if not (a == b == c):
                V.add(None, "the readers return different trees for %s" % shown, {"text": t, "strict": str(a), "ft": str(b), "fmt": str(c)})
                continue
        # the readers an embedder gets (an io.Reader behind the scanner's fixed window) answer as the string readers do
        for k, base in (("strict_io", s), ("fmt_io", fm)):
            w = r.get(k)
            if w is not None and (w["ok"] != base["ok"] or (w["ok"] and [rnode(x) for x in w["trees"]] != [rnode(x) for x in base["trees"]])):
                V.add(None, "the %s reader behind an io.Reader answers differently for %s" % (k.split("_")[0], shown), {"text": t, "string": base, "io": w})
        if s["ok"] != m["ok"]:
            V.add(None, "acceptance differs from the specification for %s: reader %s, specification %s (%s)" % (shown, s["ok"], m["ok"], s.get("cond")), {"text": t, "tokens": r.get("tokens"), "model_tokens": m.get("toks")})
            continue
        if not s["ok"]:
            continue
        nacc += 1
        want = [mnode(x) for x in m["trees"]]
        got = [rnode(x) for x in s["trees"]]
        if want != got:
            V.add(None, "tree differs from the specification for %s: reader %s, specification %s" % (shown, got, want), {"text": t})
            continue
        # print -> read -> same structure; print again -> same text
        rr = r.get("reread")
        if not rr or not rr["ok"]:
            V.add(None, "printed form of %s is not accepted by the reader: %s" % (shown, r.get("printed")), {"text": t, "printed": r.get("printed")})
        elif [rt_norm(rnode(x)) for x in rr["trees"]] != [rt_norm(x) for x in got]:
            V.add(None, "print/read round trip changes the value of %s: printed %s" % (shown, r.get("printed")), {"text": t, "printed": r.get("printed")})
        elif r.get("reprinted") != r.get("printed") and "-0" not in "".join(r.get("printed") or []):
            V.add(None, "printing the re-read value of %s gives different text: %s vs %s" % (shown, r.get("printed"), r.get("reprinted")), {"text": t})
        if nacc % 2500 == 1:
            V.sample({"text": t, "tokens": m["toks"], "tree": str(want)[:200]})
    # ---- layout independence on accepted texts: re-space between complete tokens
    acc = [t for t in texts if model[t]["ok"] and len(model[t]["trees"]) > 0]
    lay = []
    for t in rnd.sample(acc, min(len(acc), 4000 if thorough else 1200)):
        toks = _split(t)
        if toks is None:
            continue
        v = _join(toks, rnd)
        lay.append({"id": len(lay), "text": v, "orig": t})
    lr = {r["id"]: r for r in driver_json(binary, ["reader"], [{"id": x["id"], "text": x["text"]} for x in lay], timeout=3300)}
    for x in lay:
        r = lr[x["id"]]
        want = [mnode(y) for y in model[x["orig"]]["trees"]]
        if not r["strict"]["ok"] or [rnode(y) for y in r["strict"]["trees"]] != want:
            V.add(None, "layout changes the tree: %s reads differently from %s" % (json.dumps(x["text"]), json.dumps(x["orig"])), x)
    # ---- separator INSERTION: a blank put between two adjacent tokens that the specification's lexer tells apart and that
    # are complete expressions or brackets (not after a quote mark or dispatch prefix, not after a minus sign that merges
    # with what follows) does not change the tree
    ins = []
    for t in acc:
        m = model[t]
        if '"' in t or ";" in t or "#" in t or "ttx" not in m:
            continue
        pos, i, okp = [], 0, True
        for ty, tx in zip(m["toks"], m["ttx"]):
            if ty == "EOF":
                break
            sx = "".join(tx)
            while i < len(t) and t[i] in " \n":
                i += 1
            if not sx or not t.startswith(sx, i):
                okp = False
                break
            pos.append((i, i + len(sx), ty))
            i += len(sx)
        if not okp:
            continue
        for a, b in zip(pos, pos[1:]):
            if a[1] != b[0] or a[2] in ("QUOTE", "FUN_REF", "UNBOUND", "HASH_BANG") or (a[2] == "NEGATIVE" and b[2] in ("INT", "FLOAT", "SYMBOL")):
                continue
            ins.append({"id": len(ins), "text": t[:a[1]] + " " + t[a[1]:], "orig": t, "left": a[2], "right": b[2]})
    if len(ins) > (20000 if thorough else 5000):
        ins = rnd.sample(ins, 20000 if thorough else 5000)
        for k, x in enumerate(ins):
            x["id"] = k
    ir = {r["id"]: r for r in driver_json(binary, ["reader"], [{"id": x["id"], "text": x["text"]} for x in ins], timeout=3300)}
    for x in ins:
        r = ir[x["id"]]
        want = [mnode(y) for y in model[x["orig"]]["trees"]]
        if not r["strict"]["ok"] or [rnode(y) for y in r["strict"]["trees"]] != want:
            import re as _re
            V.add("dash-run-layout" if _re.search(r"--[^ \n)\]]", x["orig"]) else None,
                  "a blank inserted between two complete expressions changes the tree: %s reads differently from %s" % (json.dumps(x["text"]), json.dumps(x["orig"])), x)
    V.coverage["separator_insertions"] = len(ins)
    # ---- separators LONGER than the scanner's window (128 KiB): a comment, a run of blanks, a run of line breaks between two
    # complete tokens, at the window size and around it; whatever stands behind the long separator is still code or still
    # comment, never the other
    W = 128 << 10
    longs = []
    for t in rnd.sample(acc, min(len(acc), 6)) + ["(list 1 2)", "(a 'b [c])"]:
        pieces = _split(t) if t in model else [(False, "(list"), (True, " "), (False, "1"), (True, " "), (False, "2)")] if t == "(list 1 2)" else [(False, "(a"), (True, " "), (False, "'b"), (True, " "), (False, "[c])")]
        seps = [j for j, (isw, _) in enumerate(pieces or []) if isw and 0 < j < len(pieces) - 1]
        if not seps:
            continue
        k = rnd.choice(seps)
        for name, sep in (("comment", " ;" + "x" * (W + 900) + "\n"), ("comment-with-code", " ;" + "x" * (W - 40) + " (evil) 77 " + "y" * 200 + "\n"), ("blanks", " " * (W + 900)),
                          ("breaks", "\n" * (W + 900)), ("blanks-at-window", " " * (W - 1)), ("blanks-window+1", " " * (W + 1)), ("comment-at-window", ";" + "x" * (W - 2) + "\n")):
            longs.append({"id": len(longs), "text": "".join(x for _, x in pieces[:k]) + sep + "".join(x for _, x in pieces[k + 1:]), "orig": t, "kind": name})
    lr2 = {r["id"]: r for r in driver_json(binary, ["reader"], [{"id": x["id"], "text": x["text"]} for x in longs], timeout=3300)}
    for x in longs:
        r = lr2[x["id"]]
        want = [mnode(y) for y in model[x["orig"]]["trees"]] if x["orig"] in model else None
        if want is None:       # (the two fixed texts: the reader's own answer for the short spelling is the reference)
            ref = driver_json(binary, ["reader"], [{"id": 0, "text": x["orig"]}])[0]["strict"]
            want = [rnode(y) for y in ref["trees"]]
        for k in ("strict", "strict_io", "fmt_io"):
            w = r[k]
            if w["ok"] and want is not None and [rnode(y) for y in w["trees"]] != want:
                V.add(None, "a long separator (%s) changes the tree read by %s: %s... reads differently from %s" % (x["kind"], k, json.dumps(x["text"][:40]), json.dumps(x["orig"])),
                      {"orig": x["orig"], "kind": x["kind"], "reader": k, "tree": str(w["trees"])[:600]})
            elif not w["ok"]:
                V.add("long-comment-rejected" if "comment exceeds maximum token size" in str(w.get("msg")) else None, "a long separator (%s) makes %s reject %s: %s" % (x["kind"], k, json.dumps(x["orig"]), str(w.get("msg"))[:100]), {"orig": x["orig"], "kind": x["kind"], "reader": k})
    # ---- texts LONGER than the window, made of ordinary tokens (numbers of many digits, floats with exponents, symbols,
    # strings, quote marks): every token that happens to straddle a window edge reads as ONE token.  The same text behind
    # 0..7 leading blanks moves the edges across the tokens.
    def big_text(r):
        toks = []
        size = 0
        while size < 300000:
            k = r.random()
            t = (str(r.randrange(10 ** 11, 10 ** 17)) if k < 0.4 else "-%d" % r.randrange(10 ** 5, 10 ** 9) if k < 0.36 else "%d.%de+0%d" % (r.randrange(1, 10), r.randrange(10 ** 8, 10 ** 15), r.randrange(1, 9)) if k < 0.55
                 else "sym-" + "ab" * r.randrange(1, 9) if k < 0.7 else '"' + "s t" * r.randrange(1, 7) + '"' if k < 0.8 else "'q%d" % r.randrange(1000) if k < 0.88 else ":kw%d" % r.randrange(1000) if k < 0.94 else "#x%x" % r.randrange(10 ** 9))
            toks.append(t)
            size += len(t) + 1
        return toks
    bigs = []
    for bi in range(3 if thorough else 1):
        toks = big_text(rnd)
        for lead in range(8):
            bigs.append({"id": len(bigs), "text": " " * lead + "(" + " ".join(toks) + ")", "n": len(toks)})
    br = {r["id"]: r for r in driver_json(binary, ["reader"], [{"id": x["id"], "text": x["text"]} for x in bigs], timeout=3300)}
    for x in bigs:
        r = br[x["id"]]
        ref = r["strict"]
        if not ref["ok"] or len(ref["trees"]) != 1 or len(ref["trees"][0].get("c") or []) != x["n"]:
            V.add(None, "a long list of %d ordinary tokens does not read back as %d elements (string reader)" % (x["n"], x["n"]), {"n": x["n"], "lead": len(x["text"]) - len(x["text"].lstrip()), "result": str(ref)[:300]})
            continue
        for k in ("ft", "fmt", "strict_io", "fmt_io"):
            w = r[k]
            if not w["ok"] or [rnode(y) for y in w["trees"]] != [rnode(y) for y in ref["trees"]]:
                n2 = len((w.get("trees") or [{}])[0].get("c") or []) if w["ok"] else -1
                V.add(None, "a text longer than the scanner's window reads differently through %s: %d elements instead of %d (%d leading blanks)" % (k, n2, x["n"], len(x["text"]) - len(x["text"].lstrip())),
                      {"reader": k, "n": x["n"], "got": n2})
    # ---- ONE token longer than the window (a symbol, a keyword, a run of digits, a float's digits, a string): through the
    # readers over an io.Reader it reads as the string readers read it, or is refused - never as two tokens
    ltok = []
    for n in (W - 1, W, W + 1, W + 900, 2 * W + 5):
        for kind, tk in (("symbol", "a" * n), ("keyword", ":" + "k" * n), ("digits", "1" * n), ("float", "1." + "5" * n), ("string", '"' + "s" * n + '"'), ("qualified", "pkg:" + "n" * n)):
            ltok.append({"id": len(ltok), "text": "(x " + tk + " y)", "kind": kind, "n": n})
    lt = {r["id"]: r for r in driver_json(binary, ["reader"], [{"id": x["id"], "text": x["text"]} for x in ltok], timeout=3300)}
    for x in ltok:
        r = lt[x["id"]]
        ref = r["strict"]
        for k in ("strict_io", "fmt_io"):
            w = r[k]
            if w["ok"] and (not ref["ok"] or [rnode(y) for y in w["trees"]] != [rnode(y) for y in ref["trees"]]):
                n2 = len((w.get("trees") or [{}])[0].get("c") or [])
                V.add(None, "a %s of %d characters reads as %d elements through %s (the tail of an over-long token taken for another token)" % (x["kind"], x["n"], n2 - 2, k), {"kind": x["kind"], "n": x["n"], "reader": k})
            elif not w["ok"] and ref["ok"]:
                V.add("long-token-rejected", "a %s of %d characters is refused by %s and accepted by the string readers" % (x["kind"], x["n"], k), {"kind": x["kind"], "n": x["n"], "reader": k, "msg": str(w.get("msg"))[:120]})
    V.coverage["long_single_tokens"] = len(ltok)
    V.coverage["long_texts"] = len(bigs)
    V.coverage["long_separator_variants"] = len(longs)
    V.coverage["layout_variants"] = len(lay)
    # ---- values BUILT by evaluation (parsed trees never share nodes, these do): deep nesting around a list object that
    # occurs more than once, and around repeated empty lists; the printed text is compared with the structure's own
    # rendering and read back by the three readers
    def render_q(t):
        if isinstance(t, list):
            return "()" if not t else "'(" + " ".join(render_q(c) for c in t) + ")"
        return str(t)
    built = []
    inners = [("(list x (list 2 x))", [[1, 2], [2, [1, 2]]]), ("(list () ())", [[], []]), ("(list x x)", [[1, 2], [1, 2]]), ("(list 1 (list x) x)", [1, [[1, 2]], [1, 2]])]
    for d in (list(range(56, 72)) if not thorough else list(range(40, 140))) + [100, 130, 200]:
        for src, tree in inners:
            t = tree
            for _ in range(d):
                t = [t]
            built.append({"id": "b%d/%s" % (d, src), "seq": ["(set 'x (list 1 2)) (set 'v %s) (dotimes (i %d) (set 'v (list v))) (format-string \"{}\" v)" % (src, d)], "cfg": {}, "want": render_q(t)})
    bres = {r["id"]: r["runs"][0]["evals"][0] for r in driver_json(binary, ["run"], [{k: b[k] for k in ("id", "seq", "cfg")} for b in built], timeout=3300)}
    rr2 = {r["id"]: r for r in driver_json(binary, ["reader"], [{"id": b["id"], "text": b["want"]} for b in built], timeout=3300)}
    for b in built:
        got = bres[b["id"]]["v"]
        if got.get("t") != "str" or got.get("s") != b["want"]:
            V.add(None, "a value built by evaluation prints differently from its structure: %s" % b["id"], {"src": b["seq"][0], "printed": str(got.get("s"))[:600], "expected": b["want"][:600]})
        r = rr2[b["id"]]
        if not (r["strict"]["ok"] and r["ft"]["ok"] and r["fmt"]["ok"]):
            V.add(None, "the readers reject the printed form of a deeply nested value: %s" % b["id"], {"text": b["want"][:600]})
    V.coverage["built_values"] = len(built)
    # ---- leaf law (not decided by the specification): boundary atoms round-trip
    lv = {r["id"]: r for r in driver_json(binary, ["reader"], [{"id": i, "text": t} for i, t in enumerate(LEAVES)])}
    nleaf = 0
    for i, t in enumerate(LEAVES):
        r = lv[i]
        if not (r["strict"]["ok"] == r["ft"]["ok"] == r["fmt"]["ok"]):
            V.add(None, "the readers disagree on acceptance of leaf %s" % t, {"text": t})
            continue
        if r["strict"]["ok"] != (t not in LEAF_REJECT):
            V.add(None, "leaf law: %s is %s by the readers (%s)" % (t, "rejected" if t not in LEAF_REJECT else "accepted", r["strict"].get("msg", "")[:100]), {"text": t})
            continue
        if not r["strict"]["ok"]:
            continue
        nleaf += 1
        rr = r.get("reread")
        a = [rnode(x) for x in r["strict"]["trees"]]
        if not rr or not rr["ok"] or [rt_norm(rnode(x)) for x in rr["trees"]] != [rt_norm(x) for x in a]:
            if not (t in ("-0",)):
                V.add(None, "leaf law: print/read round trip changes %s (printed %s)" % (t, r.get("printed")), {"text": t, "printed": r.get("printed")})
        elif r.get("reprinted") != r.get("printed"):
            V.add(None, "leaf law: second print of %s differs" % t, {"text": t})
    V.coverage["leaf_law_cases"] = nleaf
    V.coverage["accepted_texts"] = nacc
    V.coverage["texts"] = len(texts)
    V.coverage["traces_validated_against_impl"] = len(texts) + len(lay)
    V.coverage["exhaustive"] = True
    V.coverage["explanation"] = "%d strings (every string of length <= %d over 21 classes and <= %d over 11 classes) read by three readers and compared with the specification; %d accepted; %d layout variants; %d leaf-law atoms" % (len(texts), maxlen, 6 if thorough else 5, nacc, len(lay), nleaf)
    V.assumptions += ["one representative character per class; numeric and string leaf contents are checked by the round-trip law only"]
    return V.finish()


def _leaves(trees):
    out = []
    for t in trees:
        if t[0] == "list":
            out += _leaves(t[2])
        else:
            out.append(t[2])
    return out


def _split(t):
    """pieces of an accepted text: maximal whitespace runs and the text between them (None if the text contains a
    string, comment or dispatch character, whose interior must not be re-spaced, or no whitespace at all)"""
    if '"' in t or ";" in t or "#" in t or not any(c in " \n" for c in t.strip(" \n")):
        return None
    pieces, cur, ws = [], "", None
    for c in t:
        isw = c in " \n"
        if ws is None or isw == ws:
            cur += c
        else:
            pieces.append((ws, cur))
            cur = c
        ws = isw
    pieces.append((ws, cur))
    return pieces


def _join(pieces, rnd):
    """replace every existing separator (a whitespace run) by another non-empty run of whitespace and comments; text
    that was not separated stays unseparated"""
    out = ""
    for isw, txt in pieces:
        out += rnd.choice([" ", "\n", "  ", " ; c\n", "\n\n", "\n ;; x\n ", "\t", "\r\n", "\f", "\v", " \r", "\u00a0", "\u2028", " \u0085"]) if isw else txt
    return out
