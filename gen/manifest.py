"""Regenerates MANIFEST.json from the table below (run by hand when a check is added)."""
import json, subprocess, os
ROOT = os.path.dirname(os.path.dirname(os.path.abspath(__file__)))
PROPS = [json.loads(l)["id"] for l in open(os.path.join(ROOT, "properties.jsonl"))]

MC = "model_checking"
CHECKS = {
 "C02": dict(engine="Kernel+Machine+KernelTrace",
   text="TLC checks the tail-call invariants (K5, K7, K7b) exhaustively on the abstract-program Kernel; the Machine specification predicts, for every generated program with elimination on and off, every probe's complete frame snapshot (names, Terminal, TROBlock, TailIterations), step count, nesting and value, which are compared with the real interpreter; hook traces of the same runs are validated event by event against KernelTrace; the property's own relations (on vs off vs profiler; loop height independent of n for terminal chains, exactly linear through blocking boundaries) are evaluated on real runs.",
   note="Trusted: hook placement (DESIGN 2.3), TLC, the driver's probe builtin. Bounded: Kernel G<=6 (7 thorough); shape-indexed and nesting families (wrapper chains of depth <= 2 exhaustive/sampled, 3 sampled); iteration counts <= 41 (400 thorough).",
   technique="TLA+ model checking with TLC; spec-predicted transcripts replayed on the code; trace validation against a TLA+ trace spec", ref="DESIGN.md 6 C02"),
 "C04": dict(engine="Kernel+Machine+KernelTrace",
   text="The Machine specification (step counter charged at the five sites, budget, poll-indexed cancellation, physical/nesting/tail/macro limits, per-evaluation refill) predicts the full transcript of every program under EVERY step budget n=1..S+1, under cancellation at every poll index and under small limits; each is replayed on the real interpreter and compared (values, conditions, effects with their step stamps, frames, nesting). The prefix / enough-budget / bound relations are also evaluated real-vs-real; Kernel exhaustive with a finite budget checks K1 K2 K9 K10 and the action properties BudgetStops, StepMonotone; hook traces are validated by KernelTrace including the rule that a step charged beyond the budget may only be followed by unwinding.",
   note="Cancellation is modelled as the k-th poll of ctx.Err() (deterministic), not wall-clock deadlines; MaxAlloc and a pending time:sleep are not part of this check (sleep: C15). Budgets are enumerated completely for programs with S <= 90 steps (400 thorough), sampled above.",
   technique="TLA+ model checking with TLC; spec-predicted transcripts for every budget replayed on the code; trace validation", ref="DESIGN.md 6 C04"),
 "C05": dict(engine="Kernel+Machine+KernelTrace",
   text="Kernel exhaustive over histories of entries in which every activation kind can fail in every way (error, limit, host panic, failing handler, failing nested load) checks K10 CleanAtRest, K10ctx (bridged evaluation context restored) and frame/activation balance in every reachable state. The Machine predicts histories of evaluations through the Load, FunCall, MacroCall and SpecialOpCall entry points drawn from a pool of mutating and failing forms, and the same histories with a failure injected at every step index through the budget; after every entry point returns the driver reads the real runtime's rest state (frames, pending condition, nesting, package, context) and every later evaluation is compared with the specification's prediction, which sees completed effects only. Hook traces must be clean at every outermost end event.",
   note="Trusted: the driver's rest-state reader (public API: Stack.Frames, CurrentCondition, EvalNesting, Package, Context). LoadProgram / LoadFile entry points are exercised only through load-string / C20. Bounded: Kernel G<=5 (6 thorough), 3 entries; histories of 4 evaluations from a pool of 26 forms.",
   technique="TLA+ model checking with TLC; spec-predicted histories with failure injection replayed on the code; trace validation", ref="DESIGN.md 6 C05"),
 "C06": dict(engine="Kernel+Machine+KernelTrace",
   text="The Machine specification states the matching rule (bindings in order, name equality or `condition` unless the error is a recovered panic), handler invocation with (quoted name, data...), the condition stack, rethrow by identity, ignore-errors with the panic carve-out; TLC computes the transcript of every nesting of handler-bind / ignore-errors / progn to the depth bound with every raise kind at every position, and each is compared with the real interpreter: which handler ran with which arguments, values, skipped forms, and the identity (pointer), condition, data and stack of the error the host finally receives. Kernel exhaustive checks the condition-stack discipline K12; cpush/cpop events are validated on real traces.",
   note="Bounded: nestings exhaustive to depth 1 (328 expressions) plus a 1500-sample of depth 2 in the quick tier; depth 2 exhaustive (13128) plus a depth-3 sample in the thorough tier. Binding lists are a curated set of 8 over the specifiers a, b, condition, internal-panic.",
   technique="TLA+ model checking with TLC; spec-predicted transcripts replayed on the code; trace validation", ref="DESIGN.md 6 C06"),
 "C19": dict(engine="Bind",
   text="Bind.tla states the run-time binder (required / &optional / &rest / &key, keyword-shaped and plain arguments) and the linter's static (min, max) summary as functions of a signature; TLC checks the agreement theorem (soundness, completeness without &key, no invalid-number-of-arguments after acceptance) in one state per (signature, k) for every well-formed shape up to the bound and for every signature of the REAL registry (dumped from the code at check time). Every prediction (lint reports?, binder outcome class) is replayed: the one-call program is linted with the builtin-arity / if-arity / user-arity analyzers and evaluated on the real interpreter, and both answers are compared with the specification and with each other. Shadowing: 17 syntactic contexts x k; the specification's Reach(ctx) is compared with the binding the evaluator actually reaches and the lint verdict with Expected(ctx, k).",
   note="Exhaustive within the bounds (shapes of <= 4 parameter names, k <= 7; 5 and 8 thorough; registry k in 0..max+2). Malformed formal lists (control symbol in an invalid place) are outside the property's signature grammar. Five shadowing contexts are recorded as known findings (lint skips calls that reach the builtin).",
   technique="TLA+ model checking with TLC (exhaustive); spec predictions replayed on linter and evaluator", ref="DESIGN.md 6 C19"),
 "C20": dict(engine="PathFS",
   text="PathFS.tla models a directory tree with file / directory / absolute / relative / dangling / cyclic links, lexical cleaning, link-expanding resolution, and what the RootDir library and the fs.FS library may answer. TLC enumerates every location string up to the component bound x 6 prefixes x 3 loading contexts x 2 root spellings, one state per case, checking NoEscape, and prints the served cases. The harness builds the same tree on the real file system and runs the same case space through LoadSource, (load-file ...) written in a loading file, and LoadFile; whatever the code serves must be served by the specification with the same content (so a relative location resolved against the wrong directory is caught as well as an escape).",
   note="Exhaustive over locations of <= 3 components (4 thorough) of a 19-name alphabet on one rich layout (links to files and directories inside and outside, to the root's parent, a sibling sharing the root's prefix, root itself given through a link). Refusing is always allowed by the property; refusals of servable locations are counted in the evidence, not reported. os.DirFS follows links by documented design, so link layouts are exercised only against the RootDir library.",
   technique="TLA+ model checking with TLC (exhaustive case enumeration); spec predictions replayed on a real directory tree", ref="DESIGN.md 6 C20"),
 "C09": dict(engine="Shared",
   text="Shared.tla models R runtimes over one Program region with scripts of the operations by which a program literal reaches a mutating builtin (sort, cdr/rest + sort, slice 'vector + append!, zero-value append + sort, macro argument, private definitions, reload); TLC checks ProgramFrozen, NoLaunder and Isolation in every state of every interleaving (exhaustive for 2 runtimes x scripts of 2; simulation for 3 x 3) and prints the behaviours. The harness parses the program once, shares the expression slice between real runtimes on separate goroutines, imposes TLC's schedule with one gate per operation and compares the structural fingerprint before/after, every result with the specification's and with a solo run against a fresh parse, and the literal re-evaluated afterwards. The same scripts run free (8 goroutines, repeated loads) under the Go race detector.",
   note="Trusted: lisp.SealedASTFingerprint (the repository's own structural digest), the Go race detector. The gated replay serialises operations, so data races can only be exhibited by the free-running runs (12 quick / 60 thorough). The checked build (-tags elpscheck) is not used.",
   technique="TLA+ model checking with TLC (all interleavings); spec schedules imposed on real goroutines; race detector", ref="DESIGN.md 6 C09"),
 "C11": dict(engine="Heap",
   text="Heap.tla transcribes 24 container operations (constructors, views, non-mutating builders, mutators, sorted maps keyed by name) over backing arrays, windows (offset, length, capacity, sealed) and element references. TLC checks exhaustively over all 2-operation histories the action property NonMut (a non-mutating operation leaves the rendering of every pre-existing variable unchanged) and the invariants ProgramFrozen, NoLaunder, WellFormed, NoSpareOnViews; every history ending in a mutator (all alias x mutator pairs, ~21k) and seeded simulated histories of 5-6 operations are replayed on the real interpreter with every variable re-printed after every step and compared with the specification's rendering.",
   note="Not in the operation alphabet: byte strings (append-bytes), zip, insert-sorted, multi-dimensional arrays. Capacity growth of an owning vector is not observable (views are clamped) and is modelled only up to that.",
   technique="TLA+ model checking with TLC (exhaustive pairs + simulation); spec histories replayed on the code", ref="DESIGN.md 6 C11"),
 "C14": dict(engine="Schema",
   text="Schema.tla defines Build(schema) and Accept(schema, value) as recursive functions over schema terms from the declared meaning of the s package (types, s:in, comparisons, length constraints, s:of, key constraints, s:no-other-keys, s:when, s:not, truthiness, regexp, nested validators, malformed terms). TLC computes the verdict of every generated schema (every type x every single constraint / composite / malformed term, plus seeded two-constraint schemas) against 33 representative values, with the algebraic laws NotInverts, FalsyIsNotTruthy, MalformedNeverPasses as invariants; the harness builds each schema with s:make-validator and evaluates s:validate on the real interpreter and compares construction outcome and result class / condition for every pair.",
   note="Regular expressions are limited to three fixed patterns (TLC strings are opaque). Tagged-value validators and s:deftype's global binding are not generated. One known finding: the strings \"true\"/\"false\" pass boolean checks (pinned by the repository's own test).",
   technique="TLA+ (TLC evaluates the specification's Accept on every case); spec verdicts replayed on the code", ref="DESIGN.md 6 C14"),
 "C08": dict(engine="Machine",
   text="The package registry of Machine.tla (in-package creating packages that use the language package's current exports, export, use-package copying the exported bindings by value at that moment, set / defun / defmacro binding in the current package, qualified access to any binding, self-evaluating unbindable keywords, the package swap to a function's defining package for the call, load-string restoring the package, true/false unbindable in every scope) predicts every history of package operations; TLC computes the transcript (every reference's value or error, the package current at every probe, the registry's exports and bound names after each evaluation) and it is compared with the real interpreter.",
   note="Histories of <= 2 operations from an alphabet of 46 are exhaustive in the thorough tier (700-sample in quick), plus seeded histories of 4-9 operations. Package and symbol names are opaque strings to TLC; three packages and a handful of names.",
   technique="TLA+ definitional machine run by TLC; spec-predicted transcripts and registry snapshots replayed on the code", ref="DESIGN.md 6 C08"),
 "C18": dict(engine="Machine",
   text="Machine.tla carries the per-environment location register (set by eval, saved and restored around argument evaluation, set by set!), stamps every error with a copy of it and of the call stack (each frame with its call-site node), keeps template positions through quasiquote and gives position-less nodes of a macro expansion the macro call site. For generated failing programs (19 error kinds under the wrapper chains of the shape family, in function bodies, handlers, macro templates and macro-built forms, rendered with seeded random layout) TLC predicts the node whose position the error must carry and the (frame name, call-site node) list; node ids are mapped to (line, col) of the rendered text and compared with (*LVal).Source() and CallStack() of the real error, also as captured inside a rethrowing handler.",
   note="Positions are compared as (line, col) of the node start; end positions and the diagnostic renderer are not covered. About one generated program in four ends in an error (221 in a quick run).",
   technique="TLA+ definitional machine run by TLC; predicted error node and frame list replayed on the code under random layout", ref="DESIGN.md 6 C18"),
 "C10": dict(engine="Machine",
   text="Machine.tla's next-state relation is a function: TLC reports maximum out-degree 1 over all generated programs, so the specification allows exactly one transcript per program, which is also compared with the real one. Every program (the Machine family plus a seeded family that prints, enumerates and compares maps, closures, errors carrying maps, nested containers, JSON documents, schema errors, gensyms through the standard library) is run repeatedly in fresh runtimes in one process at shuffled positions of the input stream (unrelated activity before it) and in separate processes; value, stderr, error message and data, location, stack and step count must be byte-identical.",
   note="Nondeterminism with probability far below 1/(runs per program) is not excluded (7 runs quick, 13 thorough). Time- and host-dependent builtins are not generated, as the property excludes them.",
   technique="TLA+ (TLC out-degree of the definitional machine) + repeated-run / multi-process comparison of real transcripts", ref="DESIGN.md 6 C10"),
}

NA_REASON = "check under construction (see DESIGN.md section 6); not yet claimed"


def main():
    commits = subprocess.run(["git", "-C", "/repo", "log", "--format=%h %s"], capture_output=True, text=True).stdout.splitlines()
    hooks = [c.split()[0] for c in commits if len(c.split()) > 1 and c.split()[1].startswith("verif:")]
    m = {"version": 1,
         "setup_cmd": "python3 gen/setup.py",
         "hooks": {"guard": "verif",
                   "enable": "go build -tags verif (every check builds harness/cmd/elpsdrive with -tags verif against /repo's working tree)",
                   "baseline_off_cmd": "cd /repo && GOFLAGS=-mod=mod go test -vet=off -count=1 -timeout 25m ./...",
                   "source_commits": hooks, "add_only": True},
         "engines": [
             {"name": "Kernel", "path": "specs/Kernel.tla", "serves_properties": ["C02", "C04", "C05", "C06"], "kind_free_text": "TLA+ spec of the evaluator's control skeleton with an abstract program; exhaustive TLC"},
             {"name": "KernelTrace", "path": "specs/KernelTrace.tla", "serves_properties": ["C02", "C03", "C04", "C05", "C06"], "kind_free_text": "TLA+ trace specification validating hook traces recorded from the real interpreter (binding B2)"},
             {"name": "Machine", "path": "specs/Machine.tla", "serves_properties": ["C01", "C02", "C04", "C05", "C06", "C07", "C08", "C10", "C18"], "kind_free_text": "TLA+ definitional small-step machine for core ELPS; TLC computes transcripts that are replayed on the real interpreter (binding B1)"}],
         "checks": [], "not_applicable": []}
    for p in PROPS:
        if p in CHECKS:
            c = CHECKS[p]
            m["checks"].append({"property_id": p, "quick_cmd": "python3 gen/check.py %s quick" % p, "thorough_cmd": "python3 gen/check.py %s thorough" % p,
                                "evidence_file": "evidence/%s.json" % p, "replay_cmd_template": "python3 gen/replay.py {path}", "engine": c["engine"],
                                "level_claimed": {"category": c.get("level", MC), "text": c["text"], "design_ref": c["ref"]},
                                "level_note": c["note"], "technique": c["technique"]})
        else:
            m["not_applicable"].append({"property_id": p, "reason": NA_REASON})
    json.dump(m, open(os.path.join(ROOT, "MANIFEST.json"), "w"), indent=1)
    print("checks:", [c["property_id"] for c in m["checks"]])


main()
