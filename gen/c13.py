"""C13  JSON encoding and decoding are faithful, canonical and mutually consistent.

JsonDoc.tla is a character-level specification of the RFC 8259 grammar (Parse: acceptance + decoded structure with
numbers kept as literals and classified, strings as code points after escape processing) and of the canonical writer
(Encode: key order, escapes, integer and float rendering rules).
  docs   : TLC enumerates every document over three alphabets (structure, numbers, string bodies) up to a bound and
           prints Parse's verdict; each document is given to the real json:load-string / load-bytes under the four
           option combinations and to Python's json module (the independent decoder); acceptance, decoded structure,
           number handling per option and condition names are compared (B1).
  values : a bounded value domain (leaves x containers) is given to TLC, which prints Encode's text for each value and
           checks inside the model that Parse reads it back to the same value (RoundTripInv); the real json:dump-*
           must produce exactly that text, twice, Python must read it back to the same data, and the real load of the
           real dump must return an equal value under every option combination.
Leaf fidelity beyond the model (every float64 / int64, arbitrary strings) is sampled with Python's repr / json as the
oracle for shortest digits; the spec turns digits into text.
"""
import base64, json, math, random, struct, concurrent.futures, subprocess, itertools
from decimal import Decimal
from vlib import *

BYTES = {"{": b"{", "}": b"}", "[": b"[", "]": b"]", ":": b":", ",": b",", " ": b" ", "\"": b"\"", "\\": b"\\", "/": b"/",
         "-": b"-", "+": b"+", ".": b".", "ctl": b"\x01", "hi": "é".encode(), "bad": b"\xff", "ls": " ".encode(),
         "nl": b"\n", "tab": b"\t", "cr": b"\r", "del": b"\x7f", "emoji": "\U0001F600".encode(), "fffd": "�".encode(),
         "<": b"<", ">": b">", "&": b"&",
         # characters that Unicode calls white space and JSON does not
         "ff": b"\x0c", "vt": b"\x0b", "nbsp": "\u00a0".encode(), "nel": "\u0085".encode(), "ideo": "\u3000".encode(), "bom": "\ufeff".encode()}
for c in "0123456789abcdefABCDEFilnrstu":
    BYTES[c] = c.encode()
CHUNKS = {"e20": "1" + "0" * 20, "e21": "1" + "0" * 21, "true": "true", "false": "false", "null": "null", "big": "922337203685477580", "str": "\"a\"", "u0041": "u0041", "u000a": "u000a",
          "ud83d": "ud83d", "ude00": "ude00", "q": "\"", "bs": "\\", "sp": " "}


def chunk_bytes(ch):
    if ch in CHUNKS:
        return CHUNKS[ch].encode()
    return BYTES[ch]


def chars_bytes(cs):
    return b"".join(BYTES[c] for c in cs)


def cps_bytes(cps):
    return "".join(chr(c) for c in cps).encode("utf-8", "surrogatepass")


def b64(b):
    return base64.b64encode(b).decode()


# ---------------------------------------------------------------------------------------------------- number oracle
def shortest(f):
    """(neg, digits, p): f = 0.d1..dn * 10^p with the shortest round-trip digits (Python's repr is the oracle)"""
    neg = math.copysign(1, f) < 0
    a = abs(f)
    if a == 0:
        return neg, [0], 0
    d = Decimal(repr(a))
    sign, digits, exp = d.as_tuple()
    digits = list(digits)
    while len(digits) > 1 and digits[-1] == 0:
        digits.pop()
        exp += 1
    return neg, digits, len(digits) + exp


def canon_float(f):
    """libjson's rendering of a float (independent of the spec: used only for the :exact-integers exception)"""
    neg, ds, p = shortest(f)
    s = "-" if neg else ""
    n = len(ds)
    dd = "".join(map(str, ds))
    if ds == [0]:
        return s + "0"
    if -5 <= p <= 21:
        if p <= 0:
            return s + "0." + "0" * (-p) + dd
        if p < n:
            return s + dd[:p] + "." + dd[p:]
        return s + dd + "0" * (p - n)
    e = p - 1
    return s + dd[0] + ("." + dd[1:] if n > 1 else "") + "e" + ("-%d" % -e if e < 0 else "+%d" % e)


def fbits(f):
    return "%016x" % struct.unpack(">Q", struct.pack(">d", f))[0]


class Fail(Exception):
    def __init__(self, cond):
        self.cond = cond


def expect_num(lit, isint, fits, mode):
    """the lisp value a JSON number literal loads to under a mode ('dd','sd','de','se')"""
    if mode[0] == "s":
        return {"t": "str", "b64": b64(lit.encode())}
    if mode[1] == "e" and isint:
        if fits:
            return {"t": "int", "n": str(int(lit))}
        f = float(lit)
        if not math.isinf(f) and canon_float(f) == lit:
            return {"t": "float", "bits": fbits(f)}
        raise Fail("json:integer-range-error")
    f = float(lit)
    if math.isinf(f):
        raise Fail("error")
    return {"t": "float", "bits": fbits(f)}


def expect_tree(v, mode):
    """spec value -> the tree the real load must return; raises Fail(cond) for the first failing leaf in load order"""
    t = v["t"]
    if t == "null":
        return {"t": "nil"}
    if t in ("true", "false"):
        return {"t": "sym", "s": t}
    if t == "num":
        return expect_num("".join(v["lit"]), v["int"], v["fits"], mode)
    if t == "str":
        return {"t": "str", "b64": b64(cps_bytes(v["s"]))}
    if t == "arr":
        return {"t": "arr", "c": [expect_tree(x, mode) for x in v["c"]]}
    if t == "obj":
        last = {}
        for k, x in zip(v["k"], v["c"]):
            last[cps_bytes(k)] = x
        ks = sorted(last)
        return {"t": "map", "k": [{"t": "str", "b64": b64(k)} for k in ks], "c": [expect_tree(last[k], mode) for k in ks]}
    raise ValueError(t)


def strip(tree):
    """real tree -> comparable (drop the float's shortest rendering)"""
    if isinstance(tree, dict):
        return {k: strip(v) for k, v in tree.items() if k != "r"}
    if isinstance(tree, list):
        return [strip(x) for x in tree]
    return tree


def py_value(doc):
    """Python's json as the independent decoder: (accepted, structure in the specification's shape)"""
    try:
        text = doc.decode("utf-8")
    except UnicodeDecodeError:
        return None, None

    def bad(_):
        raise ValueError("constant")
    try:
        v = json.loads(text, parse_float=lambda s: ("num", s), parse_int=lambda s: ("num", s), parse_constant=bad, object_pairs_hook=lambda ps: ("obj", ps))
    except (ValueError, RecursionError):
        return False, None

    def conv(x):
        if x is None:
            return {"t": "null"}
        if x is True:
            return {"t": "true"}
        if x is False:
            return {"t": "false"}
        if isinstance(x, tuple) and x[0] == "num":
            return {"t": "num", "lit": x[1]}
        if isinstance(x, tuple) and x[0] == "obj":
            return {"t": "obj", "k": [cps(k) for k, _ in x[1]], "c": [conv(y) for _, y in x[1]]}
        if isinstance(x, str):
            return {"t": "str", "s": cps(x)}
        if isinstance(x, list):
            return {"t": "arr", "c": [conv(y) for y in x]}
        raise ValueError(x)

    def cps(s):
        return [65533 if 0xD800 <= ord(c) <= 0xDFFF else ord(c) for c in s]
    return True, conv(v)


def spec_shape(v):
    """the specification's value without the classification fields (what Python's decoder can also say)"""
    t = v["t"]
    if t == "num":
        return {"t": "num", "lit": "".join(v["lit"])}
    if t == "str":
        return {"t": "str", "s": list(v["s"])}
    if t == "arr":
        return {"t": "arr", "c": [spec_shape(x) for x in v["c"]]}
    if t == "obj":
        return {"t": "obj", "k": [list(k) for k in v["k"]], "c": [spec_shape(x) for x in v["c"]]}
    return {"t": t}


# ---------------------------------------------------------------------------------------------------- value domain
STR_CPS = [[], [97], [34], [92], [10], [1], [60], [38], [127], [233], [8232], [128512], [65533], [-1], [47], [9, 62], [97, -1, 98], [31, 32]]
KEYS = [[97], [98], [], [34, 233], [65], [57], [49, 48], [49, 97]]          # a b "" "\"é" A 9 10 1a


def val_str(cps):
    return {"t": "str", "s": cps}


def val_int(n):
    return {"t": "int", "neg": n < 0, "ds": [int(c) for c in str(abs(n))]}


def val_float(f):
    neg, ds, p = shortest(f)
    return {"t": "float", "neg": neg, "ds": ds, "p": p, "bits": fbits(f)}


def domain(rnd, thorough):
    ints = [0, 1, -1, 7, 10, 2**53, 2**53 + 1, 2**63 - 1, -2**63, 922337203685477580, -42]
    floats = [0.0, -0.0, 1.5, -2.5, 0.1, 100.0, 123456.789, 1e20, 1e21, 9.999999999999999e20, 1e22, 1e-6, 9.99e-7, 1e-7, 1.5e-10, 1.7976931348623157e308,
              5e-324, 2.2250738585072014e-308, 1e-5, 0.000123, 12345678901234567890.0, 2.0**63, 2.0**64, 1e19, 3.0e-9, 1.25e-100, 4.5e100, 0.30000000000000004]
    if thorough:
        for _ in range(400):
            floats.append(struct.unpack(">d", struct.pack(">Q", rnd.getrandbits(64)))[0])
            floats.append(rnd.choice([1, -1]) * rnd.random() * 10 ** rnd.randint(-30, 30))
            ints.append(rnd.randint(-2**63, 2**63 - 1))
        floats = [f for f in floats if not (math.isnan(f) or math.isinf(f))]
    leaves = [{"t": "null"}, {"t": "true"}, {"t": "false"}] + [val_int(n) for n in ints] + [val_float(f) for f in floats] + [val_str(s) for s in STR_CPS]
    small = [{"t": "null"}, {"t": "true"}, val_int(7), val_float(1.5), val_str([97]), val_str([34, -1]), val_int(2**63 - 1), val_float(1e21)]
    vals = list(leaves)
    lvl1 = []
    for kind in ("arr", "list"):
        lvl1.append({"t": kind, "c": []})
        for a in small:
            lvl1.append({"t": kind, "c": [a]})
            for b in small[:4]:
                lvl1.append({"t": kind, "c": [a, b]})
    lvl1.append({"t": "obj", "k": [], "c": []})
    for k in KEYS:
        for a in small:
            lvl1.append({"t": "obj", "k": [k], "c": [a]})
    for k1, k2 in itertools.combinations(KEYS, 2):
        for a in small[:3]:
            lvl1.append({"t": "obj", "k": [k1, k2], "c": [a, small[3]]})
    # keys given as SYMBOLS (true and false among them): a key is written as a string whatever its spelling
    for names in (["true"], ["false", "true"], ["a", "true"], ["nil"], ["null"]):
        lvl1.append({"t": "obj", "k": [[ord(c) for c in n] for n in names], "ksym": [True] * len(names), "c": [small[i % len(small)] for i in range(len(names))]})
    vals += lvl1
    pick = lvl1 if thorough else rnd.sample(lvl1[:-5], 60) + lvl1[-5:]
    for x in pick:
        vals.append({"t": "arr", "c": [x]})
        vals.append({"t": "obj", "k": [[97]], "c": [x]})
        vals.append({"t": "arr", "c": [x, {"t": "obj", "k": [[98]], "c": [x]}]})
    return vals


def sort_keys(v):
    """the domain lists object members in key (byte) order, as a sorted-map holds them"""
    if v["t"] in ("arr", "list"):
        return dict(v, c=[sort_keys(x) for x in v["c"]])
    if v["t"] == "obj":
        ks = v.get("ksym") or [False] * len(v["k"])
        trip = sorted(zip(v["k"], v["c"], ks), key=lambda kv: cps_valid_bytes(kv[0]))
        return dict(v, k=[k for k, _, _ in trip], c=[sort_keys(x) for _, x, _ in trip], ksym=[y for _, _, y in trip])
    return v


def cps_valid_bytes(cps):
    return b"".join(b"\xff" if c == -1 else chr(c).encode() for c in cps)


def to_spec(v):
    """domain value -> the record JsonDoc.tla reads (lists are arrays to the writer)"""
    t = v["t"]
    if t == "list" and not v["c"]:
        return {"t": "null"}            # the empty list IS nil
    if t in ("arr", "list"):
        return {"t": "arr", "c": [to_spec(x) for x in v["c"]]}
    if t == "obj":
        return {"t": "obj", "k": v["k"], "c": [to_spec(x) for x in v["c"]]}
    if t == "float":
        return {"t": "float", "neg": v["neg"], "ds": v["ds"], "p": v["p"]}
    return v


def to_driver(v):
    t = v["t"]
    if t in ("null", "true", "false"):
        return {"t": t}
    if t == "int":
        return {"t": "int", "n": ("-" if v["neg"] else "") + "".join(map(str, v["ds"]))}
    if t == "float":
        return {"t": "float", "bits": v["bits"]}
    if t == "str":
        return {"t": "str", "b64": b64(cps_valid_bytes(v["s"]))}
    if t in ("arr", "list"):
        return {"t": t, "c": [to_driver(x) for x in v["c"]]}
    ks = v.get("ksym") or [False] * len(v["k"])
    return {"t": "obj", "k": [{"t": "sym" if y else "str", "b64": b64(cps_valid_bytes(k))} for k, y in zip(v["k"], ks)], "c": [to_driver(x) for x in v["c"]]}


def py_data(v):
    """the data an independent reader must get back"""
    t = v["t"]
    if t == "null":
        return None
    if t in ("true", "false"):
        return t == "true"
    if t == "int":
        return int(("-" if v["neg"] else "") + "".join(map(str, v["ds"])))
    if t == "float":
        return struct.unpack(">d", bytes.fromhex(v["bits"]))[0]
    if t == "str":
        return "".join("�" if c == -1 else chr(c) for c in v["s"])
    if t == "list" and not v["c"]:
        return None
    if t in ("arr", "list"):
        return [py_data(x) for x in v["c"]]
    return {"".join("�" if c == -1 else chr(c) for c in k): py_data(x) for k, x in zip(v["k"], v["c"])}


def same_data(got, want):
    """what an independent reader got against the data written: a float is compared as the float64 its text denotes
    (an integral float is written without a fraction), sign of zero included"""
    if isinstance(want, float):
        if isinstance(got, bool) or not isinstance(got, (int, float)):
            return False
        if isinstance(got, int):          # written without a fraction: Python reads an int, which has no signed zero
            return float(got) == want
        return got == want and math.copysign(1, got) == math.copysign(1, want)
    if isinstance(want, bool) or want is None or isinstance(want, (int, str)):
        return type(got) is type(want) and got == want
    if isinstance(want, list):
        return isinstance(got, list) and len(got) == len(want) and all(same_data(a, b) for a, b in zip(got, want))
    return isinstance(got, dict) and set(got) == set(want) and all(same_data(got[k], want[k]) for k in want)


def back_tree(v, mode):
    """what loading the dump of v must return under a mode (writer and reader share :string-numbers)"""
    t = v["t"]
    if t == "null":
        return {"t": "nil"}
    if t in ("true", "false"):
        return {"t": "sym", "s": t}
    if t == "int":
        lit = ("-" if v["neg"] else "") + "".join(map(str, v["ds"]))
        return expect_num(lit, True, True, mode)
    if t == "float":
        f = struct.unpack(">d", bytes.fromhex(v["bits"]))[0]
        lit = canon_float(f)
        isint = not any(c in lit for c in ".eE") and lit != "-0"
        fits = isint and -2**63 <= int(lit) <= 2**63 - 1
        return expect_num(lit, isint, fits, mode)
    if t == "str":
        return {"t": "str", "b64": b64("".join("�" if c == -1 else chr(c) for c in v["s"]).encode())}
    if t == "list" and not v["c"]:
        return {"t": "nil"}
    if t in ("arr", "list"):
        return {"t": "arr", "c": [back_tree(x, mode) for x in v["c"]]}
    last = {}
    for k, x in zip(v["k"], v["c"]):
        last["".join("�" if c == -1 else chr(c) for c in k).encode()] = x
    ks = sorted(last)
    return {"t": "map", "k": [{"t": "str", "b64": b64(k)} for k in ks], "c": [back_tree(last[k], mode) for k in ks]}


def run(tier):
    V = Verdict("C13", tier)
    work = Work("C13")
    try:
        return _run(V, work, tier)
    finally:
        work.close()


def driver_sharded(binary, cmd, records, shards=12):
    chunks = [records[i::shards] for i in range(shards)]
    with concurrent.futures.ThreadPoolExecutor(max_workers=shards) as ex:
        outs = list(ex.map(lambda ch: driver_json(binary, [cmd], ch, timeout=3300) if ch else [], chunks))
    res = {}
    for o in outs:
        for r in o:
            res[r["id"]] = r
    return res


MODES = ["dd", "sd", "de", "se"]


def _run(V, work, tier):
    thorough = tier == "thorough"
    rnd = random.Random(seed())
    binary = build_driver()
    # ---- documents --------------------------------------------------------------------------------------------------
    families = [("structure", ["{", "}", "[", "]", ":", ",", "sp", "str", "1", "true", "null"], 6 if thorough else 5, ""),
                ("numbers", ["-", "0", "1", "9", ".", "e", "E", "+", "big", "sp"], 6 if thorough else 5, ""),
                # integers around 10^20 / 10^21, where the float's canonical text changes from positional to exponent form
                ("wide-integers", ["-", "0", "1", "e20", "e21", "big", ".", "e"], 4 if thorough else 3, ""),
                # white space: the four characters JSON allows between tokens, and the ones only Unicode calls white space
                # (form feed, vertical tab, NBSP, NEL, U+2028, U+3000, a byte order mark), around and inside the smallest documents
                ("whitespace", ["sp", "tab", "nl", "cr", "ff", "vt", "nbsp", "nel", "ls", "ideo", "bom", "null", "[", "]", "{", "}", "1", "str", ","], 4 if thorough else 3, ""),
                ("strings", ["q", "bs", "a", "u", "n", "/", "0", "ctl", "hi", "bad", "u0041", "ud83d", "ude00", "ls", "nl", "b"], 5 if thorough else 4, "string")]
    if thorough:
        families.append(("numbers-in-array", ["-", "0", "1", "9", ".", "e", "+", "big", ","], 5, "array"))
    ndocs = 0
    accepted = 0
    for fname, alpha, maxlen, wrap in families:
        docs = []

        def sink(rec, docs=docs):
            docs.append(rec)
        cfg = "SPECIFICATION Spec\nCONSTANTS MODE = \"docs\"\n MAXLEN = %d\n WRAP = \"%s\"\n ALPHA = {%s}\nCHECK_DEADLOCK FALSE\n" % (maxlen, wrap, ", ".join('"%s"' % a for a in alpha))
        res = run_tlc(work, "JsonDoc", cfg, timeout=3300, line_sink=sink)
        V.tlc(res, "JsonDoc docs/%s: %d documents (alphabet %d, length <= %d)" % (fname, len(docs), len(alpha), maxlen))
        want = sum(len(alpha) ** k for k in range(maxlen + 1))
        if len(docs) != want:
            raise MachineryError("JsonDoc enumerated %d of %d documents (%s)" % (len(docs), want, fname))
        recs = []
        for i, d in enumerate(docs):
            body = b"".join(chunk_bytes(c) for c in d["doc"])
            d["bytes"] = {"string": b"\"" + body + b"\"", "array": b"[" + body + b"]", "": body}[wrap]
            recs.append({"id": i, "doc_b64": b64(d["bytes"])})
        real = driver_sharded(binary, "jsonx", recs)
        for i, d in enumerate(docs):
            ndocs += 1
            r = real[i]["loads"]
            doc = d["bytes"]
            show = doc.decode("utf-8", "backslashreplace")
            acc = d["accept"]
            accepted += acc
            # the independent decoder
            pacc, pval = py_value(doc)
            if pacc is not None:
                if pacc != acc:
                    raise MachineryError("JsonDoc.tla and Python's json disagree on acceptance of %r (spec %s)" % (doc, acc))
                if acc and pval != spec_shape(d["val"]):
                    raise MachineryError("JsonDoc.tla and Python's json disagree on the structure of %r: %r vs %r" % (doc, spec_shape(d["val"]), pval))
            for m in MODES:
                rm = r[m]
                if rm.get("again_same") is False:
                    V.add(None, "json:load-string gives two different answers for %r when asked twice in a row (%s)" % (show, m), {"doc": show, "mode": m, "result": rm})
                if not rm["bytes_same"]:
                    V.add(None, "load-string and load-bytes disagree on %r (%s)" % (show, m), {"doc": show, "mode": m, "result": rm})
                if rm.get("panic"):
                    V.add(None, "json:load-string %r answered internal-panic" % show, {"doc": show, "mode": m, "result": rm})
                if not acc:
                    if rm["ok"]:
                        V.add(None, "invalid JSON %r is accepted (%s)" % (show, m), {"doc": show, "mode": m, "result": rm})
                    elif m in ("dd", "de") and rm["cond"] != "json:syntax-error":
                        V.add(None, "invalid JSON %r is rejected with %s instead of json:syntax-error (%s)" % (show, rm["cond"], m), {"doc": show, "mode": m, "result": rm})
                    continue
                try:
                    want_tree, want_cond = expect_tree(d["val"], m), None
                except Fail as f:
                    want_tree, want_cond = None, f.cond
                if want_cond:
                    if rm["ok"] or (want_cond != "error" and rm["cond"] != want_cond) or rm["cond"] == "json:syntax-error":
                        V.add(None, "%r (%s): expected condition %s, got %s" % (show, m, want_cond, rm.get("cond") or "a value"), {"doc": show, "mode": m, "result": rm})
                elif not rm["ok"]:
                    V.add(None, "valid JSON %r is rejected (%s): %s" % (show, m, rm.get("msg", "")[:120]), {"doc": show, "mode": m, "result": rm})
                elif strip(rm["v"]) != want_tree:
                    V.add(None, "%r (%s) loads to a different value than the specification's" % (show, m), {"doc": show, "mode": m, "real": strip(rm["v"]), "spec": want_tree})
        V.sample({"family": fname, "doc": docs[len(docs) // 2]["bytes"].decode("utf-8", "backslashreplace"), "accept": docs[len(docs) // 2]["accept"]})
    # ---- the trailing-content rule at EVERY document length (JsonDoc.Parse accepts a text only if nothing but white space
    # follows the value; TLC cannot unfold Parse over kilobytes, so the rule is applied by its statement here and Python's
    # json is asked as well): a valid array / object / string of total length L, L = 2..8300, followed by one more closing
    # bracket, a second document, a stray character - rejected in every mode, as json:syntax-error in the default and
    # :exact-integers modes; the same document without the tail - accepted
    sweep = []
    for L in (range(2, 8300) if thorough else sorted(set(list(range(2, 1100)) + list(range(1500, 1570)) + list(range(2030, 2070)) + list(range(3560, 3600)) + list(range(4080, 4120)) + list(range(7660, 7700)) + list(range(8180, 8210)) + rnd.sample(range(1100, 8300), 250)))):
        kind = L % 3
        body = (b'["' + b"a" * max(0, L - 4) + b'"]') if kind == 0 and L >= 4 else (b'{"k":' + b" " * max(0, L - 8) + b"1" + b"}") if kind == 1 and L >= 8 else (b"[" + b" " * max(0, L - 2) + b"]")
        tail = [b"]", b"}", b" x", b"[1]", b" 1", b"\n{}"][L % 6]
        sweep.append({"id": "ok%d" % L, "doc_b64": b64(body), "want": True, "doc": body})
        sweep.append({"id": "tail%d" % L, "doc_b64": b64(body + tail), "want": False, "doc": body + tail})
    sw = driver_sharded(binary, "jsonx", [{"id": x["id"], "doc_b64": x["doc_b64"]} for x in sweep])
    for x in sweep:
        pacc, _ = py_value(x["doc"])
        if pacc is not None and pacc != x["want"]:
            raise MachineryError("the independent decoder disagrees with the trailing-content rule on a %d-byte document" % len(x["doc"]))
        for m in MODES:
            rm = sw[x["id"]]["loads"][m]
            show = "%d bytes: %s...%s" % (len(x["doc"]), x["doc"][:12].decode(), x["doc"][-10:].decode())
            if rm["ok"] != x["want"]:
                V.add(None, "%s JSON is %s (%s): %s" % ("valid" if x["want"] else "invalid (content after the document)", "accepted" if rm["ok"] else "rejected", m, show), {"doc_len": len(x["doc"]), "mode": m, "tail": x["doc"][-10:].decode()})
            elif not x["want"] and m in ("dd", "de") and rm["cond"] != "json:syntax-error":
                V.add(None, "content after the document is rejected with %s instead of json:syntax-error (%s): %s" % (rm["cond"], m, show), {"doc_len": len(x["doc"]), "mode": m})
    V.coverage["trailing_content_sweep"] = len(sweep)
    V.coverage["documents"] = ndocs
    V.coverage["documents_accepted"] = accepted
    if accepted < 200:
        raise MachineryError("only %d accepted documents: the enumeration is not reaching valid JSON" % accepted)
    # ---- values -----------------------------------------------------------------------------------------------------
    vals = [sort_keys(v) for v in domain(rnd, thorough)]
    text = "".join(json.dumps(dict(to_spec(v), id=i), separators=(",", ":")) + "\n" for i, v in enumerate(vals))
    enc = {}

    def vsink(rec):
        enc[rec["id"]] = rec
    cfg = "SPECIFICATION Spec\nCONSTANTS MODE = \"values\"\n MAXLEN = 0\n WRAP = \"\"\n ALPHA = {}\nINVARIANT RoundTripInv\nCHECK_DEADLOCK FALSE\n"
    res = run_tlc(work, "JsonDoc", cfg, files={"jsonvals.ndjson": text}, timeout=3300, line_sink=vsink)
    V.tlc(res, "JsonDoc values: Encode printed and RoundTripInv checked for %d values" % len(vals))
    if res.violated:
        raise MachineryError("JsonDoc.tla: RoundTripInv fails inside the model: %s" % res.raw[-600:])
    if len(enc) != len(vals):
        raise MachineryError("JsonDoc.tla encoded %d of %d values" % (len(enc), len(vals)))
    real = driver_sharded(binary, "jsonx", [{"id": i, "value": to_driver(v)} for i, v in enumerate(vals)], shards=8)
    for i, v in enumerate(vals):
        r = real[i]
        for key, field in (("n", "text"), ("s", "textsn")):
            want = chars_bytes(enc[i][field])
            d = r["dump"][key]
            show = want.decode("utf-8", "backslashreplace")
            if not d["ok"]:
                V.add(None, "json:dump-string refuses a JSON-representable value (expected %s): %s" % (show[:80], d.get("msg", "")[:100]), {"value": v, "result": d})
                continue
            got = base64.b64decode(d["b64"])
            if got != want:
                V.add(None, "json:dump-string writes %r where the canonical text is %r" % (got.decode("utf-8", "backslashreplace")[:100], show[:100]), {"value": v, "string_numbers": key == "s"})
            if not d["bytes_same"]:
                V.add(None, "dump-string and dump-bytes disagree on %s" % show[:80], {"value": v})
            if not d["again_same"]:
                V.add(None, "dumping the same value twice gives different text: %s" % show[:80], {"value": v})
            if key == "n":
                try:
                    back = json.loads(got.decode("utf-8"))
                except ValueError as e:
                    V.add(None, "an independent JSON reader rejects the dump %r: %s" % (got[:80], e), {"value": v})
                    continue
                if not same_data(back, py_data(v)):
                    V.add(None, "an independent JSON reader gets different data back from %r" % got[:80], {"value": v, "read": repr(back)[:200], "want": repr(py_data(v))[:200]})
        for m in MODES:
            try:
                want_tree = back_tree(v, m)
            except Fail as f:
                V.add(None, "model: the dump of a value cannot be loaded back (%s)" % f.cond, {"value": v, "mode": m})
                continue
            b = r["back"][m]
            if not b["ok"]:
                V.add(None, "json:load-string rejects what json:dump-string wrote (%s): %s" % (m, b.get("msg", "")[:120]), {"value": v, "mode": m, "dump": r["dump"]})
            elif strip(b["v"]) != want_tree:
                V.add(None, "load(dump(v)) differs from v (%s)" % m, {"value": v, "mode": m, "real": strip(b["v"]), "want": want_tree})
        # equal? as the interpreter itself judges it: exact mode, values without lists (a list comes back as an array)
        # and without invalid bytes (they come back as U+FFFD)
        flat = json.dumps(v)
        if "\"list\"" not in flat and "-1" not in json.dumps([x for x in _strings(v)]) and not r["equal"]["de"]:
            V.add(None, "(equal? v (json:load-string (json:dump-string v) :exact-integers true)) is false", {"value": v, "back": r["back"]["de"]})
    # ---- deep nesting around a leaf (arrays, objects, alternating): the writer changes strategy for deep values and every
    # option must survive that.  (The recursion of JsonDoc.tla's Encode / Parse is more than TLC's stack takes beyond
    # ~30 levels, so the expected text is assembled here from the specification's text of the LEAF and the brackets.)
    leaf_idx = {}
    for want in (val_int(7), val_float(2.5), val_str([97]), val_int(2**63 - 1)):
        for i, v in enumerate(vals):
            if v == want:
                leaf_idx[json.dumps(want, sort_keys=True)] = i
                break
    deep = []
    for d in ((3, 61, 62, 63, 64, 65, 80, 130) if not thorough else tuple(range(55, 75)) + (3, 80, 100, 130, 160, 190)):
        for lk, li in leaf_idx.items():
            for style in ("arr", "obj", "mix"):
                v = vals[li]
                pre, post = b"", b""
                for j in range(d):
                    if style == "arr" or (style == "mix" and j % 2 == 0):
                        v = {"t": "arr", "c": [v]}
                        pre, post = b"[" + pre, post + b"]"
                    else:
                        v = {"t": "obj", "k": [[97]], "c": [v]}
                        pre, post = b'{"a":' + pre, post + b"}"
                deep.append({"v": v, "li": li, "pre": pre, "post": post, "d": d, "style": style})
    dreal = driver_sharded(binary, "jsonx", [{"id": i, "value": to_driver(x["v"])} for i, x in enumerate(deep)], shards=8)
    for i, x in enumerate(deep):
        r = dreal[i]
        for key, field in (("n", "text"), ("s", "textsn")):
            want = x["pre"] + chars_bytes(enc[x["li"]][field]) + x["post"]
            dd = r["dump"][key]
            tag = "%d containers (%s) around %s" % (x["d"], x["style"], chars_bytes(enc[x["li"]]["text"]).decode())
            if not dd["ok"]:
                V.add(None, "json:dump-string refuses a deeply nested value: %s: %s" % (tag, dd.get("msg", "")[:100]), {"depth": x["d"], "style": x["style"], "string_numbers": key == "s"})
                continue
            got = base64.b64decode(dd["b64"])
            if got != want:
                V.add(None, "json:dump-string (string-numbers %s) of %s writes ...%r where the canonical text ends ...%r" % (key == "s", tag, got[len(x["pre"]) - 3:len(got) - len(x["post"]) + 3][:60], want[len(x["pre"]) - 3:len(want) - len(x["post"]) + 3][:60]),
                      {"depth": x["d"], "style": x["style"], "string_numbers": key == "s", "leaf": chars_bytes(enc[x["li"]]["text"]).decode()})
            if not dd["bytes_same"] or not dd["again_same"]:
                V.add(None, "dump-string / dump-bytes / a second dump disagree on %s" % tag, {"depth": x["d"], "style": x["style"]})
    V.coverage["deep_values"] = len(deep)
    V.coverage["values"] = len(vals)
    V.coverage["traces_validated_against_impl"] = ndocs + len(vals)
    V.coverage["exhaustive"] = True
    V.coverage["explanation"] = ("every document over the three alphabets up to the length bound (%d documents, %d accepted) under 4 option combinations x 2 entry points; "
                               "%d values written, read back by Python and by load under 4 combinations" % (ndocs, accepted, len(vals)))
    V.assumptions.append("invalid UTF-8 in a document is read as U+FFFD (encoding/json's rule); Python's json cannot take such bytes, so the independent-decoder comparison skips those documents")
    V.assumptions.append(":exact-integers accepts an out-of-range integer literal exactly when it is the canonical rendering of the float it parses to (the documented dump/load closure rule), otherwise json:integer-range-error")
    return V.finish()


def _strings(v):
    if v["t"] == "str":
        yield v["s"]
    elif v["t"] in ("arr", "list"):
        for x in v["c"]:
            yield from _strings(x)
    elif v["t"] == "obj":
        for k in v["k"]:
            yield k
        for x in v["c"]:
            yield from _strings(x)
