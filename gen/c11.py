"""C11  Sharing, copying and mutation discipline of containers.

Heap.tla transcribes the container builtins (backing arrays, windows with offset/length/capacity/sealed, maps
keyed by name).  TLC checks exhaustively, for every history of 2 operations from 24 over the initial heap
(a sealed program literal, a vector, a list, a sorted map): NonMut (non-mutating operations leave the
rendering of every pre-existing variable unchanged), ProgramFrozen, NoLaunder, WellFormed, NoSpareOnViews.
Histories of 5-6 operations are sampled by TLC simulation; each carries the rendering of EVERY variable after
EVERY step, and is replayed on the real interpreter where every variable is re-printed after every step and
compared (binding B1).
"""
import random, json
from vlib import *
import mach

CFG = """SPECIFICATION Spec
CONSTANTS MAXOPS = %d
 MAXOBJ = %d
 EMIT = %s
INVARIANTS ProgramFrozen NoLaunder WellFormed NoSpareOnViews
%s
CHECK_DEADLOCK FALSE
"""
KEYS = ["a", "b", "c"]
PRELUDE = "(set 'g1 '(3 1 2)) (set 'g2 (vector 5 4 6 2)) (set 'g3 (list 7 9 8)) (set 'g4 (sorted-map \"b\" 1 \"a\" 2))"


def arg(a):
    return "g%d" % a["n"] if a["t"] == "g" else str(a["n"])


def expr(op):
    k = "'list" if op["kind"] == "list" else "'vector"
    x, y = "g%d" % op["x"], "g%d" % op["y"]
    key = ("'" + op["k"]) if op["sym"] else ('"%s"' % op["k"])
    n = op["op"]
    if n == "new":
        return "(%s %s)" % ("list" if op["kind"] == "list" else "vector", " ".join(str(i) for i in op["ints"]))
    if n == "hold":
        return "(%s %s %s)" % ("list" if op["kind"] == "list" else "vector", x, y)
    if n == "slice":
        return "(slice %s %s %d %d)" % (k, x, op["i"], op["j"])
    if n in ("cdr", "rest"):
        return "(%s %s)" % (n, x)
    if n == "append":
        return "(append %s %s %s)" % (k, x, " ".join(arg(a) for a in op["ints"]))
    if n == "concat":
        return "(concat %s %s %s)" % (k, x, y)
    if n == "cons":
        return "(cons %s %s)" % (arg(op["ints"][0]), x)
    if n == "reverse":
        return "(reverse %s %s)" % (k, x)
    if n == "insert-index":
        return "(insert-index %s %s %d %s)" % (k, x, op["i"], arg(op["ints"][0]))
    if n == "applysort":
        return "(apply (lambda (%s&rest xs) (stable-sort < xs)) %s)" % ("a " if op["i"] == 1 else "", x)
    if n == "zip":
        return "(zip %s %s %s)" % (k, x, y)
    if n == "insert-sorted":
        return "(insert-sorted %s %s < %s)" % (k, x, arg(op["ints"][0]))
    if n == "map":
        return "(map %s identity %s)" % (k, x)
    if n in ("select", "reject"):
        return "(%s %s (lambda (e) true) %s)" % (n, k, x)
    if n == "append!":
        return "(append! %s %s)" % (x, " ".join(arg(a) for a in op["ints"]))
    if n == "sort":
        return "(stable-sort < %s)" % x
    if n in ("assoc", "assoc!"):
        return "(%s %s %s %s)" % (n, x, key, arg(op["ints"][0]))
    if n in ("dissoc", "dissoc!", "get"):
        return "(%s %s %s)" % (n, x, key)
    if n == "keys":
        return "(keys %s)" % x
    raise ValueError(n)


def norm_model(r):
    k = r["kind"]
    if k == "int":
        return ("int", r["n"])
    if k == "nil":
        return ("nil",)
    if k == "key":
        return ("key", KEYS[r["n"] - 1])
    if k == "cut":
        return ("cut",)
    if k == "map":
        # (the spelling a key is shown in - symbol once it has been given as a symbol, until the entry is removed - is part of the rendering)
        return ("map", tuple((e["k"], bool(e.get("sym")), norm_model(e["v"])) for e in r["ents"] if e["present"]))
    el = tuple(norm_model(e) for e in r["elems"])
    if k == "list" and not el:
        return ("nil",)
    return (k, el)


def norm_real(v, depth=5):
    t = v["t"]
    if t == "int":
        return ("int", v["n"])
    if t == "nil":
        return ("nil",)
    if t in ("str", "sym"):
        return ("key", v["s"])
    if depth == 0:
        return ("cut",)
    if t == "list":
        return ("list", tuple(norm_real(x, depth - 1) for x in v["c"]))
    if t == "vec":
        return ("vec", tuple(norm_real(x, depth - 1) for x in v["c"]))
    if t == "map":
        ents = []
        for kk, vv in (v.get("e") or []):
            ents.append((kk["s"], kk["t"] == "sym", norm_real(vv, depth - 1)))
        return ("map", tuple(ents))
    return ("other", json.dumps(v, sort_keys=True)[:100])


def cut_eq(a, b):
    if a == ("cut",) or b == ("cut",):
        return True
    if isinstance(a, tuple) and isinstance(b, tuple):
        return len(a) == len(b) and all(cut_eq(x, y) for x, y in zip(a, b))
    return a == b


def run(tier):
    V = Verdict("C11", tier)
    work = Work("C11")
    try:
        return _run(V, work, tier)
    finally:
        work.close()


def _run(V, work, tier):
    thorough = tier == "thorough"
    binary = build_driver()
    res = run_tlc(work, "Heap", CFG % (2, 12, '"mut"', "PROPERTY NonMut"), timeout=3000)
    pairs = res.lines
    V.tlc(res, "Heap exhaustive: all histories of 2 operations; NonMut, ProgramFrozen, NoLaunder, WellFormed, NoSpareOnViews")
    if res.violated or "violated" in res.raw:
        raise MachineryError("Heap property violated inside the specification:\n" + res.raw[-3000:])
    hist = []
    want = 6000 if thorough else 1200
    for nops, share in ((5, 0.6), (6, 0.4)):
        r = run_tlc(work, "Heap", CFG % (nops, 30, '"all"', ""), timeout=600, simulate="num=100000000", depth=nops + 3, seed_=seed() * 7 + nops,
                    workers=8, stop_after=int(want * share))
        if r.error:
            raise MachineryError("Heap simulation failed: " + r.error)
        hist += r.lines
        V.coverage.setdefault("tlc_runs", []).append({"what": "Heap simulation, histories of %d operations" % nops, "printed": len(r.lines), "wall_s": round(r.wall, 1)})
    if len(hist) < want // 2:
        raise MachineryError("simulation produced only %d histories" % len(hist))
    # every (operation, mutator) pair of the exhaustive run is replayed as well
    V.coverage["exhaustive_mutator_pairs"] = len(pairs)
    # distinct histories only
    seen, uniq = set(), []
    for hh in pairs + hist:
        key = json.dumps([s["op"] for s in hh["log"]], sort_keys=True)
        if key not in seen:
            seen.add(key)
            uniq.append(hh)
    drv = []
    for i, hh in enumerate(uniq):
        forms = [PRELUDE]
        for si, st in enumerate(hh["log"]):
            g = 5 + si
            forms.append("(set 'g%d %s)" % (g, expr(st["op"])))
            forms.append("(probe %s)" % " ".join("g%d" % j for j in range(1, g + 1)))
        drv.append({"id": i, "src": "\n".join(forms), "cfg": {"nocount": True, "nostdlib": True}})
    real = {r["id"]: r["runs"][0]["evals"][0] for r in driver_json(binary, ["run"], drv)}
    opcount = {}
    for i, hh in enumerate(uniq):
        ev = real[i]
        probes = ev.get("probes") or []
        src = drv[i]["src"]
        for si, st in enumerate(hh["log"]):
            opcount[st["op"]["op"]] = opcount.get(st["op"]["op"], 0) + 1
            if si >= len(probes):
                V.add(None, "history stopped at step %d (%s): %s" % (si, expr(st["op"]), (ev.get("err") or {}).get("msg")), {"src": src, "step": si})
                break
            want_ = [norm_model(r) for r in st["after"]]
            got = [norm_real(t) for t in probes[si]["tag"]]
            # a window handed out by slice / cdr / rest must carry no spare capacity (an append to it has to reallocate)
            spare = probes[si].get("spare") or []
            for j, isview in enumerate(st["views"]):
                if isview and j < len(spare) and spare[j] > 0:
                    V.add(None, "a view keeps spare capacity: after step %d %s, g%d (a view) has %d spare cells - an append to it would write into storage it shares"
                          % (si, expr(st["op"]), j + 1, spare[j]), {"src": src, "step": si, "variable": "g%d" % (j + 1)})
                    break
            bad = [j for j in range(len(want_)) if j >= len(got) or not cut_eq(want_[j], got[j])]
            if bad:
                j = bad[0]
                nonmut = st["op"]["op"] not in ("append!", "sort", "assoc!", "dissoc!")
                what = ("a value that existed before a NON-MUTATING operation changed" if nonmut and j < 4 + si else "container state differs from the heap model")
                V.add(None, "%s: after step %d %s, g%d is %r, heap model says %r" % (what, si, expr(st["op"]), j + 1, got[j] if j < len(got) else None, want_[j]),
                      {"src": src, "step": si, "op": expr(st["op"]), "variable": "g%d" % (j + 1)})
                break
        if i % 300 == 1:
            V.sample({"history": [expr(st["op"]) for st in hh["log"]], "final": str([norm_model(r) for r in hh["log"][-1]["after"]])[:400]})
    # ---- byte strings (Bytes.tla): every history of LEN operations over three variables, every variable after every step
    blen = 3
    bh = []

    def bsink(rec):
        bh.append(rec)
    bres = run_tlc(work, "Bytes", "SPECIFICATION Spec\nCONSTANTS LEN = %d\nPROPERTY Frame\nCHECK_DEADLOCK FALSE\n" % blen, timeout=3000, line_sink=bsink)
    V.tlc(bres, "Bytes exhaustive: all %d histories of %d operations (append-bytes!, append-bytes, append!, aliasing); Frame" % (len(bh), blen))
    if bres.violated or bres.error:
        raise MachineryError("Bytes.tla failed: %s %s" % (bres.violated, bres.error))
    if len(bh) < 30000:
        raise MachineryError("Bytes.tla printed only %d histories" % len(bh))
    if not thorough:
        rndb = random.Random(seed())
        # the quick tier keeps every history made only of in-place appends (the aliasing hazards) and a sample of the rest
        inplace = [x for x in bh if all(st["op"]["op"] in ("append-bytes!", "append!") for st in x["hist"])]
        rest = [x for x in bh if not all(st["op"]["op"] in ("append-bytes!", "append!") for st in x["hist"])]
        bh = inplace + rndb.sample(rest, min(len(rest), 4000))
    BPRE = "(set 'g1 (to-bytes \"ab\")) (append-bytes! g1 \"cd\") (set 'g2 (to-bytes \"\")) (set 'g3 (to-bytes \"xyz\"))"

    def bsrc(o):
        a = {"str": "\"yz\"", "list": "'(7 8)"}.get(o.get("src"), o.get("src"))
        if o["op"] == "append-bytes!":
            return "(append-bytes! %s %s)" % (o["x"], a)
        if o["op"] == "append-bytes":
            return "(set '%s (append-bytes %s %s))" % (o["x"], o["y"], a)
        if o["op"] == "append!":
            return "(append! %s 33)" % o["x"]
        return "(set '%s %s)" % (o["x"], o["y"])
    bdrv = []
    for i, x in enumerate(bh):
        forms = [BPRE]
        for st in x["hist"]:
            forms.append(bsrc(st["op"]))
            forms.append("(probe g1 g2 g3)")
        bdrv.append({"id": i, "src": "\n".join(forms), "cfg": {"nocount": True, "nostdlib": True}})
    breal = {r["id"]: r["runs"][0]["evals"][0] for r in driver_json(binary, ["run"], bdrv, timeout=3000)}
    for i, x in enumerate(bh):
        probes = breal[i].get("probes") or []
        for si, st in enumerate(x["hist"]):
            if si >= len(probes):
                V.add(None, "byte-string history stopped at step %d (%s): %s" % (si, bsrc(st["op"]), (breal[i].get("err") or {}).get("msg")), {"src": bdrv[i]["src"]})
                break
            want_ = [bytes(st["after"][g]).hex() for g in ("g1", "g2", "g3")]
            got = [t.get("s") if t.get("t") == "bytes" else json.dumps(t) for t in probes[si]["tag"]]
            if want_ != got:
                j = [k for k in range(3) if want_[k] != got[k]][0]
                V.add(None, "byte strings share storage or lose writes: after step %d %s, g%d holds %s, the model says %s" % (si, bsrc(st["op"]), j + 1, got[j], want_[j]),
                      {"src": bdrv[i]["src"], "step": si})
                break
    V.coverage["byte_string_histories"] = len(bh)
    V.coverage["histories_replayed"] = len(uniq)
    V.coverage["operations_by_kind"] = opcount
    V.coverage["traces_validated_against_impl"] = len(uniq)
    # ---- a mutator that is REFUSED (the allocation limit of the embedding) changes nothing: every reference reads as
    # before, and the next allowed operation behaves as if the refused one had never been made (real against real)
    OBS = "(list (length v) (length w) (length (car l)) (handler-bind ((condition (lambda (c &rest r) 'err))) (nth v 3)) (equal? v w) (to-string (format-string \"{}\" v)))"
    refusals = [("(set 'v (vector 1 2 3)) (set 'w v) (set 'l (list v))", "(append! v 4 5 6)", "(append! v 4)"),
                ("(set 'v (vector 1 2 3)) (set 'w (slice 'vector v 0 3)) (set 'l (list w))", "(append! w 4 5 6 7)", "(append! v 9)"),
                ("(set 'v (to-bytes \"abc\")) (set 'w v) (set 'l (list v))", "(append-bytes! v \"defgh\")", "(append-bytes! v \"d\")"),
                ("(set 'v (to-bytes \"abc\")) (set 'w v) (set 'l (list v))", "(append! v 1 2 3 4)", "(append! v 100)"),
                ("(set 'v (vector 1 2 3 4)) (set 'w v) (set 'l (list v))", "(append! v 5 6)", "(append! v 5)")]
    rrecs = []
    for i, (setup, refused, allowed) in enumerate(refusals):
        guard = "(handler-bind ((condition (lambda (c &rest r) (list 'refused c)))) %s)"
        rrecs.append({"id": "x%d" % i, "seq": [setup, guard % refused, OBS, guard % allowed, OBS], "cfg": {"maxalloc": 5}})
        rrecs.append({"id": "y%d" % i, "seq": [setup, "'nothing", OBS, guard % allowed, OBS], "cfg": {"maxalloc": 5}})
    rres = {r["id"]: r["runs"][0]["evals"] for r in driver_json(binary, ["run"], rrecs)}
    for i, (setup, refused, allowed) in enumerate(refusals):
        x, y = rres["x%d" % i], rres["y%d" % i]
        if x[1]["v"].get("t") != "list":
            V.notes.append("the operation meant to be refused was carried out: %s" % refused)
            continue
        for j, what in ((2, "every reference right after the refusal"), (3, "the next allowed operation"), (4, "every reference after the next allowed operation")):
            if json.dumps(x[j]["v"], sort_keys=True) != json.dumps(y[j]["v"], sort_keys=True):
                V.add(None, "a refused %s left a trace: %s reads %s, without the refused call %s" % (refused, what, json.dumps(x[j]["v"])[:200], json.dumps(y[j]["v"])[:200]),
                      {"src": rrecs[2 * i]["seq"], "cfg": {"maxalloc": 5}})
                break
    V.coverage["refused_mutators"] = len(refusals)
    # ---- the registry-wide sweep: only the callables documented as mutating (the constant MUTATORS of Launder.tla) change a
    # value that existed before the call, and they change exactly the value they were handed - for EVERY callable of the
    # language package and the standard library, each kind of runtime container in each argument position
    import launder
    launder.sweep(V, work, binary, tier, {"target", "other"})
    V.coverage["exhaustive"] = False
    V.coverage["explanation"] = "exhaustive model checking of all 2-operation histories; %d distinct simulated histories of 5-6 operations replayed with every variable re-inspected after every step" % len(uniq)
    V.assumptions += ["byte strings have their own model (Bytes.tla) without views"]
    return V.finish()
