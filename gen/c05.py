"""C05  A runtime is left clean after every top-level evaluation.

  1. Kernel.tla exhaustive over histories of entries in which any activation fails in any way
     (ordinary error, limit, host panic, error in a handler, failing nested load): K10 CleanAtRest,
     K10ctx (bridged context restored), FramesMatchGo (every activation pops exactly what it pushed).
  2. Machine.tla as oracle (B1): histories of top-level evaluations (Load, FunCall, MacroCall,
     SpecialOpCall entry points) drawn from a pool of definitions, mutations, failing forms (effects
     completed before the failure), handler failures, nested loads switching packages, host panics -
     and the same histories with a failure injected at EVERY step index through the step budget.  After
     every entry point returns the driver reads the runtime's rest state; every later evaluation must
     behave exactly as the specification predicts from the completed effects only.
  3. B2: every recorded trace must be clean at each outermost `end` (KernelTrace End / Reset).
"""
import random, json
from vlib import *
import progs as P, mach, ktrace
from progs import S, Q, STR, SRC

KERNEL_CFG = """SPECIFICATION Spec
CONSTANTS FIDS = {"f", "g"}
 G = %(G)d
 MAXPHYS = 3
 MAXTAIL = 2
 MAXNEST = 4
 MAXMACRO = 1
 KIDS = 1
 TRO = TRUE
 BUDGET = %(B)d
 ENTRIES = %(E)d
 FIXTERM = TRUE
 CTXFIX = %(CTX)s
INVARIANTS K1 K2 K5 K7 K9 K10 K10ctx FramesMatchGo
VIEW View
CHECK_DEADLOCK FALSE
"""

PRELUDE = [
    [S("set"), Q(S("counter")), 0],
    [S("defun"), S("inc"), [], [S("set!"), S("counter"), [S("+"), S("counter"), 1]], S("counter")],
    [S("defun"), S("deep"), [S("n"), S("what")],
     [S("if"), [S("<="), S("n"), 0],
      [S("cond"), [[S("="), S("what"), 0], [S("error"), Q(S("deep-fail")), S("n")]], [[S("="), S("what"), 1], [S("boom")]], [S(":else"), [S("inc")]]],
      [S("+"), 1, [S("deep"), [S("-"), S("n"), 1], S("what")]]]],
    [S("defun"), S("tailfail"), [S("n"), S("what")],
     [S("inc")],
     [S("if"), [S("<="), S("n"), 0], [S("if"), [S("="), S("what"), 0], [S("error"), Q(S("tail-fail")), 1], [S("boom")]], [S("tailfail"), [S("-"), S("n"), 1], S("what")]]],
    [S("defmacro"), S("mfail"), [S("x")], [S("inc")], [S("if"), [S("="), S("x"), 0], [S("error"), Q(S("macro-fail")), 1], [S("quasiquote"), [S("inc")]]]],
    # a function living in another package whose NON-LAST body forms can fail (the package swap made for the
    # call must be undone on that exit path too)
    [S("in-package"), Q(S("lib"))],
    [S("defun"), S("lib-fail"), [S("what")],
     [S("user:inc")],
     [S("cond"), [[S("="), S("what"), 0], [S("error"), Q(S("lib-fail")), 1]], [[S("="), S("what"), 1], [S("boom")]], [[S("="), S("what"), 2], [S("unbound-in-lib")]], [S(":else"), 0]],
     [S("probe"), Q(S("in-lib"))],
     [S("if"), [S("="), S("what"), 3], [S("error"), Q(S("lib-last")), 1], Q(S("lib-done"))]],
    [S("defun"), S("lib-tail"), [S("n"), S("what")], [S("user:inc")], [S("if"), [S("<="), S("n"), 0], [S("lib-fail"), S("what")], [S("lib-tail"), [S("-"), S("n"), 1], S("what")]]],
    # functions and a macro of another package with NO body form at all (and one with a docstring only): the package
    # swap made for the call is undone on that exit path too
    [S("defun"), S("lib-noop"), []],
    [S("defun"), S("lib-hook"), [S("&rest"), S("args")]],
    [S("defun"), S("lib-doc"), [], STR("only a docstring")],
    [S("defmacro"), S("lib-nomacro"), []],
    [S("export"), Q(S("lib-fail")), Q(S("lib-tail")), Q(S("lib-noop")), Q(S("lib-hook")), Q(S("lib-doc")), Q(S("lib-nomacro"))],
    [S("in-package"), Q(S("user"))],
]
STATE = [S("probe"), Q(S("state")), S("counter")]


def pool(rnd):
    """one evaluation: (forms, mode)"""
    hnd = lambda cond, body: [S("lambda"), [S("c"), S("&rest"), S("r")]] + body
    choices = [
        lambda: ([[S("inc")], STATE], "load"),
        lambda: ([[S("progn"), [S("inc")], [S("error"), Q(S("x")), 1]], STATE], "load"),
        lambda: ([[S("list"), [S("inc")], [S("boom")], [S("inc")]]], "load"),
        lambda: ([[S("handler-bind"), [[S("x"), hnd("x", [[S("inc")], [S("error"), Q(S("y")), 2]])]], [S("error"), Q(S("x")), 1]]], "load"),
        lambda: ([[S("handler-bind"), [[S("x"), hnd("x", [[S("inc")], [S("boom")]])]], [S("error"), Q(S("x")), 1]]], "load"),
        lambda: ([[S("handler-bind"), [[S("condition"), hnd("c", [[S("inc")], [S("rethrow")]])]], [S("progn"), [S("inc")], [S("error"), Q(S("z")), 1]]]], "load"),
        lambda: ([[S("handler-bind"), [[S("condition"), hnd("c", [[S("inc")], Q(S("handled"))])]], [S("deep"), rnd.randrange(4), 0]], STATE], "load"),
        lambda: ([[S("load-string"), SRC([[S("in-package"), Q(S("other"))], [S("user:inc")], [S("error"), Q(S("q")), 1]])]], "load"),
        lambda: ([[S("load-string"), SRC([[S("in-package"), Q(S("other"))], [S("user:inc")], [S("boom")]])]], "load"),
        lambda: ([[S("in-package"), Q(S("elsewhere"))], [S("user:inc")], [S("error"), Q(S("left")), 1]], "load"),
        lambda: ([[S("in-package"), Q(S("elsewhere"))], [S("user:inc")]], "load"),
        lambda: ([[S("deep"), rnd.randrange(5), rnd.randrange(3)]], "load"),
        lambda: ([[S("tailfail"), rnd.randrange(4), rnd.randrange(2)]], "load"),
        lambda: ([[S("ignore-errors"), [S("inc")], [S("boom")]]], "load"),
        lambda: ([[S("ignore-errors"), [S("inc")], [S("error"), Q(S("sw")), 1]], STATE], "load"),
        lambda: ([[S("mfail"), rnd.randrange(2)], STATE], "load"),
        lambda: ([[S("unbound-sym")]], "load"),
        lambda: ([[S("set"), Q(S("counter")), [S("+"), S("counter"), 100]], [S("car"), 5]], "load"),
        lambda: ([[S("dotimes"), [S("i"), 3], [S("inc")], [S("if"), [S("="), S("i"), 1], [S("error"), Q(S("loop-fail")), S("i")], []]]], "load"),
        # a special operator with a scope of its own as the top-level form itself (succeeding and failing)
        lambda: ([[S("let"), [[S("v"), [S("inc")]]], S("v")]], "load"),
        lambda: ([[S("let*"), [[S("v"), 1], [S("w"), [S("inc")]]], [S("error"), Q(S("let-fail")), S("w")]]], "load"),
        lambda: ([[S("let"), [[S("v"), [S("error"), Q(S("binding-fail")), 1]]], S("v")]], "load"),
        lambda: ([[S("dotimes"), [S("i"), 2], [S("inc")]]], "load"),
        lambda: ([[S("flet"), [[S("h"), [S("a")], [S("inc")]]], [S("h"), 1]]], "load"),
        lambda: ([[S("labels"), [[S("h"), [S("a")], [S("if"), [S("<="), S("a"), 0], [S("inc")], [S("h"), [S("-"), S("a"), 1]]]]], [S("h"), 2]]], "load"),
        lambda: ([[S("let"), [[S("v"), 1]], [S("inc")]]], "call"),
        lambda: ([[S("dotimes"), [S("i"), 2], [S("inc")]]], "call"),
        # cross-package calls failing on different exit paths, handled in the same load: what follows must run in
        # the caller's package
        lambda: ([[S("handler-bind"), [[S("condition"), hnd("c", [[S("probe"), Q(S("handled")), S("c")], Q(S("h"))])]], [S("lib:lib-fail"), rnd.randrange(5)]],
                  [S("probe"), Q(S("after-handled"))], [S("set"), Q(S("marker")), 1], STATE], "load"),
        lambda: ([[S("ignore-errors"), [S("lib:lib-fail"), rnd.randrange(5)]], [S("probe"), Q(S("after-ignored"))], [S("set"), Q(S("marker2")), 2], STATE], "load"),
        lambda: ([[S("ignore-errors"), [S("lib:lib-tail"), rnd.randrange(3), rnd.randrange(5)]], [S("probe"), Q(S("after-tail"))], STATE], "load"),
        lambda: ([[S("lib:lib-fail"), rnd.randrange(5)]], "load"),
        lambda: ([[S("lib:lib-fail"), rnd.randrange(5)]], "call"),
        lambda: ([[S("lib:lib-tail"), rnd.randrange(3), rnd.randrange(5)]], "call"),
        # empty-bodied functions / macro of another package, then things that depend on the current package
        lambda: ([[S("lib:lib-noop")], [S("inc")], [S("set"), Q(S("marker3")), 3], [S("probe"), Q(S("m3")), S("marker3")], STATE], "load"),
        lambda: ([[S("list"), [S("lib:lib-hook"), 1, 2], [S("lib:lib-doc")], [S("inc")]], [S("defun"), S("made-after"), [], [S("inc")]], [S("probe"), Q(S("made")), [S("made-after")]], STATE], "load"),
        lambda: ([[S("map"), Q(S("list")), S("lib:lib-hook"), Q([1, 2])], [S("funcall"), S("lib:lib-noop")], [S("apply"), S("lib:lib-hook"), Q([1])], [S("inc")], STATE], "load"),
        lambda: ([[S("lib:lib-nomacro")], [S("inc")], STATE], "load"),
        lambda: ([[S("ignore-errors"), [S("lib:lib-noop")], [S("error"), Q(S("after-noop")), 1]], [S("inc")], STATE], "load"),
        lambda: ([[S("lib:lib-noop")]], "call"),
        lambda: ([[S("lib:lib-hook"), 1]], "call"),
        lambda: ([[S("lib:lib-nomacro")]], "call"),
        # other entry points: FunCallContext, MacroCall, SpecialOpCall
        lambda: ([[S("deep"), rnd.randrange(4), rnd.randrange(3)]], "call"),
        lambda: ([[S("tailfail"), rnd.randrange(3), rnd.randrange(2)]], "call"),
        lambda: ([[S("inc")]], "call"),
        lambda: ([[S("mfail"), rnd.randrange(2)]], "call"),
        lambda: ([[S("progn"), [S("inc")], [S("error"), Q(S("op-fail")), 1]]], "call"),
        lambda: ([[S("if"), [S("inc")], [S("boom")], 1]], "call"),
        # evaluations with nothing to evaluate: an empty source text, an empty nested load
        lambda: ([], "load"),
        lambda: ([[S("load-string"), STR("")], [S("inc")]], "load"),
        lambda: ([[S("load-string"), SRC([])]], "load"),
        # the Go panic reached through env.FunCall (no eval of its own between the builtin and the panic)
        lambda: ([[S("inc")], [S("funcall"), S("boom")]], "load"),
        lambda: ([[S("apply"), Q(S("boom")), [S("list"), [S("inc")]]]], "load"),
        lambda: ([[S("map"), Q(S("list")), S("boom"), [S("list"), [S("inc")], 2]]], "load"),
        lambda: ([[S("foldl"), S("boom"), [S("inc")], Q([1, 2])], STATE], "load"),
        lambda: ([[S("ignore-errors"), [S("all?"), S("boom"), Q([1])]], [S("ignore-errors"), [S("stable-sort"), S("boom"), [S("list"), 2, 1]]], STATE], "load"),
        lambda: ([[S("handler-bind"), [[S("x"), S("boom")]], [S("inc")], [S("error"), Q(S("x")), 1]]], "load"),
        # the Go panic raised by a host MACRO and by a host SPECIAL OPERATOR (their own frames are on the stack then)
        lambda: ([[S("inc")], [S("boom-macro")]], "load"),
        lambda: ([[S("list"), [S("inc")], [S("boom-macro"), 1], [S("inc")]]], "load"),
        lambda: ([[S("ignore-errors"), [S("inc")], [S("boom-macro")]], STATE], "load"),
        lambda: ([[S("handler-bind"), [[S("x"), hnd("x", [[S("inc")], [S("boom-macro")]])]], [S("error"), Q(S("x")), 1]]], "load"),
        lambda: ([[S("let"), [[S("v"), [S("inc")]]], [S("boom-op"), S("v")]]], "load"),
        lambda: ([[S("ignore-errors"), [S("boom-op")]], [S("ignore-errors"), [S("boom-macro")]], [S("ignore-errors"), [S("boom-macro")]], STATE], "load"),
        lambda: ([[S("funcall"), [S("lambda"), [], [S("inc")], [S("boom-macro")]]]], "load"),
        lambda: ([[S("progn"), [S("inc")], [S("boom-macro")]]], "call"),
        lambda: ([[S("handler-bind"), [[S("x"), hnd("x", [[S("inc")], [S("boom")]])]], [S("error"), Q(S("x")), 1]]], "call"),
    ]
    return rnd.choice(choices)()


def history(rnd, n):
    evals, modes = [list(PRELUDE)], ["load"]
    for _ in range(n):
        f, m = pool(rnd)
        evals.append(f)
        modes.append(m)
        evals.append([STATE])
        modes.append("load")
    return evals, modes


def run(tier):
    V = Verdict("C05", tier)
    work = Work("C05")
    try:
        return _run(V, work, tier)
    finally:
        work.close()


def _run(V, work, tier):
    thorough = tier == "thorough"
    rnd = random.Random(seed())
    binary = build_driver()

    # ---- 1. Kernel over histories ------------------------------------------------
    for kc in ([{"G": 6, "B": 0, "E": 3, "CTX": "TRUE"}, {"G": 6, "B": 4, "E": 2, "CTX": "TRUE"}] if thorough else
               [{"G": 5, "B": 0, "E": 3, "CTX": "TRUE"}, {"G": 5, "B": 3, "E": 2, "CTX": "TRUE"}]):
        res = run_tlc(work, "Kernel", KERNEL_CFG % kc, timeout=3000)
        V.tlc(res, "Kernel exhaustive histories G=%(G)d budget=%(B)d entries=%(E)d" % kc)
        if res.violated:
            raise MachineryError("Kernel invariant %s violated inside the model:\n%s" % (res.violated, res.raw[-3000:]))
    res0 = run_tlc(work, "Kernel", KERNEL_CFG % {"G": 5, "B": 0, "E": 1, "CTX": "FALSE"}, timeout=600)
    if "K10ctx" not in res0.violated:
        raise MachineryError("vacuity: Kernel with CTXFIX=FALSE no longer violates K10ctx")
    V.coverage["kernel_k10ctx_nonvacuous"] = True

    # ---- 2. histories ---------------------------------------------------------------
    nh = 120 if thorough else 30
    hs = [history(rnd, 4) for _ in range(nh)]
    base = driver_json(binary, ["run"], [{"id": i, "seq": [P.src(f) for f in ev], "modes": md, "cfg": {}} for i, (ev, md) in enumerate(hs)])
    recs, drv, meta = [], [], {}
    for i, (ev, md) in enumerate(hs):
        srcs = [P.src(f) for f in ev]
        smax = max(e["steps"] for e in base[i]["runs"][0]["evals"][1:])
        recs.append(mach.prog_record("h%d/inf" % i, ev, {}, md))
        drv.append({"id": "h%d/inf" % i, "seq": srcs, "modes": md, "cfg": {}})
        meta["h%d/inf" % i] = (i, 0)
        # what was defined under a context that has since been cancelled works in later context-less evaluations
        for k in (1, 2):
            cid = "h%d/ctx%d" % (i, k)
            recs.append(mach.prog_record(cid, ev, {"ctxfirst": k}, md))
            drv.append({"id": cid, "seq": srcs, "modes": md, "cfg": {"ctx_first": k}})
            meta[cid] = (i, 0)
        budgets = list(range(1, smax + 2))
        cap = 200 if thorough else 40
        if len(budgets) > cap:
            budgets = sorted(rnd.sample(budgets, cap))
        for n in budgets:
            cid = "h%d/b%d" % (i, n)
            # the prelude needs its own steps: give the budget only to a copy that defines everything first
            recs.append(mach.prog_record(cid, ev, {"budget": n + 40}, md))
            drv.append({"id": cid, "seq": srcs, "modes": md, "cfg": {"maxsteps": n + 40}})
            meta[cid] = (i, n + 40)
    model, res = mach.run_machine(work, recs, timeout=3000)
    V.tlc(res, "Machine: %d histories x failure injected at step indices" % nh)
    if res.violated:
        raise MachineryError("Machine invariant %s violated in the model:\n%s" % (res.violated, res.raw[-2000:]))
    if len(model) != len(recs):
        raise MachineryError("Machine produced %d of %d transcripts" % (len(model), len(recs)))
    real = {r["id"]: r["runs"][0]["evals"] for r in driver_json(binary, ["run"], drv)}
    nrest = 0
    for cid, (i, budget) in meta.items():
        ev, md = hs[i]
        srcs = [P.src(f) for f in ev]
        for j, (me, re_) in enumerate(zip(model[cid], real[cid])):
            rest = re_["rest"]
            nrest += 1
            # the runtime's rest state after the entry point returned, whatever it returned
            bad = []
            if rest["frames"] != 0:
                bad.append("call stack holds %d frames" % rest["frames"])
            if rest["nest"] != 0:
                bad.append("evaluator nesting is %d" % rest["nest"])
            if rest["cond"]:
                bad.append("a condition is still pending for rethrow")
            if rest["ctxleak"]:
                bad.append("the evaluation context was not restored")
            if rest["pkg"] != me["pkg"]:
                bad.append("current package is %s, expected %s" % (rest["pkg"], me["pkg"]))
            if bad:
                V.add(None, "runtime not clean after evaluation %d (%s entry point, budget %s): %s" % (j, md[j], budget or "none", "; ".join(bad)),
                      {"history": srcs, "modes": md, "budget": budget, "evaluation": j, "rest": rest})
                break
            # what the evaluation did and what later evaluations see: the specification's prediction
            call = md[j] == "call"
            d = mach.compare_eval(me, re_, check_steps=not call) if not (call and re_["v"]["t"] == "other") else mach.compare_eval(dict(me, v=re_["v"]), re_, check_steps=False) if False else None
            if call and re_["v"]["t"] == "other":
                # macro / operator entry point handed back an internal marker: compare effects only
                mp = [[mach.nm(x) for x in p["tag"]] for p in me["probes"]]
                rp = [[mach.nr(x) for x in p["tag"]] for p in (re_.get("probes") or [])]
                d = None if all(mach.veq(tuple(a), tuple(b)) for a, b in zip(mp, rp)) and len(mp) == len(rp) else "effects differ: model %r real %r" % (mp, rp)
            if d:
                V.add(None, "evaluation %d of a history differs from the clean-stop prediction (budget %s): %s" % (j, budget or "none", d),
                      {"history": srcs, "modes": md, "budget": budget, "evaluation": j, "diff": d})
                break
        if len(V.coverage["samples"]) < 4 and budget and budget % 7 == 0 and all(x.get("history_index") != i for x in V.coverage["samples"]):
            V.coverage["samples"].append({"history_index": i})
            V.coverage["samples"].pop()
            V.sample({"history_index": i, "history": [s[:160] for s in srcs[1:]], "modes": md[1:], "budget": budget,
                      "outcomes": [str(mach.nm(me["v"]))[:60] for me in model[cid][1:]]})
    V.coverage["rest_states_checked"] = nrest

    # ---- 3. B2 -------------------------------------------------------------------------
    # (context-less evaluations charge no steps, so their traces carry no step events for KernelTrace's step discipline
    # to follow: the ctx-first histories are decided by the transcript comparison and the rest states above)
    tdrv = [d for d in drv if not d["cfg"].get("ctx_first")]
    pick = rnd.sample(tdrv, min(len(tdrv), 1200 if thorough else 300))
    tpath, summ = ktrace.record(work, binary, pick, maxev=100000)
    rej, tot = ktrace.validate_all(work, tpath)
    V.coverage["states"] += tot["states"]
    V.coverage["transitions"] += tot["generated"]
    V.coverage["trace_events"] = tot["events"]
    for r in rej:
        if r["prop"] == "C05":
            V.add(None, "real trace rejected by KernelTrace at a balance / cleanliness action: %s" % json.dumps(r["event"]), r)
        else:
            V.notes.append("trace rejection attributed to %s: %s" % (r["prop"], json.dumps(r["event"])))
    V.coverage["traces_validated_against_impl"] = len(meta) + summ["programs"]
    V.coverage["exhaustive"] = False
    V.coverage["explanation"] = "%d histories; failure injected at up to %d step indices each; %d rest states read after entry points returned" % (nh, 200 if thorough else 40, nrest)
    return V.finish()
