"""C08  Packages isolate and resolve names as documented.

The package registry of Machine.tla (in-package creating packages that use the language package's exports,
export, use-package copying the exported bindings by value at that moment, set / defun / defmacro binding in
the current package, qualified access to any binding, keywords, the package swap to a function's defining
package for the call, load-string restoring the package, true/false unbindable) predicts every history of
package operations; TLC computes the transcripts (every reference's value, the package current at every
probe, the registry's exports and bound names after each evaluation) and they are compared with the real
interpreter (binding B1).  Histories: all sequences of <= 2 operations from the alphabet (exhaustive) plus
seeded longer ones; every error-prone operation is wrapped in a handler so the history continues.
"""
import random, json
from vlib import *
import progs as P, mach
from progs import S, Q, STR, SRC

PKGS = ["user", "p1", "p2"]


def alphabet():
    ops = []
    guard = lambda e: [S("handler-bind"), [[S("condition"), [S("lambda"), [S("c"), S("&rest"), S("r")], [S("probe"), Q(S("err")), S("c")], Q(S("e"))]]], e]
    for p in PKGS:
        ops.append([S("in-package"), Q(S(p))])
        ops.append(guard([S("use-package"), Q(S(p))]))
        for n in ("x", "y"):
            ops.append(guard([S("probe"), Q(S("ref")), S("%s:%s" % (p, n))]))
            ops.append(guard([S("set"), Q(S("%s:%s" % (p, n))), 30]))
        ops.append(guard([S("probe"), Q(S("call")), [S("%s:f" % p)]]))
        # a lexical variable of the same bare name does not capture a qualified reference (also when p is current)
        ops.append(guard([S("let"), [[S("x"), 77]], [S("probe"), Q(S("shadowed")), S("x"), S("%s:x" % p)]]))
        ops.append(guard([[S("lambda"), [S("x")], [S("probe"), Q(S("param-shadowed")), S("x"), S("%s:x" % p)]], 78]))
    for n in ("x", "y"):
        ops.append([S("export"), Q(S(n))])
        for v in (1, 2):
            ops.append([S("set"), Q(S(n)), v])
        ops.append(guard([S("probe"), Q(S("ref")), S(n)]))
        ops.append(guard([S("set!"), S(n), 7]))
    ops.append([S("export"), Q(S("f")), Q(S("g"))])
    ops.append([S("defun"), S("f"), [], [S("probe"), Q(S("in-f")), [S("handler-bind"), [[S("condition"), [S("lambda"), [S("c"), S("&rest"), S("r")], Q(S("unbound"))]]], S("x")]], Q(S("f1"))])
    ops.append([S("defun"), S("f"), [], [S("probe"), Q(S("in-f2"))], Q(S("f2"))])
    ops.append([S("defun"), S("g"), [], [S("set"), Q(S("y")), 50], [S("probe"), Q(S("in-g")), S("y")], Q(S("g1"))])
    ops.append(guard([S("probe"), Q(S("call")), [S("f")]]))
    ops.append(guard([S("probe"), Q(S("call")), [S("g")]]))
    ops.append([S("defmacro"), S("m"), [], [S("quasiquote"), [S("probe"), Q(S("in-m")), [S("handler-bind"), [[S("condition"), [S("lambda"), [S("c"), S("&rest"), S("r")], Q(S("unbound"))]]], S("x")]]]])
    ops.append(guard([S("m")]))
    ops.append(guard([S("set"), Q(S(":k")), 1]))
    ops.append(guard([S("probe"), S(":k")]))
    ops.append(guard([S("set"), Q(S("true")), 1]))
    ops.append(guard([S("let"), [[S("false"), 1]], 2]))
    ops.append(guard([S("set!"), S("true"), 3]))
    ops.append(guard([S("defun"), S("h"), [S("true")], 1]))
    ops.append(guard([S("probe"), Q(S("h")), [[S("lambda"), [S("false")], S("false")], 4]]))
    ops.append([S("load-string"), SRC([[S("in-package"), Q(S("p2"))], [S("set"), Q(S("x")), 90], [S("export"), Q(S("x"))], [S("probe"), Q(S("loaded"))]])])
    ops.append(guard([S("load-string"), SRC([[S("in-package"), Q(S("p1"))], [S("set"), Q(S("y")), 91], [S("error"), Q(S("load-failed")), 1]])]))
    ops.append([S("probe"), Q(S("here"))])
    return ops


def scenarios():
    """provider / consumer histories: what a consumer sees depends on WHEN it imported, on what it had bound before,
    and on whether it imports again - every combination of the optional steps"""
    import itertools
    guard = lambda e: [S("handler-bind"), [[S("condition"), [S("lambda"), [S("c"), S("&rest"), S("r")], [S("probe"), Q(S("err")), S("c")], Q(S("e"))]]], e]
    out = []
    for prov, cons in (("p1", "user"), ("p1", "p2"), ("user", "p1")):
        for pre_bound, export_first, redefine, reimport, local_set, fun in itertools.product([False, True], repeat=6):
            h = [[S("in-package"), Q(S(prov))]]
            define = [S("defun"), S("x"), [], Q(S("v1"))] if fun else [S("set"), Q(S("x")), 1]
            h += [[S("export"), Q(S("x"))], define] if export_first else [define, [S("export"), Q(S("x"))]]
            h.append([S("in-package"), Q(S(cons))])
            if pre_bound:
                h.append([S("set"), Q(S("x")), 40])
            h.append(guard([S("use-package"), Q(S(prov))]))
            ref = guard([S("probe"), Q(S("ref")), [S("x")] if fun else S("x")])
            h.append(ref)
            if redefine:
                h += [[S("in-package"), Q(S(prov))], [S("defun"), S("x"), [], Q(S("v2"))] if fun else [S("set"), Q(S("x")), 2], [S("in-package"), Q(S(cons))]]
                h.append(ref)
            if reimport:
                h.append(guard([S("use-package"), Q(S(prov))]))
                h.append(ref)
            if local_set:
                h.append(guard([S("set"), Q(S("x")), 77] if not fun else [S("defun"), S("x"), [], Q(S("local"))]))
                h.append(ref)
                h.append(guard([S("probe"), Q(S("provider-still")), [S("%s:x" % prov)] if fun else S("%s:x" % prov)]))
                if reimport:
                    h.append(guard([S("use-package"), Q(S(prov))]))
                    h.append(ref)
            out.append(h)
    # a function of another package fails in a non-last / last body form, the error is handled, and the caller goes on:
    # its unqualified references and definitions must still resolve in ITS package
    for lib, app in (("p1", "user"), ("p1", "p2")):
        for where in ("nonlast", "last", "ok"):
            for via in ("direct", "funcall", "handler-inside"):
                body = {"nonlast": [[S("error"), Q(S("lib-failed")), 1], Q(S("unreached"))],
                        "last": [[S("probe"), Q(S("in-lib"))], [S("error"), Q(S("lib-failed")), 2]],
                        "ok": [[S("probe"), Q(S("in-lib"))], Q(S("lib-value"))]}[where]
                call = [S("%s:g" % lib)] if via != "funcall" else [S("funcall"), Q(S("%s:g" % lib))]
                h = [[S("in-package"), Q(S(lib))], [S("set"), Q(S("x")), STR("lib-x")], [S("defun"), S("g"), []] + body,
                     [S("in-package"), Q(S(app))], [S("set"), Q(S("x")), STR("app-x")]]
                use = guard(call) if via != "handler-inside" else [S("progn"), guard(call), [S("probe"), Q(S("same-form")), S("x")]]
                h += [[S("probe"), Q(S("result")), use], [S("probe"), Q(S("x-after")), S("x")], [S("set"), Q(S("y")), 5],
                      guard([S("probe"), Q(S("y-in-app")), S("%s:y" % app)]), guard([S("probe"), Q(S("y-in-lib")), S("%s:y" % lib)])]
                out.append(h)
    # a MACRO defined in another package runs its body (expansion-time code) with ITS package current: unqualified
    # helpers and variables used while expanding are the defining package's, next to same-named ones of the caller
    for caller in ("user", "p2"):
        for what in ("helper", "variable", "set", "nested-macro"):
            h = [[S("in-package"), Q(S("p1"))], [S("defun"), S("scale"), [S("v")], [S("*"), S("v"), 10]], [S("set"), Q(S("uses")), 100]]
            if what == "helper":
                h.append([S("defmacro"), S("mac"), [S("e")], [S("list"), Q(S("+")), [S("scale"), 2], S("e")]])
            elif what == "variable":
                h.append([S("defmacro"), S("mac"), [S("e")], [S("list"), Q(S("+")), S("uses"), S("e")]])
            elif what == "set":
                h.append([S("defmacro"), S("mac"), [S("e")], [S("set"), Q(S("uses")), [S("+"), S("uses"), 1]], [S("list"), Q(S("+")), 0, S("e")]])
            else:
                h += [[S("defmacro"), S("inner"), [], [S("scale"), 3]], [S("defmacro"), S("mac"), [S("e")], [S("list"), Q(S("+")), [S("inner")], S("e")]]]
            h += [[S("export"), Q(S("mac"))], [S("in-package"), Q(S(caller))],
                  [S("defun"), S("scale"), [S("v")], [S("-"), S("v")]], [S("set"), Q(S("uses")), 1], guard([S("use-package"), Q(S("p1"))]),
                  guard([S("probe"), Q(S("call")), [S("mac"), 5]]), guard([S("probe"), Q(S("qualified")), [S("p1:mac"), 5]]),
                  guard([S("probe"), Q(S("mx")), [S("macroexpand"), Q([S("p1:mac"), 5])]]),
                  guard([S("probe"), Q(S("own")), S("uses"), [S("scale"), 1]]), guard([S("probe"), Q(S("theirs")), S("p1:uses")]),
                  [S("defun"), S("wrapper"), [], [S("mac"), 1]], guard([S("probe"), Q(S("in-fn")), [S("wrapper")]]), guard([S("probe"), Q(S("theirs2")), S("p1:uses")])]
            out.append(h)
    # the language package itself changes while packages are being created: a new package starts with the language
    # package's exports AS THEY ARE when it is created (a package created earlier keeps what it imported then)
    for first_before in (False, True):
        for what in ("new-export", "redefine-exported", "set-unexported", "export-later"):
            h = []
            if first_before:
                h += [[S("in-package"), Q(S("p1"))], [S("in-package"), Q(S("user"))]]
            h.append([S("in-package"), Q(S("lisp"))])
            if what == "new-export":
                h += [[S("defun"), S("lang-helper"), [], Q(S("from-lang"))], [S("set"), Q(S("shared-const")), 1], [S("export"), Q(S("lang-helper")), Q(S("shared-const"))]]
            elif what == "redefine-exported":
                h += [[S("defun"), S("identity"), [S("v")], [S("list"), Q(S("redefined")), S("v")]]]
            elif what == "set-unexported":
                h += [[S("set"), Q(S("shared-const")), 1]]
            else:
                h += [[S("set"), Q(S("shared-const")), 1], [S("in-package"), Q(S("p2"))], [S("in-package"), Q(S("lisp"))], [S("export"), Q(S("shared-const"))]]
            refs = [guard([S("probe"), Q(S("helper")), [S("lang-helper")]]), guard([S("probe"), Q(S("const")), S("shared-const")]), guard([S("probe"), Q(S("identity")), [S("identity"), 5]])]
            h += [[S("in-package"), Q(S("second"))]] + refs
            h += [[S("in-package"), Q(S("lisp"))], [S("set"), Q(S("shared-const")), 2], [S("in-package"), Q(S("third"))]] + refs
            h += [[S("in-package"), Q(S("second"))]] + refs[1:2]
            if first_before:
                h += [[S("in-package"), Q(S("p1"))]] + refs
            if what == "export-later":
                h += [[S("in-package"), Q(S("p2"))]] + refs[1:2]
            h += [[S("in-package"), Q(S("user"))]] + refs
            out.append(h)
    return out


def run(tier):
    V = Verdict("C08", tier)
    work = Work("C08")
    try:
        return _run(V, work, tier)
    finally:
        work.close()


def _run(V, work, tier):
    thorough = tier == "thorough"
    rnd = random.Random(seed())
    binary = build_driver()
    A = alphabet()
    hist = [[a] for a in A] + [[a, b] for a in A for b in A]
    if not thorough:
        hist = hist[:len(A)] + rnd.sample(hist[len(A):], 700)
    for _ in range(6000 if thorough else 900):
        hist.append([rnd.choice(A) for _ in range(rnd.randrange(4, 10))])
    # a package whose CREATION ends in an error (a docstring argument that is not a string): it exists, is current and
    # starts with the language package's exports all the same - entering it again later finds it usable
    guard = lambda e: [S("handler-bind"), [[S("condition"), [S("lambda"), [S("c"), S("&rest"), S("r")], [S("probe"), Q(S("err")), S("c")], Q(S("e"))]]], e]
    for np in ("fresh", "p1"):
        for badargs in ([42], [Q([1])], [STR("doc"), 7], [S(":k")]):
            for via_load in (False, True):
                create = [S("in-package"), Q(S(np))] + badargs
                h = [guard([S("load-string"), SRC([create, [S("probe"), Q(S("not-reached"))]])]) if via_load else guard(create), [S("probe"), Q(S("after-failed-creation"))],
                     [S("in-package"), Q(S(np))], guard([S("set"), Q(S("z")), [S("+"), 1, 2]]), guard([S("probe"), Q(S("z")), S("z")]), guard([S("defun"), S("k"), [], Q(S("k1"))]),
                     [S("export"), Q(S("k"))], [S("in-package"), Q(S("user"))], guard([S("probe"), Q(S("k")), [S("%s:k" % np)]]), guard([S("use-package"), Q(S(np))]), guard([S("probe"), Q(S("k2")), [S("k")]])]
                hist.append(h)
    sc = scenarios()
    hist += sc if thorough else rnd.sample(sc[:-18], 90) + sc[-18:]      # the 18 cross-package failure scenarios always run
    # the MIX family (gen/mix.py): a library package with exported and hidden bindings, cross-package calls, callbacks handed
    # across the package boundary, qualified references under local bindings - next to macros, handlers and loops
    import mix
    for _ in range(300 if thorough else 50):
        hist.append(mix.mix_program(rnd, depth=rnd.choice([3, 4])))
    recs, drv = [], []
    tail = [[S("probe"), Q(S("end"))]]
    for i, h in enumerate(hist):
        # one evaluation with the whole history (in-package persists across its forms), then a second one (package restored)
        evals = [h, [[S("probe"), Q(S("second"))], [S("handler-bind"), [[S("condition"), [S("lambda"), [S("c"), S("&rest"), S("r")], Q(S("unbound"))]]], [S("probe"), Q(S("x-now")), S("x")]]]]
        recs.append(mach.prog_record(i, evals, {}))
        drv.append({"id": i, "seq": [P.src(f) for f in evals], "cfg": {"nostdlib": True}})
    model, res = mach.run_machine(work, recs, timeout=3300)
    V.tlc(res, "Machine: %d package histories" % len(hist))
    if res.violated:
        raise MachineryError("Machine invariant %s violated in the model:\n%s" % (res.violated, res.raw[-2000:]))
    if len(model) != len(recs):
        raise MachineryError("Machine produced %d of %d transcripts" % (len(model), len(recs)))
    real = {r["id"]: r["runs"][0]["evals"] for r in driver_json(binary, ["run"], drv, timeout=3300)}
    for i, h in enumerate(hist):
        for j, (me, re_) in enumerate(zip(model[i], real[i])):
            d = mach.compare_eval(me, re_)
            if d:
                V.add(None, "package behaviour differs from the specification (evaluation %d): %s" % (j, d), {"src": drv[i]["seq"], "diff": d})
                break
        if i % 400 == 9:
            V.sample({"history": drv[i]["seq"][0][:500], "registry_after": model[i][0]["reg"]})
    V.coverage["histories"] = len(hist)
    V.coverage["alphabet"] = len(A)
    V.coverage["traces_validated_against_impl"] = len(hist)
    V.coverage["exhaustive"] = thorough
    V.coverage["explanation"] = "all histories of <= 2 operations from %d (thorough) / a 700-sample (quick), plus seeded histories of 4-9 operations; registry contents compared after each evaluation" % len(A)
    return V.finish()
