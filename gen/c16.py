"""C16  Formatting preserves the program and its comments and is idempotent.

Format.tla (extending Reader.tla) defines the relation between a formatter's input and output on token streams:
SameTrees (identical expression trees: node kinds, atom spellings, quoting, bracket kinds) and SameAnchors (the
ordered list of (comment, number of expression starts before it) is identical).  Inputs: every accepted string
of the Reader enumeration that contains a comment, a hash-bang or a blank line, seeded programs with comments /
blank lines / #! inserted in every separator position, and the repository's own .lisp files.  Each is formatted
by the real formatter under five configurations; the real lexer's tokens of input and output are fed back into
the specification, which decides the relation (binding B3).  Idempotence, "output is accepted by the strict
reader", and "rejected input produces no output" are evaluated on the real answers.
"""
import random, json, glob, os
from vlib import *
import progs as P, c12, ktrace

TYMAP = {"invalid": "INVALID", "error": "ERROR", "EOF": "EOF", "#!": "HASH_BANG", "symbol": "SYMBOL", "int": "INT", "#o": "INT_OCTAL_MACRO", "octal": "INT_OCTAL",
         "#x": "INT_HEX_MACRO", "hex": "INT_HEX", "float": "FLOAT", "string": "STRING", "raw-string": "STRING_RAW", ";": "COMMENT", "-": "NEGATIVE", "'": "QUOTE",
         "#^": "UNBOUND", "#'": "FUN_REF", "(": "PAREN_L", ")": "PAREN_R", "[": "BRACE_L", "]": "BRACE_R"}
CFG = """SPECIFICATION FSpec
CONSTANTS MAXLEN = 1
 ALPHA = {"a"}
CHECK_DEADLOCK FALSE
"""
MODES = ["default", "compact", "compact-strip", "indent4-norules", "strip"]


def toks(ts):
    out = []
    for t in ts:
        ty = TYMAP.get(t["ty"], "INVALID")
        tx = t["tx"]
        if ty in ("INT_OCTAL_MACRO", "INT_HEX_MACRO"):     # #x1f is two tokens: fold into one atom for the tree
            ty = "SYMBOL"
        if ty in ("INT_OCTAL", "INT_HEX"):
            ty = "INT"
        if ty == "COMMENT":
            tx = tx.rstrip(" \t\r")
        out.append({"ty": ty, "tx": tx})
    # re-join "#x" + "1f" as one atom
    res = []
    for t in out:
        if res and res[-1]["ty"] == "SYMBOL" and res[-1]["tx"] in ("#x", "#X", "#o", "#O") and t["ty"] == "INT":
            res[-1] = {"ty": "INT", "tx": res[-1]["tx"] + t["tx"]}
        else:
            res.append(t)
    return res


def commented_program(rnd):
    """a program rendered with comments, blank lines and odd spacing in every separator position"""
    forms = P.shape_program(rnd, wide=True, maxn=3)
    text = P.src(forms)
    out = []
    for ch in text:
        out.append(ch)
        if ch in " \n" and rnd.random() < 0.35:
            out.append(rnd.choice(["\n", " ; note %d\n" % rnd.randrange(99), "\n\n\n", "  ", "\n;; block\n", " ;x\n\n"]))
        elif ch in "([" and rnd.random() < 0.1:
            out.append(rnd.choice([" ", "\n", " ; after-open\n"]))
        elif ch == "'" and rnd.random() < 0.2:
            out.append(rnd.choice([" ; after-quote\n", "\n"]))
    body = "".join(out)
    if rnd.random() < 0.3:
        body = "#!/usr/bin/env elps\n" + body
    if rnd.random() < 0.3:
        body += "\n; trailing comment\n"
    if rnd.random() < 0.2:
        body = body.replace(")", " ; before-close\n)", 1)
    return body


PREFIXED = ["[lisp:function car]", "[lisp:expr %]", "'[lisp:function car]", "(lisp:function car)", "'(lisp:function car)", "'(lisp:expr (+ % 1))", "[quote a]", "'(quote a)", "[lisp:function]",
            "[lisp:function car cdr]", "(set 'form [lisp:function car])", "'('(lisp:function x))", "#^(+ % 1)", "#^(list % %2)", "#^x", "#'car", "'a", "''a", "'''a", "'(a b)", "''(a (b))", "'[1 2]", "'()", "#^'(a)", "'#^(f %)", "[1 [2]]", "'\"s\"", "-7", "(f 'x)", "1e10", "2.50e-10", "3e0", "100.0", "(g 1.5e20 0.10)"]


def prefix_program(rnd):
    """comments, blank lines and a hash-bang directly in front of / behind prefix forms (quote marks, #^, #') whose
    operand is a symbol, a list, a bracket list or another prefix form - at top level and inside lists"""
    def item():
        f = rnd.choice(PREFIXED)
        lead = rnd.choice(["", "", "; lead %d\n" % rnd.randrange(99), ";; block\n; two\n", "\n\n", "\n; after blank\n"])
        trail = rnd.choice(["", "", " ; trail %d" % rnd.randrange(99)])
        return lead + f + trail
    parts = []
    for _ in range(rnd.randrange(2, 6)):
        if rnd.random() < 0.4:
            inner = "\n".join(item() for _ in range(rnd.randrange(1, 4)))
            parts.append(rnd.choice(["(list\n%s)", "(progn %s\n)", "[%s\n]", "'(%s\n)", "(set 'v\n%s\n)"]) % inner)
        else:
            parts.append(item())
    body = "\n".join(parts) + "\n"
    if rnd.random() < 0.4:
        body = "#!/usr/bin/env elps\n" + body
    return body


def gap_comments(text, rnd, p=0.3):
    """a line comment in gaps between tokens of code lines: at blanks, and directly before closing brackets (so also after
    the operand of a spelled-out prefix form nested in another form)"""
    out = []
    n = 0
    for line in text.split("\n"):
        code, sep, rest = line.partition(";")
        if '"' in code or line.startswith("#!"):              # (string literals and the hash-bang line are left alone)
            out.append(line)
            continue
        buf = []
        for ch in code:
            if ch in ")]" and rnd.random() < p:
                n += 1
                buf.append(" ; g%d\n" % n)
            buf.append(ch)
            if ch == " " and rnd.random() < p:
                n += 1
                buf.append("; g%d\n " % n)
        out.append("".join(buf) + sep + rest)
    return "\n".join(out)


def string_program(rnd):
    """string literals whose CONTENT has white space a line-oriented clean-up would touch: raw strings with lines ending
    in blanks or tabs, blank-only lines, leading indentation, a trailing blank before the closing quotes; ordinary strings
    with blanks at either end and escapes - at top level, as arguments, behind comments"""
    def raw():
        lines = [rnd.choice(["line one", "  indented", "tab\tend\t", "ends in two  ", "", "   ", "\t", "x ; not a comment", "(paren", "'q"]) for _ in range(rnd.randrange(1, 5))]
        return '"""' + "\n".join(lines) + rnd.choice(["", " ", "\n", "  \n"]) + '"""'
    def plain():
        return '"' + rnd.choice(["a  ", "  b", " ", "tab\\t ", "semi ; colon", "x\\n  y  ", "  "]) + '"'
    parts = []
    for _ in range(rnd.randrange(2, 6)):
        lit = raw() if rnd.random() < 0.6 else plain()
        parts.append(rnd.choice(["%s", "(set 'banner %s)", "(list 1 %s 2)", "; about to\n%s", "(f %s) ; trailing  ", "'(%s)", "(concat 'string %s\n   %s)" ]).replace("%s", lit))
    return "\n".join(parts) + "\n"


def run(tier):
    V = Verdict("C16", tier)
    work = Work("C16")
    try:
        return _run(V, work, tier)
    finally:
        work.close()


def _run(V, work, tier):
    thorough = tier == "thorough"
    rnd = random.Random(seed())
    binary = build_driver()
    # inputs (1): Reader enumeration over an alphabet with comments, newlines, quotes, brackets, atoms
    model = {}

    def sink(rec):
        model["".join(rec["s"])] = rec
    small = ["(", ")", "[", "]", "'", "a", "1", " ", ";", "\n", "#", "!", "-"]
    maxlen = 5 if thorough else 4
    res = run_tlc(work, "Reader", c12.CFG % (maxlen, ", ".join(c12.tla_str(c) for c in small)), timeout=3300, line_sink=sink)
    V.tlc(res, "Reader: every string of length <= %d over %d classes (candidate inputs)" % (maxlen, len(small)))
    if res.violated:
        raise MachineryError("Reader invariant violated: %s" % res.violated)
    texts = [t for t, m in model.items() if m["ok"] and (";" in t or "#" in t or "\n\n" in t or "\n" in t.strip())]
    rejected = [t for t, m in model.items() if not m["ok"]]
    if not thorough:
        texts = rnd.sample(texts, min(len(texts), 2500))
    rejected = rnd.sample(rejected, min(len(rejected), 3000 if thorough else 600))
    progs_ = [commented_program(rnd) for _ in range(1500 if thorough else 250)] + [prefix_program(rnd) for _ in range(2000 if thorough else 400)] + [string_program(rnd) for _ in range(600 if thorough else 150)]
    # the prefix programs again with a comment in the gaps BETWEEN THE TOKENS of every form (after a head, after an operand,
    # directly before a closing bracket): also inside spelled-out prefix forms that sit in other forms
    progs_ += [gap_comments(prefix_program(rnd), rnd, rnd.choice([0.15, 0.3, 0.5])) for _ in range(2000 if thorough else 400)]
    # the MIX family (gen/mix.py) - every operator, macros with templates, packages, threading forms, nested source texts in
    # strings - plain and with gap comments
    import mix
    for _ in range(300 if thorough else 60):
        t = P.src(mix.mix_program(rnd, depth=rnd.choice([3, 4])))
        progs_ += [t, gap_comments(t, rnd, rnd.choice([0.05, 0.15]))]
    # threading forms (the heads with an ALIGN rule) written both ways - first argument on the head's line, first argument on
    # a line of its own - in both orders, several per text: the layout of one form must not leak into the next
    for head in ("thread-first", "thread-last"):
        a = "(%s val\n  (f 1)\n  (g 2))\n" % head
        b = "(%s\n  val\n  (f 1)\n  (g 2))\n" % head
        c = "(defun k (v) (%s v ; c\n (list 1)\n (list 2)))\n" % head
        progs_ += [a + b, b + a, a + b + a, b + c + a, c + b + c, a, b]
    files = []
    for f in ktrace.repo_lisp_files():
        try:
            files.append(open(f).read())
        except Exception:
            pass
    inputs = texts + progs_ + files
    recs = [{"id": i, "text": t, "format": True} for i, t in enumerate(inputs + rejected)]
    real = {r["id"]: r for r in driver_json(binary, ["reader"], recs, timeout=3300)}
    cases, meta = [], {}
    for i, t in enumerate(inputs):
        r = real[i]
        if not r["strict"]["ok"]:
            continue
        tin = toks(r["toks_in"])
        for mode in MODES:
            f = r["format"][mode]
            cid = "%d/%s" % (i, mode)
            if not f["ok"]:
                V.add(None, "the formatter (%s) rejects an input the reader accepts" % mode, {"text": t[:2000]})
                continue
            if "shared_differs" in f:
                V.add(None, "formatting (%s) depends on what the same Config value formatted before" % mode, {"text": t[:2000], "out": f.get("out", "")[:2000], "out_with_shared_config": f["shared_differs"][:2000]})
            if not f["idem"]:
                # known finding, narrowly: the input spells out a prefix form ((lisp:expr ..), (lisp:function ..), (quote ..)) with
                # a comment inside it, the first pass re-sugars or re-lays it, and the second pass differs ONLY by line breaks
                # directly after opening brackets
                import re as _re
                # (round 18, seen under another seed: the re-sugared form may also be an ARGUMENT that the first pass keeps on
                # the head's line and the second moves to its own - the two outputs differ by white space only)
                squeeze = lambda x: _re.sub(r"\s+", " ", _re.sub(r"([(\[])\s+", r"\1", x)).strip()
                key = None
                if f.get("out2") and squeeze(f["out2"]) == squeeze(f["out"]) and _re.search(r"[(\[](lisp:expr|lisp:function|quote)\b[^()\[\]]*(\([^()]*)?;", t):
                    key = "reformat-after-resugar-moves-first-element"
                V.add(key, "formatting is not idempotent (%s)" % mode, {"text": t[:2000], "out": f["out"][:2000], "out2": (f.get("out2") or "")[:2000]})
            if not f["reads"]["ok"]:
                V.add(None, "formatter output (%s) is rejected by the strict reader" % mode, {"text": t[:2000], "out": f["out"][:2000]})
                continue
            # typed values as the strict reader sees them (numeric values, string contents, quoting)
            if [c12.rnode(x) for x in f["reads"]["trees"]] != [c12.rnode(x) for x in r["strict"]["trees"]]:
                V.add(None, "formatter output (%s) reads back to different values" % mode, {"text": t[:2000], "out": f["out"][:2000]})
                continue
            cases.append({"id": cid, "mode": mode, "tin": tin, "tout": toks(f["toks_out"])})
            meta[cid] = (t, f["out"], mode)
    for j, t in enumerate(rejected):
        r = real[len(inputs) + j]
        for mode in MODES:
            f = r["format"][mode]
            if f["ok"] or f.get("len_out", 0) > 0:
                V.add(None, "input rejected by the reader produced formatter output (%s)" % mode, {"text": t})
    verdicts = {}

    def vsink(rec):
        verdicts[rec["id"]] = rec
    # every pair is one initial state holding both token streams: TLC gets them in portions (450,000 at once exhausted its heap)
    res2 = None
    for k in range(0, max(len(cases), 1), 40000):
        text = "".join(json.dumps(c, separators=(",", ":")) + "\n" for c in cases[k:k + 40000])
        r2 = run_tlc(work, "Format", CFG, files={"fmtcases.ndjson": text}, timeout=3300, line_sink=vsink)
        if r2.error or r2.violated:
            raise MachineryError("TLC failed on Format.tla: %s %s" % (r2.violated, (r2.error or "")[:400]))
        if res2 is None:
            res2 = r2
        else:
            res2.distinct += r2.distinct
            res2.generated += r2.generated
            res2.wall += r2.wall
    V.tlc(res2, "Format: %d (input, output) pairs decided by the specification" % len(cases))
    if len(verdicts) != len(cases):
        raise MachineryError("Format.tla decided %d of %d pairs" % (len(verdicts), len(cases)))
    for cid, vd in verdicts.items():
        t, o, mode = meta[cid]
        if not vd["trees"]:
            V.add(None, "formatting (%s) changes the expression trees (spellings, quoting or bracket kinds)" % mode, {"text": t[:2000], "out": o[:2000]})
        elif mode not in ("compact-strip", "strip") and not vd["anchors"]:
            V.add("compact-drops-comments" if mode == "compact" and vd["nout"] < vd["nin"] else None,
                  "formatting (%s) loses, reorders or re-attaches a comment (%d comments in, %d out)" % (mode, vd["nin"], vd["nout"]), {"text": t[:2000], "out": o[:2000]})
    V.sample({"input": inputs[0][:200], "default_out": real[0]["format"]["default"].get("out", "")[:200]})
    if progs_:
        V.sample({"input": progs_[0][:300]})
    V.coverage["inputs"] = len(inputs)
    V.coverage["pairs_decided"] = len(cases)
    V.coverage["rejected_inputs"] = len(rejected)
    V.coverage["traces_validated_against_impl"] = len(cases)
    V.coverage["exhaustive"] = False
    V.coverage["explanation"] = "%d accepted inputs (%d enumerated class strings with comments/newlines, %d commented programs, %d repository files) x 5 configurations; %d rejected inputs" % (len(inputs), len(texts), len(progs_), len(files), len(rejected))
    return V.finish()
