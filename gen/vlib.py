"""Shared machinery of the ELPS model-based checks.

Every check is `python3 gen/check.py <ID> <tier>`; the per-property modules
(gen/cNN.py) use the helpers here to
  * build the Go driver against /repo's *current working tree* (tag verif),
  * run TLC on a specification under a timeout with a private metadir,
  * collect the JSON lines the specification prints (cases + expectations),
  * run the driver on them, compare, and
  * write evidence / replay files and produce the exit status.

Exit status policy (DESIGN 2.5): 0 = held on everything explored, 1 = a
violation observed on the real code (VIOLATION line), 2 = machinery failure.
"""
import json, os, re, shutil, subprocess, sys, time, hashlib, random

ROOT = os.path.dirname(os.path.dirname(os.path.abspath(__file__)))
SPECS = os.path.join(ROOT, "specs")
HARNESS = os.path.join(ROOT, "harness")
# VERIF_WORK / VERIF_REPO: a second work area and another checkout of the project (used to run the checks against a
# scratch worktree that carries a seeded change while /repo itself stays untouched); the registered commands set neither
WORKROOT = os.environ.get("VERIF_WORK") or os.path.join(ROOT, ".work")
REPO = os.environ.get("VERIF_REPO", "/repo")
if REPO != "/repo":
    _alt = os.path.join(WORKROOT, "harness")
    if os.path.isdir(_alt):
        shutil.rmtree(_alt)
    shutil.copytree(HARNESS, _alt)
    _gm = open(os.path.join(_alt, "go.mod")).read().replace("=> /repo", "=> " + REPO)
    open(os.path.join(_alt, "go.mod"), "w").write(_gm)
    HARNESS = _alt
NCPU = os.cpu_count() or 4


class MachineryError(Exception):
    pass


def goenv():
    e = dict(os.environ)
    e["GOFLAGS"] = "-mod=mod"
    e["GOPROXY"] = "off"
    e.pop("GOSUMDB", None)          # must stay at default: toolchain go1.25.0 is verified from the module cache
    e["GOTOOLCHAIN"] = "auto"
    e.setdefault("GOCACHE", os.path.join(WORKROOT, "gocache"))
    e["CGO_ENABLED"] = e.get("CGO_ENABLED", "1")
    return e


def seed():
    try:
        return int(os.environ.get("VERIF_SEED", "1"))
    except ValueError:
        return 1


class Work:
    """Scratch directory under /verif/.work, removed on close."""

    def __init__(self, name):
        self.dir = os.path.join(WORKROOT, "%s-%d" % (name, os.getpid()))
        shutil.rmtree(self.dir, ignore_errors=True)
        os.makedirs(self.dir)

    def path(self, *p):
        return os.path.join(self.dir, *p)

    def close(self):
        shutil.rmtree(self.dir, ignore_errors=True)


def sync_gosum():
    """harness/go.sum must be /repo's go.sum (offline: no sumdb)."""
    src = os.path.join(REPO, "go.sum")
    dst = os.path.join(HARNESS, "go.sum")
    try:
        if not os.path.exists(dst) or open(src, "rb").read() != open(dst, "rb").read():
            shutil.copyfile(src, dst)
    except OSError as ex:
        raise MachineryError("cannot copy go.sum: %s" % ex)


def build_driver(race=False, tags="verif"):
    """Build harness/cmd/elpsdrive against the current /repo working tree."""
    os.makedirs(os.path.join(WORKROOT, "bin"), exist_ok=True)
    sync_gosum()
    out = os.path.join(WORKROOT, "bin", "elpsdrive" + ("-race" if race else "") + ("-" + tags.replace(" ", "_") if tags != "verif" else ""))
    cmd = ["go", "build", "-tags", tags, "-o", out]
    if race:
        cmd.append("-race")
    cmd.append("./cmd/elpsdrive")
    p = subprocess.run(cmd, cwd=HARNESS, env=goenv(), capture_output=True, text=True)
    if p.returncode != 0:
        raise MachineryError("driver build failed:\n" + p.stdout + p.stderr)
    return out


class TLCResult:
    def __init__(self):
        self.distinct = 0
        self.generated = 0
        self.depth = 0
        self.lines = []        # decoded JSON records printed by PrintT(ToJson(..))
        self.violated = []     # invariant / property names TLC reported violated
        self.error = None      # TLC-level error text (not an invariant violation)
        self.raw = ""
        self.wall = 0.0
        self.coverage = {}     # action -> count when -coverage was used
        self.timed_out = False


def _decode_printed(line):
    # TLC prints a string value quoted: "{\"a\":1}"
    if line.startswith('"{') or line.startswith('"['):
        try:
            return json.loads(json.loads(line))
        except Exception:
            return None
    return None


def run_tlc(work, module, cfg_text, files=None, extra=None, workers=None, timeout=600,
            simulate=None, depth=None, coverage=False, seed_=None, java_opts=None, dfid=None,
            keep_raw=200000, line_sink=None, stop_after=None):
    """Run TLC on specs/<module>.tla with the given cfg text.

    files: dict name->text of extra files placed next to the spec (JSON inputs).
    extra: list of other spec modules to copy (default: every .tla in specs/).
    simulate: None or a string like "num=1000" for -simulate.
    line_sink: optional callable(rec) receiving each decoded JSON line (to
    avoid holding everything in memory); when absent lines go to result.lines.
    """
    d = work.path("tlc-" + module + "-" + hashlib.md5((cfg_text + str(time.time())).encode()).hexdigest()[:8])
    os.makedirs(d)
    for f in os.listdir(SPECS):
        if f.endswith(".tla"):
            shutil.copyfile(os.path.join(SPECS, f), os.path.join(d, f))
    for name, text in (files or {}).items():
        mode = "wb" if isinstance(text, bytes) else "w"
        with open(os.path.join(d, name), mode) as fh:
            fh.write(text)
    with open(os.path.join(d, module + ".cfg"), "w") as fh:
        fh.write(cfg_text)
    cmd = ["timeout", str(int(timeout)), "tlc", "-workers", str(workers or NCPU), "-metadir", os.path.join(d, "meta"),
           "-config", module + ".cfg", "-noGenerateSpecTE"]
    if simulate:
        cmd += ["-simulate", simulate]
    if depth:
        cmd += ["-depth", str(depth)]
    if coverage:
        cmd += ["-coverage", "1"]
    if seed_ is not None:
        cmd += ["-seed", str(seed_)]
    if dfid:
        cmd += ["-dfid", str(dfid)]
    cmd.append(module + ".tla")
    env = dict(os.environ)
    jo = "-Xss256m"
    if java_opts:
        jo += " " + java_opts
    env["JAVA_TOOL_OPTIONS"] = jo
    res = TLCResult()
    t0 = time.time()
    p = subprocess.Popen(cmd, cwd=d, env=env, stdout=subprocess.PIPE, stderr=subprocess.STDOUT, text=True, errors="replace")
    raw = []
    rawlen = 0
    nrec = 0
    stopped = False
    for line in p.stdout:
        line = line.rstrip("\n")
        rec = _decode_printed(line)
        if rec is not None:
            nrec += 1
            if stop_after and nrec > stop_after:
                if not stopped:
                    stopped = True
                    p.terminate()
                continue
            if line_sink:
                line_sink(rec)
            else:
                res.lines.append(rec)
            continue
        if rawlen < keep_raw:
            raw.append(line)
            rawlen += len(line) + 1
    p.wait()
    res.wall = time.time() - t0
    res.raw = "\n".join(raw)
    res.timed_out = p.returncode == 124
    res.stopped = stopped
    m = re.findall(r"(\d+) states generated, (\d+) distinct states found", res.raw)
    if m:
        res.generated, res.distinct = int(m[-1][0]), int(m[-1][1])
    m = re.search(r"The depth of the complete state graph search is (\d+)", res.raw)
    if m:
        res.depth = int(m.group(1))
    res.violated = re.findall(r"Invariant (\w+) is violated", res.raw) + re.findall(r"Action property (\w+) is violated", res.raw) \
        + re.findall(r"Temporal properties were violated", res.raw)
    if "Deadlock reached" in res.raw:
        res.violated.append("Deadlock")
    if coverage:
        for mm in re.finditer(r"<(\w+) line \d+, col \d+ to line \d+, col \d+ of module \w+>: (\d+):(\d+)", res.raw):
            res.coverage[mm.group(1)] = res.coverage.get(mm.group(1), 0) + int(mm.group(3))
    errs = [l for l in raw if l.startswith("Error:") or "Exception" in l or "*** Errors" in l or "Parsing or semantic analysis failed" in l]
    if res.timed_out and not simulate:
        res.error = "TLC timed out after %ss" % timeout
    elif errs and not res.violated:
        # an evaluation error inside the spec is machinery failure
        i = raw.index(errs[0])
        res.error = "\n".join(raw[i:i + 25])
    elif p.returncode not in (0, 12, 13, 124) and not res.violated and not simulate and not stopped:
        res.error = "TLC exit %d\n%s" % (p.returncode, "\n".join(raw[-30:]))
    shutil.rmtree(d, ignore_errors=True)
    return res


def run_driver(binary, args, stdin_text=None, timeout=1800, env=None):
    """Run the Go driver; returns (returncode, stdout, stderr)."""
    e = dict(os.environ)
    if env:
        e.update(env)
    try:
        p = subprocess.run([binary] + args, input=stdin_text, capture_output=True, text=True, timeout=timeout, env=e, errors="replace")
    except subprocess.TimeoutExpired:
        raise MachineryError("driver timed out: %s" % " ".join(args))
    return p.returncode, p.stdout, p.stderr


def driver_json(binary, args, records, timeout=1800, env=None):
    """Feed ndjson records to the driver, parse ndjson output."""
    text = "".join(json.dumps(r, separators=(",", ":")) + "\n" for r in records)
    rc, out, err = run_driver(binary, args, text, timeout, env)
    if rc != 0:
        raise MachineryError("driver %s exited %d\n%s" % (" ".join(args), rc, err[-3000:]))
    res = []
    for line in out.splitlines():
        line = line.strip()
        if line:
            res.append(json.loads(line))
    return res


# ---------------------------------------------------------------------------
# known findings

def load_known(prop):
    p = os.path.join(ROOT, "known_findings.json")
    if not os.path.exists(p):
        return []
    d = json.load(open(p))
    return [f for f in d.get("findings", []) if f.get("property") == prop]


class Verdict:
    """Collects observed violations, matches them against known findings and
    produces the output lines / exit code / evidence file."""

    def __init__(self, prop, tier, level="model_checking"):
        self.prop = prop
        self.tier = tier
        self.level = level
        self.t0 = time.time()
        self.known = load_known(prop)
        self.known_hit = {}
        self.violations = []
        self.coverage = {"samples": []}
        self.assumptions = []
        self.notes = []

    def sample(self, x, cap=6):
        if len(self.coverage["samples"]) < cap:
            self.coverage["samples"].append(x)

    def add(self, key, descriptor, detail):
        """Record a violation of the property observed on the real code.
        key: finding key computed by the check's own classifier (or None);
        descriptor: short human text; detail: JSON-able replay content."""
        for f in self.known:
            if key is not None and f.get("key") == key:
                self.known_hit.setdefault(f["id"], [f, 0])[1] += 1
                return
        self.violations.append((descriptor, detail))

    def finish(self):
        OUT = ROOT if REPO == "/repo" else WORKROOT        # a run against another checkout keeps its files to itself
        os.makedirs(os.path.join(OUT, "evidence"), exist_ok=True)
        for fid, (f, n) in sorted(self.known_hit.items()):
            print("KNOWN-FINDING: property=%s %s (%s; %d case(s) this run)" % (self.prop, f["id"], f["what"], n))
        rc = 0
        if self.violations:
            rdir = os.path.join(OUT, "replays", self.prop)
            os.makedirs(rdir, exist_ok=True)
            for i, (desc, detail) in enumerate(self.violations[:20]):
                path = os.path.join(rdir, "%s-%d-%d.json" % (self.tier, seed(), i))
                with open(path, "w") as fh:
                    json.dump({"property": self.prop, "tier": self.tier, "seed": seed(), "what": desc, "detail": detail}, fh, indent=1, default=str)
                print("VIOLATION property=%s replay=%s  # %s" % (self.prop, path, desc[:300]))
            rc = 1
        cov = self.coverage
        cov.setdefault("states", 0)
        cov.setdefault("transitions", 0)
        cov.setdefault("traces_validated_against_impl", 0)
        if not cov["samples"]:
            cov["samples"] = ["(no sample recorded)"]
        ev = {"property_id": self.prop, "tier": self.tier, "seed": seed(), "level": self.level,
              "coverage": cov, "assumptions": self.assumptions, "wall_s": round(time.time() - self.t0, 2),
              "violations": len(self.violations), "known_findings_hit": {k: v[1] for k, v in self.known_hit.items()},
              "notes": self.notes}
        with open(os.path.join(OUT, "evidence", self.prop + ".json"), "w") as fh:
            json.dump(ev, fh, indent=1, default=str)
        print("%s %s: %s  (%.1fs; states=%s transitions=%s bound=%s)" % (
            self.prop, self.tier, "VIOLATED" if rc else "held", time.time() - self.t0, cov.get("states"), cov.get("transitions"),
            cov.get("traces_validated_against_impl")))
        return rc

    def tlc(self, res, what):
        """Account a TLC run; raise on machinery errors."""
        if res.error:
            raise MachineryError("TLC failed in %s: %s" % (what, res.error))
        self.coverage["states"] = self.coverage.get("states", 0) + res.distinct
        self.coverage["transitions"] = self.coverage.get("transitions", 0) + res.generated
        self.coverage.setdefault("tlc_runs", []).append({"what": what, "distinct": res.distinct, "generated": res.generated,
                                                         "depth": res.depth, "wall_s": round(res.wall, 1), "printed": len(res.lines)})


def main_wrap(fn):
    try:
        rc = fn()
    except MachineryError as ex:
        print("MACHINERY-ERROR: %s" % ex)
        sys.exit(2)
    sys.exit(rc)
