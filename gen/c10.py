"""C10  Evaluation is deterministic.

Model side: Machine.tla's next-state relation is a function (TLC reports maximum out-degree 1 for every
program) and Heap.tla specifies map enumeration as "sorted by key name"; for programs inside the Machine's
language the single allowed transcript is also compared with the real one.
Binding: every program (Machine family + a seeded family that prints, enumerates and compares maps, functions,
errors and nested containers through the standard library) is run repeatedly in fresh runtimes in one
process, at different positions of the input stream (unrelated activity before it) and in separate processes;
value, stderr, error message, error data and step count must be byte-identical across all runs.
"""
import random, json, re
from vlib import *
import progs as P, mach
from progs import S, Q, STR


def frag(rnd):
    # (index-like keys of different widths with a non-decimal key between them bytewise: an order that is numeric for
    # some pairs and bytewise for others is not an order at all)
    ks = rnd.sample(["zeta", "alpha", "mid", "b", "a", "c", "k1", "k10", "k2", "Z", "_x", "9", "10", "1a", "2", "007", "100", "1e3", "-1"], rnd.randrange(2, 9))
    kv = " ".join('"%s" %d' % (k, rnd.randrange(100)) for k in ks)
    skv = " ".join("'%s %d" % (k.lower().strip("_") or "q", rnd.randrange(100)) for k in ks)
    js = json.dumps({k: rnd.choice([1, "s", [1, 2], {"n": 1, "m": [True, None]}, 2.5]) for k in ks})
    bigs = json.dumps({k: 9223372036854775807 + 10 + i for i, k in enumerate(ks)})
    F = [
        '(debug-print (sorted-map %s))' % kv,
        '(debug-print (keys (sorted-map %s)))' % kv,
        '(to-string (sorted-map %s))' % skv,
        '(format-string "{} {}" (sorted-map %s) (vector 1 (sorted-map %s)))' % (kv, skv),
        '(json:dump-string (sorted-map %s))' % kv,
        '(json:dump-string (json:load-string %s))' % json.dumps(js),
        '(debug-print (json:load-string %s))' % json.dumps(js),
        '(handler-bind ((condition (lambda (c &rest r) (debug-print c r) (list c r)))) (json:load-string %s :exact-integers true))' % json.dumps(bigs),
        '(json:load-string %s :exact-integers true)' % json.dumps(bigs),
        '(debug-print (lambda (x) (+ x %d)))' % rnd.randrange(9),
        '(let ((a 1) (b 2) (c 3) (d 4)) (debug-print (lambda (x) (list a b c d x))))',
        '(to-string (let ((zz 1) (aa 2) (mm 3)) (lambda () (list zz aa mm))))',
        '(debug-print (map \'list (lambda (k) (list k (get (sorted-map %s) k))) (keys (sorted-map %s))))' % (kv, kv),
        '(handler-bind ((condition (lambda (c &rest r) (debug-print c r) r))) (error \'custom (sorted-map %s) (vector 1 2)))' % kv,
        '(error \'top-level-fail (sorted-map %s))' % kv,
        '(debug-print (list (gensym) (gensym)))',
        '(handler-bind ((condition (lambda (c &rest r) r))) (s:validate (s:make-validator "t" s:sorted-map (s:no-other-keys (s:has-key "a" s:int))) (sorted-map %s)))' % kv,
        '(debug-print (foldl (lambda (acc k) (concat \'list acc (list k))) () (keys (sorted-map %s))))' % kv,
        '(debug-print (equal? (sorted-map %s) (sorted-map %s)))' % (kv, kv),
        '(debug-print (string:join (map \'list to-string (keys (sorted-map %s))) ","))' % kv,
        '(defun f%d (&key %s) (list %s)) (debug-print (f%d))' % (rnd.randrange(1000), " ".join(k.lower().strip("_") or "q" for k in ks[:3]), " ".join(k.lower().strip("_") or "q" for k in ks[:3]), 0) if False else '(debug-print (stable-sort string< (list %s)))' % " ".join('"%s"' % k for k in ks),
        '(debug-stack)',
        # several things wrong at once: WHICH one is reported must not vary
        '(defun cfgf (&key host port) (list host port)) (handler-bind ((condition (lambda (c &rest r) (debug-print c r) r))) (cfgf :zeta 1 :host "h" :omega 2 :timeout 3 :alpha 4))',
        '(defun cfgg (a &key k) (list a k)) (cfgg 1 :u 1 :v 2 :w 3 :x 4 :y 5)',
        '((lambda (&key a) a) :q 1 :r 2 :s 3 :t 4)',
        '(handler-bind ((condition (lambda (c &rest r) (debug-print c r) r))) (sorted-map (vector 1) 1 (list 2) 2 1.5 3))',
        '(handler-bind ((condition (lambda (c &rest r) (debug-print c r) r))) (let ((a (unbound-one)) (b (unbound-two))) a))',
        '(s:validate (s:make-validator "t" s:sorted-map (s:has-key "a" s:int) (s:has-key "b" s:int) (s:has-key "c" s:int)) (sorted-map "z" 1))',
        '(debug-print (assoc (sorted-map %s) "new" (sorted-map %s)))' % (kv, skv),
        '(car (unbound-%d))' % rnd.randrange(9),
        # errors and stacks that carry the NAME of an anonymous function
        '(map \'list (lambda (x) (car x)) (list 1 %d))' % rnd.randrange(9),
        '(funcall (lambda () (unbound-in-lambda-%d)))' % rnd.randrange(9),
        '((lambda (x y) (list x y)) %d)' % rnd.randrange(9),
        '(handler-bind ((condition (lambda (c &rest r) (debug-print c) (debug-stack) r))) (funcall (lambda (k) (error \'in-lambda k)) %d))' % rnd.randrange(9),
        '(funcall (lambda () (funcall (lambda () (debug-stack) %d))))' % rnd.randrange(9),
        '(let ((f (lambda (n) (+ n "x")))) (foldl (lambda (acc e) (funcall f e)) 0 (list 1 2)))',
        '(labels ((inner (n) (+ n (lambda () 1)))) (inner %d))' % rnd.randrange(9),
    ]
    return rnd.choice(F)


ERRLITS = ['"1"', "1.5", "'(0)", "'sym", "5", "-1", "(vector 1 2)", "(sorted-map \"a\" 1)", ":kw", "()", '"ab"', "'(1 \"x\" (2.5))", "(lambda (x) x)", "car", "(to-bytes \"ab\")",
           "true", "(vector)", "'(a b)", "0", "(list 1 (vector 2) \"s\")"]


def errmsg_programs(rnd, registry, per_callable):
    """every registered callable applied to tuples of literal values of the wrong and the right kinds, each call under a
    handler that prints the condition and its data: whatever text an error carries must be a function of the program"""
    skip_pkg = {"time", "testing", "help", "golang"}
    skip = {"load-file", "load-bytes", "debug-stack", "trace"}
    out = []
    for rec in registry:
        if rec["pkg"] in skip_pkg or rec["name"] in skip:
            continue
        formals = rec.get("formals") or []
        req = 0
        for f in formals:
            if f.startswith("&"):
                break
            req += 1
        variadic = any(f.startswith("&") for f in formals)
        name = rec["name"] if rec["pkg"] == "lisp" else rec["pkg"] + ":" + rec["name"]
        calls = []
        tuples = []
        for _ in range(per_callable):
            k = req + (rnd.randrange(0, 3) if variadic else 0)
            if rnd.random() < 0.15:
                k = max(0, k + rnd.choice([-1, 1]))
            tuples.append([rnd.choice(ERRLITS) for _ in range(k)])
        # every kind of value in the first position (and, for two or more arguments, in the second behind each kind of
        # first argument the callable is likely to accept), the rest drawn at random
        kmin = max(req, 1 if variadic else 0)
        if kmin >= 1:
            for a in ERRLITS:
                tuples.append([a] + [rnd.choice(ERRLITS) for _ in range(max(kmin, 2 if variadic else kmin) - 1)])
        if kmin >= 2 or variadic:
            for a in ("(vector 1 2)", "'(0)", "(sorted-map \"a\" 1)", '"ab"', "5"):
                for b in rnd.sample(ERRLITS, 6):
                    tuples.append([a, b] + [rnd.choice(ERRLITS) for _ in range(max(kmin, 2) - 2)])
        for t in tuples:
            calls.append("(handler-bind ((condition (lambda (c &rest r) (debug-print c r) (format-string \"{} {}\" c r)))) (%s %s))" % (name, " ".join(t)))
        # (each call is a top-level form of its own program text: one that changes the package or defines something
        # does so for the calls after it, the same way in every run)
        out.append("\n".join(calls))
    return out


KEYNAMES = ["string-numbers", "exact-integers", "name", "max", "limit", "default", "host"]


def keyword_programs(rnd, n):
    """calls of functions with keyword parameters (user-defined, anonymous, and the builtins that declare &key) that OMIT
    some keywords, and failing twins that pass those same keywords next to something the binder refuses.  Whatever a
    refused call leaves behind must not reach a later call - in this runtime or in any other of the process"""
    goods, bads = [], []
    for i in range(n):
        ks = rnd.sample(KEYNAMES, rnd.randrange(2, 6))
        given = rnd.sample(ks, rnd.randrange(0, len(ks)))
        defn = "(defun kf (a &key %s) (list a %s))" % (" ".join(ks), " ".join(ks))
        calls = ["(debug-print (kf 1 %s))" % " ".join(":%s %d" % (k, 10 + j) for j, k in enumerate(given)),
                 "(debug-print ((lambda (&key %s) (list %s))))" % (" ".join(ks[:2]), " ".join(ks[:2])),
                 "(debug-print (json:dump-string (vector 7 2.5 \"s\")))", "(debug-print (json:dump-bytes 7))",
                 "(debug-print (json:load-message (json:dump-message (vector 9007199254740993 1.5))))",
                 "(debug-print (load-string \"(+ 1 2)\"))", "(debug-print (load-bytes (to-bytes \"(debug-stack)\")))",
                 "(debug-print (handler-bind ((condition (lambda (c &rest r) c))) (time:sleep (time:parse-duration \"1ns\"))))"]
        rnd.shuffle(calls)
        goods.append(defn + "\n" + "\n".join(calls[:rnd.randrange(2, 6)]))
        allk = " ".join(":%s %s" % (k, rnd.choice(["true", "1", '\"x\"', "2.5"])) for k in rnd.sample(KEYNAMES, rnd.randrange(1, len(KEYNAMES))))
        H = "(handler-bind ((condition (lambda (c &rest r) (debug-print c) c))) %s)"
        wrong = rnd.choice([":zz-bogus 1", "5 6", ":zz-bogus", "'sym 1", "\"str\" 2"])
        bad = [H % ("(kf 1 %s %s)" % (allk, wrong)), H % ("((lambda (&key host) host) %s %s)" % (allk, wrong)),
               H % ("(json:dump-string 7 :string-numbers true %s)" % wrong), H % ("(json:dump-bytes 7 :string-numbers true %s)" % wrong),
               H % ("(json:load-message (json:dump-message 1) :string-numbers true :exact-integers true %s)" % wrong),
               H % ("(load-string \"1\" :name \"n\" %s)" % wrong), H % ("(load-bytes (to-bytes \"1\") :name \"n\" %s)" % wrong),
               H % ("(time:sleep (time:parse-duration \"1ns\") :max (time:parse-duration \"1ns\") %s)" % wrong),
               H % ("((lambda (a &key max &rest more) a) 1 :max 2)"), H % ("((lambda (&key name &optional x) name) :name 2)")]
        rnd.shuffle(bad)
        bads.append("(defun kf (a &key %s) a)\n" % " ".join(KEYNAMES[:rnd.randrange(1, 4)]) + "\n".join(bad[:rnd.randrange(2, 7)]))
    return goods, bads


def wide_program(rnd):
    return "\n".join(frag(rnd) for _ in range(rnd.randrange(2, 7)))


def scrub(ev):
    """everything observable of one evaluation"""
    return json.dumps({k: ev.get(k) for k in ("v", "stderr", "steps", "data", "err")}, sort_keys=True)


def run(tier):
    V = Verdict("C10", tier)
    work = Work("C10")
    try:
        return _run(V, work, tier)
    finally:
        work.close()


def _run(V, work, tier):
    thorough = tier == "thorough"
    rnd = random.Random(seed())
    binary = build_driver()
    # ---- model side: Machine programs, out-degree 1, transcript equals the real one
    nm = 600 if thorough else 150
    recs, mdrv = [], []
    for i in range(nm):
        forms = P.shape_program(rnd, wide=True, raise_p=0.2, err_kinds=True, maxn=4)
        recs.append(mach.prog_record("m%d" % i, [forms], {}))
        mdrv.append({"id": "m%d" % i, "seq": [P.src(forms)], "cfg": {}})
    import mix
    for i in range(120 if thorough else 30):
        forms = mix.mix_program(rnd, depth=4) if i % 2 else mix.mix_fail_program(rnd)
        recs.append(mach.prog_record("mx%d" % i, [forms], {}))
        mdrv.append({"id": "mx%d" % i, "seq": [P.src(forms)], "cfg": {}})
    nm = len(recs)
    model, res = mach.run_machine(work, recs, timeout=3300)
    V.tlc(res, "Machine: %d programs, determinism (out-degree)" % nm)
    if res.violated:
        raise MachineryError("Machine invariant violated: %s" % res.violated)
    m = re.search(r"the maximum (\d+)", res.raw)
    if not m or int(m.group(1)) > 1:
        raise MachineryError("Machine next-state relation is not a function (maximum out-degree %s)" % (m.group(1) if m else "?"))
    V.coverage["machine_max_outdegree"] = 1
    # ---- wide family
    nw = 1500 if thorough else 300
    wide = [{"id": "w%d" % i, "seq": [wide_program(rnd)], "cfg": {}} for i in range(nw)]
    # the runtime's own listings of what the standard packages (registered from Go tables) and lisp packages export
    PKGS = ["lisp", "s", "math", "json", "time", "string", "regexp", "base64", "elpspath", "golang", "help", "testing", "user"]
    listing = [{"id": "h-packages", "seq": ["(help:help-packages)"], "cfg": {}}]
    for pk in PKGS:
        listing.append({"id": "h-sym-" + pk, "seq": ["(help:help-package-symbols '%s)\n(help:help-package-symbols '%s true)" % (pk, pk)], "cfg": {}})
        listing.append({"id": "h-doc-" + pk, "seq": ["(help:help-package '%s)" % pk], "cfg": {}})
    listing.append({"id": "h-own", "seq": ["(in-package 'mine)\n(export 'zz 'aa 'mm 'aa)\n(export 'bb)\n(set 'zz 1)\n(defun aa () 1)\n(in-package 'user)\n(help:help-package-symbols 'mine)\n(use-package 'mine)\n(help:help-package-symbols 'user true)"], "cfg": {}})
    rc, rout, rerr = run_driver(binary, ["registry", "all"], "", timeout=300)
    if rc != 0:
        raise MachineryError("registry dump failed: " + rerr[-500:])
    registry = [json.loads(l) for l in rout.splitlines() if l.strip()]
    errp = [{"id": "e%d" % i, "seq": [p], "cfg": {}} for i, p in enumerate(errmsg_programs(rnd, registry, 24 if thorough else 8))]
    V.coverage["callables_with_error_text_checked"] = len(errp)
    # a small allocation limit: which of several offending parts of one value is reported must not vary
    H = "(handler-bind ((condition (lambda (c &rest r) (debug-print c r) (format-string \"{} {}\" c r)))) %s)"
    docs = ['{"alpha":[1,2,3,4,5],"beta":[1,2,3,4,5,6],"gamma":[1,2,3,4,5,6,7]}', '{"k9":{"a":[1,2,3,4,5,6]},"k1":{"b":[1,2,3,4,5,6,7,8]},"k5":[1,2,3,4,5]}',
            '[{"z":[1,2,3,4,5],"a":[1,2,3,4,5,6]},{"m":[1,2,3,4,5,6,7]}]', '{"s1":"abcdefgh","s2":"abcdefghij","l":[1,2,3,4,5]}']
    allocp = []
    for i, d in enumerate(docs):
        for opts in ("", " :string-numbers true", " :exact-integers true"):
            allocp.append({"id": "a%d%s" % (i, opts.replace(" ", "")), "seq": [H % ("(json:load-string %s%s)" % (json.dumps(d), opts))], "cfg": {"maxalloc": 4}})
    for i, f in enumerate(["(make-sequence 0 10)", "(list (make-sequence 0 9) (make-sequence 0 7))", "(concat 'list (list 1 2 3) (list 4 5 6))", "(zip 'list (list 1 2 3 4 5) (list 1 2 3 4 5 6))",
                           "(map 'list identity (list 1 2 3 4 5 6))", "(string:repeat \"ab\" 9)", "(sorted-map \"a\" (vector 1 2 3 4 5) \"b\" (vector 1 2 3 4 5 6))"]):
        allocp.append({"id": "al%d" % i, "seq": [H % f], "cfg": {"maxalloc": 4}})
    goods, bads = keyword_programs(rnd, 120 if thorough else 40)
    kwp = [{"id": "kg%d" % i, "seq": [p], "cfg": {}} for i, p in enumerate(goods)] + [{"id": "kb%d" % i, "seq": [p], "cfg": {}} for i, p in enumerate(bads)]
    # anonymous validators shown by name (error text, stack, printed function)
    vnp = [{"id": "vn%d" % i, "seq": [H % f], "cfg": {}} for i, f in enumerate(["(funcall (s:gt 3) 1 2)", "(funcall (s:make-validator \"t\" s:int (s:gt 3)))", "(s:validate (s:make-validator \"t\" s:int (s:gt 3)) 1 2 3)"])]
    vnp += [{"id": "vm%d" % i, "seq": [f], "cfg": {}} for i, f in enumerate(["(funcall (s:gt 3) 1 2)", "(funcall (s:make-validator \"t\" s:int (s:gt 3)))", "(funcall (s:of s:int) 1 2)"])]
    allp = mdrv + wide + listing + errp + allocp + kwp + vnp
    reps = 8 if thorough else 4
    # one process: every program `reps` times at shuffled positions (other runtimes ran other things in between)
    stream = []
    for r in range(reps):
        order = list(allp)
        rnd.shuffle(order)
        stream += [dict(p, id="%s#%d" % (p["id"], r)) for p in order]
    # ... and every keyword program right after each of several refused twins (what a refused call leaves behind in
    # the process must not reach the next runtime)
    npair = 0
    for i in range(len(goods)):
        for j in rnd.sample(range(len(bads)), 6 if thorough else 3):
            stream.append(dict(kwp[len(goods) + j], id="kb%d#p%d" % (j, npair)))
            stream.append(dict(kwp[i], id="kg%d#p%d" % (i, npair)))
            npair += 1
    out1 = {r["id"]: r["runs"][0]["evals"] for r in driver_json(binary, ["run"], stream, timeout=3300)}
    after_bad = {}
    for k, v in out1.items():
        if "#p" in k and k.startswith("kg"):
            after_bad.setdefault(k.split("#")[0], []).append((k, v))
    # separate processes
    procs = []
    for k in range(3 if not thorough else 5):
        procs.append({r["id"]: r["runs"][0]["evals"] for r in driver_json(binary, ["run"], allp, timeout=3300)})
    for p in allp:
        pid = p["id"]
        variants = {}
        for r in range(reps):
            variants.setdefault(scrub(out1["%s#%d" % (pid, r)][0]), []).append("in-process run %d" % r)
        for k, po in enumerate(procs):
            variants.setdefault(scrub(po[pid][0]), []).append("process %d" % k)
        for k, v in after_bad.get(pid, []):
            variants.setdefault(scrub(v[0]), []).append("in-process run right after a refused keyword call in another runtime (%s)" % k)
        if len(variants) > 1:
            vs = list(variants.items())
            a, b = json.loads(vs[0][0]), json.loads(vs[1][0])
            diff = [k for k in a if a[k] != b[k]]
            # the names libschema gives anonymous validators come from ONE counter per process (known finding): a difference
            # that disappears once those numbers are blanked is that finding and nothing else
            if len({re.sub(r"_validation_fun_\d+", "_validation_fun_N", x) for x in variants}) == 1:
                V.add("validator-name-counter", "an anonymous validator's name differs between runs", {"src": p["seq"][0]})
                continue
            V.add(None, "two runs of the same program differ in %s (%s vs %s)" % (diff, vs[0][1][0], vs[1][1][0]),
                  {"src": p["seq"][0], "cfg": p.get("cfg") or {}, "differs_in": diff, "a": {k: a[k] for k in diff}, "b": {k: b[k] for k in diff}})
        if pid.startswith("m"):
            d = mach.compare_eval(model[pid][0], out1[pid + "#0"][0])
            if d:
                V.notes.append("Machine/real transcript differs on %s (%s): belongs to C01/C02" % (pid, d))
    for p in wide[:3]:
        V.sample({"program": p["seq"][0][:500]})
    V.coverage["programs"] = len(allp)
    V.coverage["runs_per_program"] = reps + len(procs)
    V.coverage["traces_validated_against_impl"] = len(allp) * (reps + len(procs))
    V.coverage["exhaustive"] = False
    V.coverage["explanation"] = "%d programs x (%d in-process runs at shuffled positions + %d separate processes), transcripts compared byte for byte" % (len(allp), reps, len(procs))
    V.assumptions += ["nondeterminism with probability far below 1/%d per program is not excluded" % (reps + len(procs))]
    return V.finish()
