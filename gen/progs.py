"""Seeded generators of ELPS programs.

S-expressions are Python values: int, ("s", name) symbols, ("str", text),
("q", x) quote, lists = python lists ("[]" brackets are not generated).
`render` gives source text.  `to_ast` gives the JSON node form consumed by
Machine.tla (uniform fields t, n, s, q, c, i).

Families
  shape_program  - the shape-indexed family (DESIGN 3): mutually recursive
                   functions with multi-form bodies whose forms decide from the
                   invocation arguments (n k) what they do: nothing, a call in
                   non-tail position, a call under a chain of terminal /
                   non-terminal / blocking wrappers, a raise.
"""
import random


def S(x):
    return ("s", x)


def Q(x):
    return ("q", x)


def STR(x):
    return ("str", x)


def SRC(forms):
    return ("src", forms)


def render(e):
    if isinstance(e, bool):
        return "true" if e else "false"
    if isinstance(e, int):
        return str(e)
    if isinstance(e, float):
        return repr(e)
    if isinstance(e, list):
        return "(" + " ".join(render(x) for x in e) + ")"
    k = e[0]
    if k == "s":
        return e[1]
    if k == "str":
        return '"' + e[1].replace("\\", "\\\\").replace('"', '\\"') + '"'
    if k == "q":
        return "'" + render(e[1])
    if k == "src":      # a string literal holding source text (for load-string): ("src", [forms])
        return render(("str", " ".join(render(x) for x in e[1])))
    if k == "br":
        return "[" + " ".join(render(x) for x in e[1]) + "]"
    raise ValueError(e)


# ---------------------------------------------------------------------------
# wrappers: (name, class, fn)   class: T terminal, N non-terminal, B blocking

def _w():
    W = []
    add = lambda n, c, f: W.append((n, c, f))
    add("id", "T", lambda e, r: e)
    add("progn-last", "T", lambda e, r: [S("progn"), 0, e])
    add("let-body", "T", lambda e, r: [S("let"), [[S("z"), 1]], e])
    add("let*-body", "T", lambda e, r: [S("let*"), [[S("z"), 1], [S("y"), S("z")]], e])
    add("if-then", "T", lambda e, r: [S("if"), S("true"), e, []])
    add("if-else", "T", lambda e, r: [S("if"), [], 7, e])
    add("cond-clause", "T", lambda e, r: [S("cond"), [[S("="), 1, 2], 5], [S(":else"), e]])
    add("cond-first", "T", lambda e, r: [S("cond"), [S("true"), 0, e]])
    add("or-last", "T", lambda e, r: [S("or"), [], e])
    add("and-last", "N", lambda e, r: [S("and"), S("true"), e])     # `and` never returns a terminal expression
    add("flet-body", "T", lambda e, r: [S("flet"), [[S("h"), [S("a")], S("a")]], e])
    add("labels-body", "T", lambda e, r: [S("labels"), [[S("h"), [S("a")], S("a")]], e])
    add("progn-nonlast", "N", lambda e, r: [S("progn"), e, 0])
    add("let-value", "N", lambda e, r: [S("let"), [[S("z"), e]], S("z")])
    add("or-first", "N", lambda e, r: [S("or"), e, 1])
    add("and-first", "N", lambda e, r: [S("and"), e, 1])
    add("if-cond", "N", lambda e, r: [S("if"), e, 1, 2])
    add("arg-identity", "N", lambda e, r: [S("identity"), e])
    add("arg-list", "N", lambda e, r: [S("list"), 1, e])
    add("arg-nested", "N", lambda e, r: [S("list"), [S("progn"), e, 1]])
    # the call is made while the HEAD of a tail-position call is evaluated, and that call has only atoms as arguments
    add("head-expr", "N", lambda e, r: [[S("progn"), e, S("identity")], 0])
    add("head-expr-noargs", "N", lambda e, r: [[S("progn"), e, [S("lambda"), [], 5]]])
    add("handler-bind", "B", lambda e, r: [S("handler-bind"), [[S("my-cond"), [S("lambda"), [S("c"), S("&rest"), S("a")], [S("probe"), Q(S("handled")), S("c")], Q(S("h"))]]], e])
    add("handler-rethrow", "B", lambda e, r: [S("handler-bind"), [[S("condition"), [S("lambda"), [S("c"), S("&rest"), S("a")], [S("probe"), Q(S("seen")), S("c")], [S("rethrow")]]]], e])
    add("ignore-errors", "B", lambda e, r: [S("ignore-errors"), e])
    # the call is the tail call of the HANDLER (the retry shape): made through the handler-bind frame, never collapsed
    add("handler-call", "B", lambda e, r: [S("handler-bind"), [[S("my-cond"), [S("lambda"), [S("c"), S("&rest"), S("a")], e]]], [S("error"), Q(S("my-cond")), STR("again")]])
    # a macro call is replaced in place by its expansion: the call written in the argument ends up
    # wherever the expansion puts it, after the macro's own (blocked) frame is gone - class X: only
    # transparency is required of it, no height law
    add("macro", "X", lambda e, r: [S("m-id"), e])
    add("macro2", "X", lambda e, r: [S("m-twice"), e])
    return W


WRAPPERS = _w()
WT = [w for w in WRAPPERS if w[1] == "T"]

PRELUDE = [
    [S("defmacro"), S("m-id"), [S("x")], [S("quasiquote"), [S("progn"), [S("unquote"), S("x")]]]],
    [S("defmacro"), S("m-twice"), [S("x")], [S("quasiquote"), [S("m-id"), [S("m-id"), [S("unquote"), S("x")]]]]],
]

def _iscall(e):
    return isinstance(e, list) and len(e) >= 2 and isinstance(e[0], tuple) and e[0][0] == "s" and (e[0][1] in ("f0", "f1", "f2", "loop", "loop2"))


def _funcall(e, r):
    return [S("funcall"), Q(e[0])] + e[1:] if _iscall(e) else [S("funcall"), [S("lambda"), [], e]]


def _apply(e, r):
    return [S("apply"), Q(e[0])] + e[1:-1] + [[S("list"), e[-1]]] if _iscall(e) else [S("apply"), [S("lambda"), [S("&rest"), S("ignored")], e], Q([1, 2])]


def _tfirst(e, r):
    return [S("thread-first"), e[1], [e[0]] + e[2:]] if _iscall(e) else [S("thread-first"), 1, [S("identity")], [[S("lambda"), [S("ignored")], e]]]


def _tlast(e, r):
    return [S("thread-last"), e[-1], e[:-1]] if _iscall(e) else [S("thread-last"), 1, [[S("lambda"), [S("ignored")], e]]]


def _fa(e, r):      # funcall of apply
    return [S("funcall"), Q(S("apply")), Q(e[0])] + e[1:-1] + [[S("list"), e[-1]]] if _iscall(e) else [S("funcall"), S("apply"), [S("lambda"), [S("&rest"), S("ig")], e], Q([1])]


def _af(e, r):      # apply of funcall
    return [S("apply"), S("funcall"), Q(e[0]), [S("list")] + e[1:]] if _iscall(e) else [S("apply"), Q(S("funcall")), [S("list"), [S("lambda"), [], e]]]


def _ff(e, r):
    return [S("funcall"), S("funcall"), Q(e[0])] + e[1:] if _iscall(e) else [S("funcall"), Q(S("funcall")), [S("lambda"), [], e]]


def _aa(e, r):
    return [S("apply"), Q(S("apply")), Q(e[0]), [S("list"), [S("list")] + e[1:]]] if _iscall(e) else [S("apply"), S("apply"), [S("lambda"), [S("&rest"), S("ig")], e], Q([[1, 2]])]


# terminal wrappers through builtins / loops (funcall, apply, dotimes result form, thread-*)
WIDE_T = [
    ("funcall-apply", "T", _fa),
    ("apply-funcall", "T", _af),
    ("funcall-funcall", "T", _ff),
    ("apply-apply", "T", _aa),
    ("funcall", "T", _funcall),
    ("apply", "T", _apply),
    ("dotimes-result", "T", lambda e, r: [S("dotimes"), [S("i"), 2, e], [S("probe"), Q(S("turn")), S("i")]]),
    ("thread-first", "T", _tfirst),
    ("thread-last", "T", _tlast),
]
WT_ALL = WT + WIDE_T


ERR_PRELUDE = [
    [S("defmacro"), S("m-tmpl"), [S("a")], [S("quasiquote"), [S("progn"), [S("unquote"), S("a")], [S("error"), Q(S("in-template")), 1]]]],
    [S("defmacro"), S("m-built-head"), [S("a")], [S("list"), Q(S("notfun")), S("a")]],
    [S("defmacro"), S("m-tmpl-arity"), [S("a")], [S("quasiquote"), [S("car"), [S("unquote-splicing"), [S("list"), S("a"), 1, 2]]]]],
    [S("defmacro"), S("m-built-call"), [S("a")], [S("list"), S("car"), S("a"), 2]],
    [S("defmacro"), S("m-built-unbound"), [S("a")], [S("quasiquote"), [S("list"), [S("unquote"), S("a")], S("unbound-in-template")]]],
    # templates whose splice is NOT the single trailing one: the form around it keeps the position it was written at
    [S("defmacro"), S("m-splice-mid"), [S("a")], [S("quasiquote"), [S("car"), [S("unquote-splicing"), [S("list"), S("a")]], 2]]],
    [S("defmacro"), S("m-splice-two"), [S("a")], [S("quasiquote"), [S("list"), [S("unquote-splicing"), [S("list"), 1]], [S("unquote-splicing"), [S("list"), S("a")]], [S("error"), Q(S("in-template")), 2]]]],
    [S("defmacro"), S("m-splice-body"), [S("&rest"), S("body")], [S("quasiquote"), [S("progn"), [S("unquote-splicing"), S("body")], [S("error"), Q(S("in-template")), 3]]]],
    [S("defmacro"), S("m-splice-first"), [S("&rest"), S("body")], [S("quasiquote"), [S("let"), [[S("q"), 1]], [S("unquote-splicing"), S("body")], [S("car"), S("q"), S("q")]]]],
    [S("defmacro"), S("m-splice-nested"), [S("a")], [S("quasiquote"), [S("list"), 0, [S("+"), [S("unquote-splicing"), [S("list"), 1, S("a")]], [S("car"), 5]]]]],
    [S("defun"), S("deep-fail"), [S("d")], [S("if"), [S("<="), S("d"), 0], [S("car"), 1, 2], [S("+"), 1, [S("deep-fail"), [S("-"), S("d"), 1]]]]],
]
ERR_LEAVES = [
    lambda r: [S("error"), Q(S("my-cond")), STR("boom")],
    lambda r: [S("error"), Q(S("other-cond")), 1],
    lambda r: [S("boom")],
    lambda r: [S("boom-macro"), 1],
    lambda r: [S("boom-op"), S("n")],
    lambda r: S("unbound-symbol-x"),
    lambda r: [S("car"), 1, 2],
    lambda r: [S("car"), 5],
    lambda r: [S("aref"), [S("vector"), 1, 2], 7],
    lambda r: [S("aref"), [S("vector"), 1, 2], STR("x")],
    lambda r: [S("nth"), [S("list"), 1], -1],
    lambda r: [S("get"), 5, STR("a")],
    lambda r: [S("cons"), 1, 2],
    lambda r: [5, 1],
    lambda r: [S("rethrow")],
    lambda r: [S("m-tmpl"), 0],
    lambda r: [S("m-built-head"), 0],
    lambda r: [S("m-tmpl-arity"), Q([9])],
    lambda r: [S("m-built-call"), Q([1])],
    lambda r: [S("m-built-unbound"), 3],
    # package-qualified names that do not resolve, written as ARGUMENTS behind other arguments (the error is the symbol's)
    lambda r: [S("list"), [S("list"), 1, 2], S("lisp:no-such-thing")],
    lambda r: [S("+"), 1, 2, S("nopkg:pi")],
    lambda r: [S("list"), S("n"), S("lisp:nope"), 3],
    lambda r: [S("identity"), S("nopkg:x")],
    lambda r: [S("m-splice-mid"), Q([1])],
    lambda r: [S("m-splice-two"), 4],
    lambda r: [S("m-splice-body"), [S("probe"), Q(S("in-body"))], 1],
    lambda r: [S("m-splice-body")],
    lambda r: [S("m-splice-first"), 1, 2],
    lambda r: [S("m-splice-nested"), 2],
    lambda r: [S("deep-fail"), r.randrange(4)],
    lambda r: [[S("lambda"), [S("a")], [S("car"), S("a"), S("a")]], 1],
    lambda r: [S("funcall"), Q(S("car")), 1, 2],
    lambda r: [S("set!"), S("never-bound"), 1],
    lambda r: [S("let"), [[S("v"), [S("nosuch-fn"), 1]]], S("v")],
]


def shape_program(rnd, nf=3, wide=True, raise_p=0.12, depth=3, maxn=5, err_kinds=False):
    """One program of the shape-indexed family.  Returns list of top-level forms."""
    wr = list(WRAPPERS) + (WIDE_T if wide else [])

    def call():
        return [S("f%d" % rnd.randrange(nf)), [S("-"), S("n"), 1], rnd.randrange(3)]

    def leaf():
        x = rnd.random()
        if err_kinds and x < raise_p:
            return rnd.choice(ERR_LEAVES)(rnd)
        if x < raise_p:
            return [S("error"), Q(S("my-cond")), STR("boom")] if rnd.random() < 0.8 else [S("error"), Q(S("other-cond")), 1]
        if wide and x < raise_p + 0.02:
            return [S("boom")]
        return call()

    def form():
        if rnd.randrange(5) == 0:
            return [S("probe"), rnd.randrange(100), S("n"), S("k")]
        e = leaf()
        for _ in range(rnd.randrange(depth + 1)):
            e = rnd.choice(wr)[2](e, rnd)
        return [S("if"), [S("and"), [S(">"), S("n"), 0], [S("="), S("k"), rnd.randrange(3)]], e, Q(S("skip"))]

    forms = list(PRELUDE) + (list(ERR_PRELUDE) if err_kinds else [])
    for i in range(nf):
        body = [[S("probe"), Q(S("enter%d" % i)), S("n"), S("k")]] + [form() for _ in range(rnd.randrange(3))] + [form()]
        forms.append([S("defun"), S("f%d" % i), [S("n"), S("k")]] + body)
    forms.append([S("probe"), Q(S("result")), [S("f0"), 2 + rnd.randrange(maxn - 1), rnd.randrange(3)]])
    forms.append([S("probe"), Q(S("done"))])
    return forms


def loop_program(rnd, chain, n, mutual=False):
    """A tail loop whose recursive call sits under the given wrapper chain."""
    e = [S("loop"), [S("-"), S("n"), 1], [S("+"), S("acc"), 1]] if not mutual else [S("loop2"), [S("-"), S("n"), 1], [S("+"), S("acc"), 1]]
    for w in chain:
        e = w[2](e, rnd)
    forms = list(PRELUDE)
    forms.append([S("defun"), S("loop"), [S("n"), S("acc")],
                  [S("if"), [S("<="), S("n"), 0], [S("progn"), [S("probe"), Q(S("bottom")), S("acc")], S("acc")], e]])
    if mutual:
        forms.append([S("defun"), S("loop2"), [S("n"), S("acc")], [S("loop"), S("n"), S("acc")]])
    forms.append([S("probe"), Q(S("result")), [S("loop"), n, 0]])
    return forms


def growing_loop_program(rnd, iters=None):
    """A tail loop with a multi-form body: the non-last forms make ORDINARY (non-tail) calls - of a helper that recurses
    deeper on each iteration than the stack has ever been, and of the loop function itself - and only the last form is
    the tail call.  What a non-last form calls must run and return to it on every iteration, however the stack grew."""
    iters = iters or rnd.choice([3, 4, 5, 6])
    depth = rnd.choice([lambda i: [S("*"), i, i], lambda i: [S("*"), 3, i], lambda i: [S("+"), [S("*"), i, i], [S("*"), 2, i]],
                        lambda i: [S("if"), [S("="), [S("mod"), i, 2], 0], 0, [S("*"), 4, i]]])(S("i"))
    selfcall = rnd.choice([[S("walk"), 0, 0], [S("walk"), 0, 0], [S("walk"), 0, [S("-"), S("i"), 2]]])    # (the last one loops itself, over a smaller range)
    if selfcall[2] != 0:
        iters = min(iters, 4)
    wrap = rnd.choice([lambda e: e, lambda e: [S("progn"), e], lambda e: [S("let"), [[S("q"), 1]], e], lambda e: [S("probe"), Q(S("sub")), e],
                       lambda e: [S("list"), e], lambda e: [S("if"), S("true"), e, []]])
    pre = [[S("probe"), Q(S("pre")), S("i")],
           [S("deepen"), depth],
           [S("if"), [S(">"), S("i"), 0], wrap(selfcall), []],
           [S("probe"), Q(S("post")), S("i")]]
    rnd.shuffle(pre)
    if rnd.random() < 0.4:
        pre.append([S("if"), [S(">"), S("i"), 1], wrap([S("walk"), 0, 0]), []])
    last = [S("if"), [S(">="), S("i"), S("n")], [S("progn"), [S("probe"), Q(S("bottom")), S("i")], Q(S("done"))], [S("walk"), [S("+"), S("i"), 1], S("n")]]
    forms = [[S("defun"), S("deepen"), [S("k")], [S("if"), [S("<="), S("k"), 0], [S("progn"), [S("probe"), Q(S("deep"))], 0], [S("+"), 1, [S("deepen"), [S("-"), S("k"), 1]]]]],
             [S("defun"), S("walk"), [S("i"), S("n")]] + pre + [last],
             [S("probe"), Q(S("result")), [S("walk"), 0, iters]]]
    return forms


def chain_class(ch):
    cs = [w[1] for w in ch]
    return "B" if "B" in cs else ("N" if "N" in cs else ("X" if "X" in cs else "T"))


def boundary_loop(kind, n):
    """Loops whose recursive call is made *through* a blocking boundary, driven by a global
    counter: inside a macro body during expansion, inside load-string, inside handler-bind /
    ignore-errors.  These must never be collapsed."""
    call = {"macro-body": [S("mm")],
            "load-string": [S("load-string"), STR("(g)")],
            "handler-bind": [S("handler-bind"), [[S("condition"), [S("lambda"), [S("c"), S("&rest"), S("a")], S("c")]]], [S("g")]],
            "ignore-errors": [S("ignore-errors"), [S("g")]],
            # the retry shape: the recursive call is the tail call of the HANDLER of a handler-bind in tail position
            "handler-call": [S("handler-bind"), [[S("my-cond"), [S("lambda"), [S("c"), S("&rest"), S("a")], [S("g")]]]], [S("error"), Q(S("my-cond")), STR("again")]]}[kind]
    forms = [[S("set"), Q(S("cnt")), n],
             [S("defmacro"), S("mm"), [], [S("g")]],
             [S("defun"), S("g"), [],
              [S("if"), [S("<="), S("cnt"), 0],
               [S("progn"), [S("probe"), Q(S("bottom"))], 0],
               [S("progn"), [S("set!"), S("cnt"), [S("-"), S("cnt"), 1]], call]]],
             [S("probe"), Q(S("result")), [S("g")]]]
    return forms


def src(forms):
    return "\n".join(render(f) for f in forms)
