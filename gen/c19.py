"""C19  Static arity diagnostics agree with the evaluator's argument binding.

Bind.tla states the run-time binder and the linter's static summary as functions of a signature and TLC
checks the agreement theorem (soundness; completeness without &key; no invalid-number-of-arguments after
acceptance) for every well-formed signature shape up to the bound and for every signature of the REAL
registry (dumped from the code).  For each (signature, k, argument mode) the specification's predictions
(lint reports?, binder outcome) are replayed: the harness lints and evaluates the one-call program on the
real code and compares both.  Shadowing: Reach(ctx) is compared with what the evaluator actually reaches
and the lint verdict with Expected(ctx, k).
"""
import random, json
from vlib import *

CFG = """SPECIFICATION Spec
CONSTANTS MAXLEN = %d
 MAXK = %d
 MAXHIST = %d
INVARIANT Inv
CHECK_DEADLOCK FALSE
"""


def shape_formals(s):
    f = ["a%d" % i for i in range(s["req"])]
    if s["opt"]:
        f += ["&optional"] + ["o%d" % i for i in range(s["opt"])]
    if s["rest"]:
        f += ["&rest", "r"]
    if s["key"]:
        f += ["&key"] + ["k%d" % i for i in range(s["key"])]
    return f


def args_for(req, opt, keys, k, mode, lit=lambda i: str(i + 1)):
    a = []
    pos = min(k, req + opt)
    for i in range(pos):
        a.append(lit(i))
    rem = k - pos
    if mode == "kw" and keys:
        j = 0
        while rem >= 2:
            a += [":" + keys[j % len(keys)], lit(j)]
            rem -= 2
            j += 1
        if rem == 1:
            a.append(":" + keys[0])
    else:
        for i in range(rem):
            a.append(lit(pos + i))
    return a


def classify(ev):
    v = ev["v"]
    if v["t"] != "err":
        return "ok"
    msg = (ev.get("err") or {}).get("msg", "")
    if "invalid number of arguments" in msg:
        return "arity"
    if "odd number of keyword arguments" in msg or "argument is not a keyword" in msg or "unrecognized keyword argument" in msg:
        return "kw"
    return "ok"       # binding succeeded; the call failed later for another reason


SHADOW = lambda: "(lambda (a b) 'shadow)"


def shadow_program(ctx, k):
    X = " ".join("'(%d)" % (i + 1) for i in range(k))
    call = "(car %s)" % X if k else "(car)"
    lam = "(lambda (a b) 'shadow)"
    t = {
        "none": call,
        "global-before": "(defun car (a b) 'shadow)\n" + call,
        "global-after": call + "\n(defun car (a b) 'shadow)",
        "let-body": "(let ((car %s)) %s)" % (lam, call),
        "let-value": "(let ((car %s) (v %s)) v)" % (lam, call),
        "let-after": "(progn (let ((car %s)) 1) %s)" % (lam, call),
        "flet-body": "(flet ((car (a b) 'shadow)) %s)" % call,
        "flet-other-fn-body": "(flet ((car (a b) 'shadow) (g () %s)) (g))" % call,
        "flet-own-body": "(flet ((car (a b) %s)) (car 1 2))" % call,
        "labels-body": "(labels ((car (a b) 'shadow)) %s)" % call,
        "labels-own-body": "(labels ((car (a b) (if (nil? a) 'shadow %s))) (car 1 2))" % ("(car %s)" % " ".join(["()"] * k) if k else "(car)"),
        "labels-other-fn-body": "(labels ((car (a b) 'shadow) (g () %s)) (g))" % call,
        "lambda-param-body": "((lambda (car) %s) %s)" % (call, lam),
        "defun-param-body": "(defun h (car) %s)\n(h %s)" % (call, lam),
        "macrolet-body": "(macrolet ((car (a b) ''shadow)) %s)" % call,
        "let*-later-value": "(let* ((car %s) (v %s)) v)" % (lam, call),
        "let*-own-value": "(let* ((car %s)) car)" % call,
        "flet-param-body": "(flet ((g (car) %s)) (g %s))" % (call, lam),
        "labels-param-body": "(labels ((g (car) %s)) (g %s))" % (call, lam),
        "lambda-optional-param-body": "((lambda (&optional car) %s) %s)" % (call, lam),
        "let-value-lambda": "(let ((car %s) (g (lambda () %s))) (g))" % (lam, call),
    }
    return t[ctx]


def _same_pkg_redef(h):
    """does some package see two DIFFERENT definitions of f in this history?"""
    pkg, seen = "user", {}
    for g in h:
        if g in ("PA", "PB"):
            pkg = "pa" if g == "PA" else "pb"
        elif g in ("D1", "D2"):
            seen.setdefault(pkg, set()).add(g)
    return any(len(v) > 1 for v in seen.values())


def run(tier):
    V = Verdict("C19", tier)
    work = Work("C19")
    try:
        return _run(V, work, tier)
    finally:
        work.close()


def _run(V, work, tier):
    thorough = tier == "thorough"
    binary = build_driver()
    rc, out, err = run_driver(binary, ["registry"])
    if rc != 0:
        raise MachineryError("registry dump failed: " + err)
    reg = [json.loads(l) for l in out.splitlines() if l.strip()]
    sigs = []
    for r in reg:
        f = r["formals"] or []
        req = opt = key = 0
        rest = False
        mode = "req"
        wf = True
        for x in f:
            if x == "&optional":
                mode = "opt"
            elif x == "&rest":
                mode = "rest"
            elif x == "&key":
                mode = "key"
            elif mode == "req":
                req += 1
            elif mode == "opt":
                opt += 1
            elif mode == "rest":
                rest = True
            elif mode == "key":
                key += 1
        keys = f[f.index("&key") + 1:] if "&key" in f else []
        sigs.append({"name": r["name"], "kind": r["kind"], "req": req, "opt": opt, "rest": rest, "key": key, "keys": keys})
    V.coverage["registry_size"] = len(sigs)
    sigtext = "".join(json.dumps({k: s[k] for k in ("name", "kind", "req", "opt", "rest", "key")}) + "\n" for s in sigs)
    maxlen, maxk = (6, 9) if thorough else (5, 8)
    maxhist = 4 if thorough else 3
    res = run_tlc(work, "Bind", CFG % (maxlen, maxk, maxhist), files={"sigs.ndjson": sigtext}, timeout=1200, workers=4)
    V.tlc(res, "Bind: agreement theorem over all shapes of length <= %d x k <= %d and over the registry" % (maxlen, maxk))
    if res.violated:
        raise MachineryError("Bind agreement theorem fails inside the specification (design-level):\n" + res.raw[-2500:])
    pred = res.lines
    byname = {s["name"]: s for s in sigs}
    lintin, runin, meta = [], [], {}
    hist = []
    n = 0
    for p in pred:
        if p["src"] == "shape":
            fl = shape_formals(p)
            keys = ["k%d" % i for i in range(p["key"])]
            for mode in (("plain", "kw") if p["key"] else ("plain",)):
                cid = "s%d" % n
                n += 1
                src = "(defun f (%s) 0)\n(f %s)" % (" ".join(fl), " ".join(args_for(p["req"], p["opt"], keys, p["k"], mode)))
                lintin.append({"id": cid, "src": src})
                runin.append({"id": cid, "src": src, "cfg": {"nostdlib": True}})
                meta[cid] = ("shape", p, mode, src)
        elif p["src"] == "registry":
            s = byname[p["name"]]
            if p["name"] in ("probe", "boom", "capture"):
                continue
            for mode in (("plain", "kw") if s["key"] else ("plain",)):
                cid = "r%d" % n
                n += 1
                src = "(%s %s)" % (p["name"], " ".join(args_for(s["req"], s["opt"], s["keys"], p["k"], mode)))
                lintin.append({"id": cid, "src": src})
                runin.append({"id": cid, "src": src, "cfg": {"nostdlib": True, "maxsteps": 100000}})
                meta[cid] = ("registry", p, mode, src)
        elif p["src"] == "hist":
            hist.append(p)
        else:
            cid = "h%d" % n
            n += 1
            src = shadow_program(p["ctx"], p["k"])
            lintin.append({"id": cid, "src": src})
            runin.append({"id": cid, "src": src, "cfg": {"nostdlib": True}})
            meta[cid] = ("shadow", p, "plain", src)
    # the same direct calls at every place a call is evaluated, the binding lists written with parentheses AND with
    # square brackets (which read as quoted lists but ARE the usual spelling of bindings and clauses)
    PLACES = ["%s", "(let (OPEN h %s CLOSE) h)", "(let* (OPEN a 1 CLOSE OPEN h %s CLOSE) h)", "(flet (OPEN g () %s CLOSE) (g))", "(labels (OPEN g () %s CLOSE) (g))",
              "(cond OPEN (nil? %s) 1 CLOSE OPEN else 2 CLOSE)", "(handler-bind (OPEN my-c (lambda (c &rest r) %s) CLOSE) (error 'my-c 1))",
              "(let (OPEN f (lambda () %s) CLOSE) (funcall f))", "(list 1 (if true %s 0))", "(let (OPEN x 1 CLOSE) (let* (OPEN y (list %s) CLOSE) y))",
              "(progn (defun wrap () %s) (wrap))", "(dotimes (i 1) %s)", "(and true %s)", "(thread-first 1 (list %s))",
              # the call stands AFTER a quoted list in the same form, or in a form that encloses one (data ends where its list ends)
              "(list '(1 2) %s)", "(list '() %s)", "(list [1 2] %s)", "(list (quote (a b)) %s)", "(if (nil? '(1)) '() %s)", "(cond OPEN false '() CLOSE OPEN true '(x) %s CLOSE)",
              "(progn '(a (b)) %s)", "(let (OPEN q '(1) CLOSE) %s)", "(list (list '(1)) %s)", "(list '(1 (2 (3))) 0 %s)"]
    CALLS = [("car", "(car '(1) '(2))"), ("car", "(car '(1))"), ("car", "(car)"), ("add2", "(add2 1)"), ("add2", "(add2 1 2)"), ("add2", "(add2 1 2 3)"), ("cons", "(cons 1)"), ("if", "(if 1 2)")]
    for pl in PLACES:
        for style in ("paren", "bracket"):
            if style == "bracket" and "OPEN" not in pl:
                continue
            o, c = ("(", ")") if style == "paren" else ("[", "]")
            for head, call in CALLS:
                cid = "p%d" % n
                n += 1
                src = "(defun add2 (a b) (+ a b))\n" + (pl.replace("OPEN ", o).replace(" CLOSE", c) % call)
                lintin.append({"id": cid, "src": src})
                runin.append({"id": cid, "src": src, "cfg": {"nostdlib": True}})
                meta[cid] = ("place", {"k": -1, "head": head, "place": pl, "style": style}, "plain", src)
    # lists that LOOK like a call with the wrong number of arguments but are never evaluated as one: data inside quoted
    # lists, loop variables, binding pairs, formal parameter lists, handler bindings; every program runs without an error
    NONCALLS = [("quoted-nested", "car", "(set 'x '(1 (car)))"), ("quoted-nested", "car", "(set 'x '((car)))"), ("quoted-nested", "cons", "(set 'x '(a (b (cons 1))))"),
                ("quote-form", "car", "(set 'x (quote (car)))"), ("quote-form-nested", "car", "(set 'x (quote (1 (car))))"), ("quoted-flat", "car", "(set 'x '(car))"),
                ("dotimes-var", "car", "(dotimes (car 2) (list car))"), ("dotimes-var", "nth", "(dotimes (nth 3) (list nth))"),
                ("let-pair", "cons", "(let ((cons 1)) cons)"), ("let-pair", "cons", "(let ([cons 1]) cons)"), ("let*-pair", "cons", "(let* ((car 1) (cons car)) cons)"),
                ("lambda-formals", "car", "((lambda (car) car) 1)"), ("lambda-formals", "cons", "((lambda (cons) cons) 1)"), ("defun-formals", "car", "(defun usecar (car) car)\n(usecar 1)"),
                ("defun-formals", "cons", "(defun usecons (cons) cons)\n(usecons 1)"), ("defmacro-formals", "car", "(defmacro qm (car) (list 'quote car))\n(qm 1)"),
                ("handler-binding", "cons", "(handler-bind ((cons (lambda (c &rest r) 1))) (error 'cons 1))"), ("flet-header", "car", "(flet ((car () 1)) 2)"),
                ("labels-header", "cons", "(labels ((cons (a) a)) 2)"), ("macrolet-header", "car", "(macrolet ((car () 1)) 2)"), ("cond-clause", "car", "(cond ((car '(1)) 1))"),
                ("keyword-data", "car", "(list :car 1)"), ("string-data", "car", "(list \"(car)\")")]
    for place, head, src in NONCALLS:
        cid = "n%d" % n
        n += 1
        lintin.append({"id": cid, "src": src})
        runin.append({"id": cid, "src": src, "cfg": {"nostdlib": True}})
        meta[cid] = ("noncall", {"k": -1, "head": head, "place": place}, "plain", src)
    # package-qualified heads: a function of ANOTHER package that shares its bare name with a builtin of different arity
    # (defined in a file the linter is not shown), and builtins called through their own package name
    CFGPKG = "(in-package 'cfg)\n(defun get (m key default) default)\n(defun car (a b) (list a b))\n(defun cons (a) a)\n(export 'get 'car 'cons)\n(in-package 'user)"
    for head, call in [("get", "(cfg:get 1 2 3)"), ("get", "(cfg:get 1 2)"), ("car", "(cfg:car 1 2)"), ("car", "(cfg:car '(1))"), ("cons", "(cfg:cons 1)"), ("cons", "(cfg:cons 1 2)"),
                       ("car", "(lisp:car '(1))"), ("car", "(lisp:car '(1) '(2))"), ("cons", "(lisp:cons 1)"), ("get", "(lisp:get (sorted-map) \"a\")")]:
        for pl in ("%s", "(list %s)", "(let ([v %s]) v)"):
            cid = "q%d" % n
            n += 1
            src = pl % call
            lintin.append({"id": cid, "src": src})
            runin.append({"id": cid, "seq": [CFGPKG, src], "cfg": {"nostdlib": True}})
            meta[cid] = ("qual", {"k": -1, "head": head, "call": call}, "plain", src)
    # definition histories (Bind.tla HOutcome / HExpect): the file is linted whole; the outcome of the call at position i
    # is observed by loading the forms up to i without the earlier calls the specification says fail
    HTEXT = {"D1": "(defun f (a) a)", "D2": "(defun f (a b) a)", "C1": "(f 1)", "C2": "(f 1 2)", "PA": "(in-package 'pa)", "PB": "(in-package 'pb)",
             "BP": "(defun g (car) car)", "B0": "(car)", "B1": "(car '(1))"}
    hmeta = {}
    for p in hist:
        cid = "H%d" % n
        n += 1
        forms = p["h"]
        src = "\n".join(HTEXT[f] for f in forms)
        lintin.append({"id": cid, "src": src})
        hmeta[cid] = (p, src)
        for i, f in enumerate(forms):
            if p["out"][i] == "-":
                continue
            pre = [HTEXT[g] for j, g in enumerate(forms[:i]) if p["out"][j] in ("-", "ok")]
            runin.append({"id": "%s@%d" % (cid, i), "src": "\n".join(pre + [HTEXT[f]]), "cfg": {"nostdlib": True}})
    lints = {r["id"]: r for r in driver_json(binary, ["lint"], lintin)}
    runs = {r["id"]: r["runs"][0]["evals"][-1] for r in driver_json(binary, ["run"], [dict(r, seq=r.get("seq") or [r["src"]]) for r in runin])}
    cnt = {"shape": 0, "registry": 0, "shadow": 0, "place": 0, "qual": 0, "noncall": 0, "history": 0, "history_calls": 0, "history_blind_positions": 0}
    for cid, (p, src) in hmeta.items():
        cnt["history"] += 1
        L = lints[cid]
        if L.get("err"):
            raise MachineryError("lint could not parse a generated history: %s\n%s" % (L["err"], src))
        diags = [d for d in (L.get("diags") or []) if d["analyzer"] in ("builtin-arity", "user-arity", "if-arity")]
        for i, f in enumerate(p["h"]):
            want = p["out"][i]
            if want == "-":
                continue
            cnt["history_calls"] += 1
            ev = runs["%s@%d" % (cid, i)]
            msg = (ev.get("err") or {}).get("msg", "") if ev["v"]["t"] == "err" else ""
            real = "ok" if ev["v"]["t"] != "err" else "arity" if "invalid number of arguments" in msg else "unbound" if "unbound symbol" in msg else "other:" + msg
            tag = "form %d %s of the file %s" % (i + 1, HTEXT[f], " ".join(HTEXT[g] for g in p["h"]))
            if real != want:
                V.add(None, "definition history: the evaluator differs from the specification (%s): real %s, specification %s" % (tag, real, want), {"src": src, "position": i, "real": real, "expected": want})
                continue
            head = "car" if f in ("B0", "B1") else "f"
            reported = any(d["line"] == i + 1 and d["msg"].startswith(head + " ") for d in diags)
            exp = p["expect"][i]
            if p["blind"][i] != (exp == "must") and exp != "may":
                cnt["history_blind_positions"] += 1
            # the finding is named by the situation, not by the program: which earlier / later forms make a history-blind
            # summary wrong at this position (Bind.tla FlowBlind)
            # a finding is named by the SITUATION (which other forms of the file make a history-blind summary wrong at
            # this position, Bind.tla FlowBlind); where the history-blind summary is right, a wrong answer has no name
            why = "param-elsewhere" if f == "B0" else "redefined-later" if _same_pkg_redef(p["h"]) else "another-package"
            if exp == "must" and not reported:
                V.add(("history-unchecked:" + why) if not p["blind"][i] else None, "lint accepts a call that fails with invalid number of arguments (%s)" % tag, {"src": src, "position": i, "diags": diags})
            if exp == "mustnot" and reported:
                V.add(("history-overchecked:" + why) if p["blind"][i] else None, "lint reports a call that binds at run time (%s)" % tag, {"src": src, "position": i, "diags": diags})
    for cid, (kind, p, mode, src) in meta.items():
        cnt[kind] += 1
        L = lints[cid]
        if L.get("err"):
            raise MachineryError("lint could not parse a generated program: %s\n%s" % (L["err"], src))
        diags = [d for d in (L.get("diags") or []) if d["analyzer"] in ("builtin-arity", "user-arity", "if-arity")]
        ev = runs[cid]
        if kind == "qual":
            reported = any(d["msg"].startswith(p["head"] + " ") for d in diags)
            dyn = classify(ev)
            if reported and dyn == "ok":
                V.add(None, "lint reports a package-qualified call that binds at run time: %s" % p["call"], {"src": src, "diags": diags})
            # (the linter is not shown the file that defines cfg's functions, so only calls of the language package's own
            # builtins must be reported when they fail)
            if not reported and dyn == "arity" and p["call"].startswith("(lisp:"):
                V.add(None, "lint accepts a package-qualified call that fails with invalid number of arguments: %s" % p["call"], {"src": src})
            continue
        if kind == "noncall":
            reported = any(d["msg"].startswith(p["head"] + " ") for d in diags)
            dyn = classify(ev)
            if dyn != "ok":
                raise MachineryError("a non-call program does not run: %s (%s)" % (src, dyn))
            if reported:
                V.add("noncall-reported:" + p["place"], "lint reports a list that is never evaluated as a call (%s): %s" % (p["place"], src.splitlines()[0]), {"src": src, "diags": diags})
            continue
        if kind == "place":
            head = p["head"]
            reported = any(d["msg"].startswith(head + " ") for d in diags)
            dyn = classify(ev)
            tag = "%s written with %s bindings at %s" % (src.splitlines()[-1], p["style"], p["place"])
            if reported and dyn == "ok":
                V.add(None, "lint reports a call that binds at run time (%s)" % tag, {"src": src, "diags": diags})
            if not reported and dyn == "arity":
                V.add(None, "lint accepts a call that fails with invalid number of arguments (%s)" % tag, {"src": src})
            continue
        if kind in ("shape", "registry"):
            head = "f" if kind == "shape" else p["name"]
            reported = any(d["msg"].startswith(head + " ") for d in diags)
            dyn = classify(ev)
            want_dyn = p[mode]
            tag = "%s %s k=%d mode=%s" % (kind, head if kind == "registry" else json.dumps({x: p[x] for x in ("req", "opt", "rest", "key")}), p["k"], mode)
            if reported != p["lint"]:
                V.add(None, "lint verdict differs from the specification's static summary (%s): lint %s, specification %s" % (tag, reported, p["lint"]),
                      {"src": src, "diags": diags, "expected_lint": p["lint"]})
            if dyn != want_dyn:
                V.add(None, "run-time binder differs from the specification (%s): real %s, specification %s" % (tag, dyn, want_dyn),
                      {"src": src, "real": dyn, "msg": (ev.get("err") or {}).get("msg"), "expected": want_dyn})
            # the property itself, on the real answers
            if reported and dyn == "ok":
                V.add(None, "lint reports a call that binds at run time (%s)" % tag, {"src": src, "diags": diags})
            if not reported and dyn == "arity":
                V.add(None, "lint accepts a call that fails with invalid number of arguments (%s)" % tag, {"src": src})
        else:
            # which binding did the evaluator reach?
            k = p["k"]
            val = ev["v"]
            if k == 2:
                reached = val.get("t") == "sym" and val.get("s") == "shadow"
                if reached != p["reach"]:
                    V.add(None, "scope model disagrees with the evaluator on context %s: reached shadow=%s" % (p["ctx"], reached), {"src": src, "value": val})
            arity_diags = [d for d in diags if d["msg"].startswith("car ") and ("got %d" % k) in d["msg"]]
            if p["expect"] == "must" and not arity_diags:
                V.add("shadow-unchecked:" + p["ctx"], "a call that reaches the builtin is not arity-checked because the name is shadowed elsewhere (context %s, k=%d)" % (p["ctx"], k),
                      {"src": src, "ctx": p["ctx"], "k": k, "runtime": classify(ev)})
            if p["expect"] == "mustnot" and arity_diags:
                V.add("shadow-overchecked:" + p["ctx"], "a call that binds correctly is reported (context %s, k=%d)" % (p["ctx"], k), {"src": src, "diags": arity_diags})
        if len(V.coverage["samples"]) < 5 and p.get("k") == 3:
            V.sample({"program": src, "lint_reported": [d["msg"] for d in diags], "runtime": classify(ev)})
    V.coverage["cases"] = cnt
    V.coverage["traces_validated_against_impl"] = len(meta)
    V.coverage["exhaustive"] = True
    V.coverage["explanation"] = "every well-formed shape of <= %d names x k <= %d; every registry name x k in 0..max+2; 21 shadowing contexts x k in 0..3; every file of <= %d top-level forms over two definitions of one name, its calls, two package switches, a builtin-named parameter elsewhere and direct builtin calls" % (maxlen, maxk, maxhist)
    return V.finish()
