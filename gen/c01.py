"""C01  Core-language programs evaluate as the language reference prescribes.

Machine.tla is the independent definitional interpreter (structured after lisp/env.go so that it can be bound):
left-to-right evaluation, innermost lexical binding then current package, closures keeping their environment,
set! observed by every closure sharing the binding, parameter binding (required, &optional, &rest, &key), the
special operators, macros, and the core list / numeric / predicate / higher-order builtins on integers,
symbols, strings-as-atoms and lists.  TLC computes the transcript of
  (a) the SCOPE family, exhaustive: every nesting of three binders from {let, let*, lambda parameter, flet,
      labels, defun parameter} over one name x every pattern of set! / closure capture at each level, and
  (b) every formal list of <= 3 names over {required, &optional, &rest, &key} x 0..4 arguments (plain and
      keyword-shaped), called directly, through funcall and through apply, and
  (c) seeded typed random programs (depth <= 5) over the whole modelled language including ill-typed and
      wrong-arity calls,
and each is compared with the real interpreter: value or error condition of every form, effect transcript,
step counts (binding B1).  Outside the Machine (stated in DESIGN 7): floats, int64 boundaries, string contents,
vectors / maps / bytes (their sharing discipline is C11).
"""
import random, json, itertools, math
from vlib import *
import progs as P, mach
from progs import S, Q, STR

GUARD = lambda f: [S("handler-bind"), [[S("condition"), [S("lambda"), [S("c"), S("&rest"), S("r")], [S("probe"), Q(S("err")), S("c")], Q(S("e"))]]], f]


# ---------------------------------------------------------------- (a) scope family
BINDERS = ["let", "let*", "lambda", "flet", "labels", "defun", "dotimes"]


def scope_program(binders, muts, selfref=False):
    """binders: 3 names; muts: per level (capture?, set!-before-inner?, set!-after-inner?);
    selfref: the expression that initialises each binding reads the OUTER binding of the same name"""
    forms = [[S("set"), Q(S("x")), 0], [S("set"), Q(S("clos")), []]]
    body = [S("probe"), Q(S("innermost")), S("x")]
    calls = []
    for lvl in (3, 2, 1):
        b = binders[lvl - 1]
        cap, pre, post = muts[lvl - 1]
        inner = []
        if cap:
            inner.append([S("set"), Q(S("c%d" % lvl)), [S("lambda"), [], [S("list"), lvl, S("x")]]])
        if pre:
            inner.append([S("set!"), S("x"), [S("+"), S("x"), 10 * lvl]])
        inner.append(body)
        if post:
            inner.append([S("set!"), S("x"), [S("+"), S("x"), 100 * lvl]])
        inner.append([S("probe"), Q(S("level")), lvl, S("x")] + ([[S("funcall"), Q(S("c%d" % lvl))]] if cap else []))
        v = [S("+"), S("x"), lvl] if selfref else lvl
        if b == "let":
            body = [S("let"), [[S("x"), v]]] + inner
        elif b == "let*":
            body = [S("let*"), [[S("x"), v], [S("y"), [S("+"), S("x"), 1]]]] + inner + [[S("probe"), Q(S("y")), S("y")]]
        elif b == "lambda":
            body = [[S("lambda"), [S("x")]] + inner, v]
        elif b == "flet":
            body = [S("flet"), [[S("h%d" % lvl), [S("x")]] + inner], [S("h%d" % lvl), v]]
        elif b == "labels":
            body = [S("labels"), [[S("h%d" % lvl), [S("x")]] + inner], [S("h%d" % lvl), v]]
        elif b == "defun":
            forms.append([S("defun"), S("g%d" % lvl), [S("x")], [S("probe"), Q(S("in-defun")), S("x")], S("x")])
            body = [S("let"), [[S("x"), [S("g%d" % lvl), v]]]] + inner
        elif b == "dotimes":
            body = [S("dotimes"), [S("x"), [S("+"), 2, [S("*"), 0, S("x")]] if selfref else 2]] + inner
        if cap:
            calls.append([S("probe"), Q(S("after")), lvl, GUARD([S("funcall"), Q(S("c%d" % lvl))])])
    forms.append(GUARD(body))
    forms.append([S("probe"), Q(S("global-x")), S("x")])
    forms += calls
    return forms


# ---------------------------------------------------------------- (b) parameter binding
def formal_lists(maxn=3):
    out = []
    for req in range(0, maxn + 1):
        for opt in range(0, maxn + 1 - req):
            for tail in ("none", "rest", "key1", "key2"):
                k = {"none": 0, "rest": 1, "key1": 1, "key2": 2}[tail]
                if req + opt + k > maxn:
                    continue
                f = [S("r%d" % i) for i in range(req)]
                if opt:
                    f += [S("&optional")] + [S("o%d" % i) for i in range(opt)]
                if tail == "rest":
                    f += [S("&rest"), S("more")]
                elif tail.startswith("key"):
                    f += [S("&key")] + [S("k%d" % i) for i in range(k)]
                names = [x for x in f if not x[1].startswith("&")]
                out.append((f, names, req, opt, tail))
    return out


def bind_program(f, names, req, opt, tail, nargs, mode, via):
    args = [10 + i for i in range(min(nargs, req + opt))]
    rem = nargs - len(args)
    if mode == "kw" and tail.startswith("key"):
        keys = ["k0", "k1"][:1 if tail == "key1" else 2]
        j = 0
        while rem >= 2:
            args += [S(":" + keys[j % len(keys)]), 50 + j]
            rem -= 2
            j += 1
        if rem:
            args.append(S(":k0"))
    elif mode == "badkw":
        args += [S(":nosuch"), 1][:rem] if rem else []
    else:
        args += [20 + i for i in range(rem)]
    defn = [S("defun"), S("target"), f, [S("list")] + names]
    if via == "direct":
        call = [S("target")] + args
    elif via == "funcall":
        call = [S("funcall"), Q(S("target"))] + args
    else:
        call = [S("apply"), Q(S("target"))] + args[:-1] + [[S("list")] + args[-1:]] if args else [S("apply"), Q(S("target")), []]
    return [defn, [S("probe"), Q(S("bound")), GUARD(call)]]


# ---------------------------------------------------------------- (c) typed random programs
class Gen:
    def __init__(self, rnd):
        self.rnd = rnd
        self.ints = ["a", "b"]
        self.lists = ["l1"]
        self.funs = ["inc", "add"]

    def int_(self, d):
        r = self.rnd
        if d <= 0 or r.random() < 0.25:
            return r.choice([r.randrange(-3, 6), S(r.choice(self.ints))])
        c = r.randrange(14)
        if c < 3:
            return [S(r.choice(["+", "-", "*"])), self.int_(d - 1), self.int_(d - 1)]
        if c == 3:
            return [S("if"), self.bool_(d - 1), self.int_(d - 1), self.int_(d - 1)]
        if c == 4:
            return [S("let"), [[S("a"), self.int_(d - 1)]], self.int_(d - 1)]
        if c == 5:
            return [S("let*"), [[S("a"), self.int_(d - 1)], [S("b"), [S("+"), S("a"), 1]]], self.int_(d - 1)]
        if c == 6:
            return [S("length"), self.list_(d - 1)]
        if c == 7:
            return [S("foldl"), S("add"), self.int_(d - 2), self.list_(d - 1)]
        if c == 8:
            return [S("progn"), [S("set!"), S("a"), self.int_(d - 1)], S("a")]
        if c == 9:
            return [[S("lambda"), [S("b")], self.int_(d - 1)], self.int_(d - 1)]
        if c == 10:
            return [S(r.choice(["inc", "add"]))] + [self.int_(d - 1) for _ in range(r.choice([1, 2, 2, 3, 0]))]    # sometimes wrong arity
        if c == 11:
            return [S(r.choice(["max", "min", "mod"])), self.int_(d - 1), r.choice([2, 3, S("a")])]
        if c == 12:
            return [S("nth"), self.seq_(d - 1), r.randrange(3)]        # may be nil: ill-typed uses follow
        if r.random() < 0.5:
            return r.choice([[S("length"), self.vec_(d - 1)], [S("length"), self.map_(d - 1)], [S("length"), self.str_(d - 1)], [S("aref"), self.vec_(d - 1), r.randrange(3)],
                             [S("first"), self.vec_(d - 1)], [S("second"), self.seq_(d - 1)], [S("foldl"), S("add"), 0, self.vec_(d - 1)],
                             [S("get"), self.map_(d - 1), r.choice(self.KEYS)]])
        return [S("car"), self.list_(d - 1)]

    KEYS = [STR("a"), STR("b"), STR("c"), Q(S("a")), Q(S("k")), Q(S("x"))]

    def vec_(self, d):
        r = self.rnd
        if d <= 0 or r.random() < 0.25:
            return r.choice([[S("vector"), 1, 2, 3], [S("vector")], [S("vector"), S("a"), 7], S("v1")])
        c = r.randrange(7)
        if c == 0:
            return [S("vector")] + [self.int_(d - 1) for _ in range(r.randrange(4))]
        if c == 1:
            return [S("append"), Q(S("vector")), self.seq_(d - 1), self.int_(d - 1)]
        if c == 2:
            return [S("map"), Q(S("vector")), r.choice([S("inc"), [S("lambda"), [S("e")], [S("*"), S("e"), 2]]]), self.seq_(d - 1)]
        if c == 3:
            return [S("reverse"), Q(S("vector")), self.seq_(d - 1)]
        if c == 4:
            return [S("concat"), Q(S("vector")), self.seq_(d - 1), self.seq_(d - 1)]
        if c == 5:
            return [S(r.choice(["select", "reject"])), Q(S("vector")), [S("lambda"), [S("e")], [S(">"), S("e"), self.int_(0)]], self.seq_(d - 1)]
        if r.random() < 0.5:
            return r.choice([[S("slice"), Q(S("vector")), self.seq_(d - 1), r.randrange(0, 3), r.randrange(0, 4)],
                             [S("insert-index"), Q(S("vector")), self.seq_(d - 1), r.randrange(0, 3), self.int_(d - 1)],
                             [S("zip"), Q(S("vector")), self.seq_(d - 1), self.seq_(d - 1)]])
        return [S("if"), self.bool_(d - 1), self.vec_(d - 1), self.vec_(d - 1)]

    def str_(self, d):
        r = self.rnd
        if d <= 0 or r.random() < 0.35:
            return r.choice([STR("a"), STR("bc"), STR(""), STR("a b"), S("s1")])
        c = r.randrange(5)
        if c == 0:
            return [S("concat"), Q(S("string"))] + [self.str_(d - 1) for _ in range(r.randrange(0, 4))]
        if c == 1:
            return [S("to-string"), self.int_(d - 1)]
        if c == 2:
            return [S("to-string"), r.choice([Q(S("sym")), STR("x"), S("true")])]
        if c == 3:
            return [S("if"), self.bool_(d - 1), self.str_(d - 1), self.str_(d - 1)]
        return [S("let"), [[S("t"), self.str_(d - 1)]], [S("concat"), Q(S("string")), S("t"), S("t")]]

    def seq_(self, d):
        return self.vec_(d) if self.rnd.random() < 0.5 else self.list_(d)

    def map_(self, d):
        r = self.rnd
        if d <= 0 or r.random() < 0.3:
            return r.choice([[S("sorted-map")], [S("sorted-map"), STR("a"), 1, Q(S("k")), 2], [S("sorted-map"), Q(S("x")), 5, STR("b"), 6, STR("a"), 7], S("m1")])
        c = r.randrange(4)
        if c == 0:
            ks = r.sample(self.KEYS, r.randrange(1, 4))
            out = [S("sorted-map")]
            for k in ks:
                out += [k, self.int_(d - 1)]
            return out
        if c == 1:
            return [S("assoc"), self.map_(d - 1), r.choice(self.KEYS), self.int_(d - 1)]
        if c == 2:
            return [S("dissoc"), self.map_(d - 1), r.choice(self.KEYS)]
        return [S("if"), self.bool_(d - 1), self.map_(d - 1), self.map_(d - 1)]

    def data_(self, d):
        """an expression whose VALUE is a vector, a map or a mixed structure: printed by the probe"""
        r = self.rnd
        c = r.randrange(7)
        if c == 6:
            return r.choice([self.str_(d), [S("list"), self.str_(d - 1), [S("to-string"), self.int_(d - 1)]], [S("vector"), self.str_(d - 1)]])
        if c == 0:
            return self.vec_(d)
        if c == 1:
            return self.map_(d)
        if c == 2:
            return [S("keys"), self.map_(d)]
        if c == 3:
            return [S("list"), self.vec_(d - 1), self.map_(d - 1), [S("get"), self.map_(d - 1), r.choice(self.KEYS)]]
        if c == 4:
            return [S("rest"), self.vec_(d)]
        return [S("vector"), self.list_(d - 1), self.vec_(d - 1), [S("first"), self.seq_(d - 1)]]

    def num_(self, d):
        """a numeric expression that may be a float: only + - * and binders, never compared or indexed with"""
        r = self.rnd
        if d <= 0 or r.random() < 0.3:
            return r.choice([0.5, 1.5, -2.5, 2.0, 0.0, r.randrange(-3, 6), 0, S(r.choice(self.ints))])
        c = r.randrange(6)
        if c < 3:
            return [S(r.choice(["+", "-", "*", "*", "/", "/"]))] + [self.num_(d - 1) for _ in range(r.choice([0, 1, 2, 2, 3, 4]))]
        if c == 3:
            return [S("let"), [[S("f"), self.num_(d - 1)]], [S(r.choice(["+", "*"])), S("f"), self.num_(d - 1)]]
        if c == 4:
            return [S("if"), self.bool_(d - 1), self.num_(d - 1), self.num_(d - 1)]
        return [[S("lambda"), [S("g")], [S("*"), S("g"), self.num_(d - 1)]], self.num_(d - 1)]

    def tsf_(self, d):
        """a float the machine tracks exactly: literals on the grid and their sums / differences with ints"""
        r = self.rnd
        if d <= 0 or r.random() < 0.5:
            return r.choice([0.5, 1.5, -2.5, 2.0, 0.0, r.randrange(-3, 6)])
        return [S(r.choice(["+", "-"])), self.tsf_(d - 1), self.tsf_(d - 1)]

    def bool_(self, d):
        r = self.rnd
        if d <= 0:
            return r.choice([S("true"), S("false"), []])
        c = r.randrange(9)
        if c == 8:
            if r.random() < 0.6:
                return r.choice([[S(r.choice(["vector?", "list?", "sorted-map?", "array?", "string?"])), self.data_(d - 1)],
                                 [S("empty?"), self.vec_(d - 1)], [S("empty?"), self.map_(d - 1)],
                                 [S("equal?"), self.vec_(d - 1), self.seq_(d - 1)], [S("equal?"), self.map_(d - 1), self.map_(d - 1)],
                                 [S("key?"), self.map_(d - 1), r.choice(self.KEYS)],
                                 [S("string="), self.str_(d - 1), self.str_(d - 1)], [S("empty?"), self.str_(d - 1)], [S("equal?"), self.str_(d - 1), self.str_(d - 1)],
                                 [S("string?"), r.choice([self.str_(d - 1), self.int_(d - 1)])],
                                 [S(r.choice(["any?", "all?"])), [S("lambda"), [S("e")], [S(">"), S("e"), 1]], self.vec_(d - 1)]])
            return [S(r.choice(["float?", "int?", "number?"])), self.num_(d - 1)]
        if c < 2:
            if r.random() < 0.25:
                return [S(r.choice(["<", ">", "=", "<=", ">="])), self.tsf_(2), self.tsf_(2)]
            return [S(r.choice(["<", ">", "=", "<=", ">="])), self.int_(d - 1), self.int_(d - 1)]
        if c == 2:
            return [S("and"), self.bool_(d - 1), self.bool_(d - 1)]
        if c == 3:
            return [S("or"), self.bool_(d - 1), self.bool_(d - 1)]
        if c == 4:
            return [S("not"), self.bool_(d - 1)]
        if c == 5:
            return [S(r.choice(["nil?", "empty?", "list?"])), self.list_(d - 1)]
        if c == 6:
            return [S("any?"), [S("lambda"), [S("e")], [S(">"), S("e"), self.int_(0)]], self.list_(d - 1)]
        return [S("equal?"), self.list_(d - 1), self.list_(d - 1)]

    def list_(self, d):
        r = self.rnd
        if d <= 0 or r.random() < 0.2:
            return r.choice([Q([1, 2, 3]), S("l1"), [], [S("list"), 4, 5]])
        c = r.randrange(10)
        if c == 0:
            return [S("list")] + [self.int_(d - 1) for _ in range(r.randrange(4))]
        if c == 1:
            return [S("cons"), self.int_(d - 1), self.list_(d - 1)]
        if c == 2:
            return [S(r.choice(["cdr", "rest"])), self.list_(d - 1)]
        if c == 3:
            return [S("map"), Q(S("list")), r.choice([S("inc"), [S("lambda"), [S("e")], self.int_(d - 2) if r.random() < 0.5 else [S("*"), S("e"), 2]]]), self.list_(d - 1)]
        if c == 4:
            return [S(r.choice(["select", "reject"])), Q(S("list")), [S("lambda"), [S("e")], [S(">"), S("e"), self.int_(0)]], self.list_(d - 1)]
        if c == 5:
            return [S("reverse"), Q(S("list")), self.list_(d - 1)]
        if c == 6:
            return [S("concat"), Q(S("list")), self.list_(d - 1), self.list_(d - 1)]
        if c == 7:
            return [S("append"), Q(S("list")), self.list_(d - 1), self.int_(d - 1)]
        if c == 8:
            if r.random() < 0.5:
                return r.choice([[S("slice"), Q(S("list")), self.seq_(d - 1), r.randrange(0, 3), r.randrange(0, 4)],
                                 [S("make-sequence"), self.int_(d - 1), self.int_(d - 1)], [S("make-sequence"), r.randrange(-2, 3), r.randrange(0, 7), r.randrange(0, 4)],
                                 [S("zip"), Q(S("list")), self.seq_(d - 1), self.seq_(d - 1)], [S("zip"), Q(S("list")), self.list_(d - 1)],
                                 [S("insert-index"), Q(S("list")), self.seq_(d - 1), r.randrange(0, 4), self.int_(d - 1)]])
            return [S("if"), self.bool_(d - 1), self.list_(d - 1), self.list_(d - 1)]
        return [S("cond"), [self.bool_(d - 1), self.list_(d - 1)], [S(":else"), self.list_(d - 1)]]

    def illtyped(self, d):
        r = self.rnd
        return r.choice([[S("string="), self.str_(d), self.int_(d)], [S("concat"), Q(S("string")), self.str_(d), self.int_(d)], [S("to-string"), self.list_(d)], [S("string="), self.str_(d)],
                         [S("car"), self.vec_(d)], [S("cdr"), self.vec_(d)], [S("get"), self.vec_(d), 0], [S("get"), self.map_(d), 1], [S("aref"), self.vec_(d), 7],
                         [S("aref"), self.list_(d), 0], [S("nth"), self.vec_(d), -1], [S("sorted-map"), STR("a")], [S("sorted-map"), 1, 2], [S("keys"), self.vec_(d)],
                         [S("cons"), 1, self.vec_(d)], [S("foldl"), S("add"), 0, self.map_(d)], [S("first"), self.map_(d)], [S("map"), Q(S("sorted-map")), S("inc"), self.list_(d)],
                         [S("+"), self.list_(d), 1], [S("car"), self.int_(d)], [S("length"), self.int_(d)], [self.int_(d), 1],
                         [S("foldl"), 5, 0, self.list_(d)], [S("nth"), self.list_(d), self.list_(d)], [S("cons"), 1, self.int_(d)],
                         [S("undefined-fn"), 1], S("undefined-var"), [S("set!"), S("nope"), 1], [S("if"), 1, 2], [S("let"), [[S("a")]], 1]])


def random_program(rnd):
    g = Gen(rnd)
    forms = [[S("set"), Q(S("a")), rnd.randrange(5)], [S("set"), Q(S("b")), rnd.randrange(5)], [S("set"), Q(S("l1")), Q([3, 1, 2])],
             [S("set"), Q(S("s1")), STR("xy")], [S("set"), Q(S("v1")), [S("vector"), 4, 0, 9]], [S("set"), Q(S("m1")), [S("sorted-map"), STR("b"), 2, Q(S("a")), 1]],
             [S("defun"), S("inc"), [S("n")], [S("+"), S("n"), 1]],
             [S("defun"), S("add"), [S("p"), S("q")], [S("+"), S("p"), S("q")]],
             [S("defun"), S("make-counter"), [], [S("let"), [[S("n"), 0]], [S("lambda"), [], [S("set!"), S("n"), [S("+"), S("n"), 1]], S("n")]]],
             [S("set"), Q(S("ctr")), [S("make-counter")]]]
    for _ in range(rnd.randrange(3, 7)):
        k = rnd.random()
        e = g.int_(4) if k < 0.25 else g.num_(3) if k < 0.35 else g.list_(4) if k < 0.5 else g.data_(3) if k < 0.7 else g.bool_(4) if k < 0.85 else g.illtyped(2)
        if rnd.random() < 0.15:
            e = [S("list"), [S("funcall"), Q(S("ctr"))], e, [S("funcall"), Q(S("ctr"))]]
        forms.append([S("probe"), Q(S("v")), GUARD(e)])
    return forms


def closure_loop_program(w, mutual):
    """closures created in successive iterations of a TAIL loop capture that iteration's own parameters: each keeps its
    own binding (reading it later, and assigning to it, is private to that closure)"""
    call = [S("collect2" if mutual else "collect"), [S("-"), S("i"), 1], [S("cons"), [S("lambda"), [], [S("set!"), S("i"), [S("+"), S("i"), 10]], S("i")], S("acc")]]
    e = w[2](call, None)
    forms = list(P.PRELUDE)
    forms.append([S("defun"), S("collect"), [S("i"), S("acc")], [S("if"), [S("<"), S("i"), 0], S("acc"), e]])
    if mutual:
        forms.append([S("defun"), S("collect2"), [S("i"), S("acc")], [S("collect"), S("i"), S("acc")]])
    forms.append([S("set"), Q(S("cs")), GUARD([S("collect"), 2, []])])
    call_all = [S("map"), Q(S("list")), [S("lambda"), [S("f")], [S("funcall"), S("f")]], S("cs")]
    forms.append([S("probe"), Q(S("first")), GUARD(call_all)])
    forms.append([S("probe"), Q(S("second")), GUARD(call_all)])
    return forms


# ---------------------------------------------------------------- leaf law: the numeric tower at the boundaries
# (TLC's integers are 32-bit and it has no floats: what the Machine states for small numbers - int if every argument is
# an int, wraparound-free there - is continued here to the 64-bit boundaries with Python's exact integers as the oracle)
M64 = 1 << 64


def wrap(n):
    n &= M64 - 1
    return n - M64 if n >= (1 << 63) else n


def arith_oracle(op, args):
    """('int', n) | ('float', f) | ('float-any',) for NaN / infinities"""
    isf = any(isinstance(a, float) for a in args)
    if op == "mod":
        a, b = args
        if b == 0:
            return ("error",)
        q = abs(a) // abs(b)
        q = q if (a >= 0) == (b >= 0) else -q              # truncated division: the sign of the dividend
        return ("int", wrap(a - b * q))
    if op == "pow":
        a, b = args
        if not isf:
            if b == 0:
                return ("int", 1)
            if b > 0:
                return ("int", wrap(pow(a, b, 1 << 64)))
        try:
            return ("float", math.pow(float(a), float(b)))
        except (OverflowError, ValueError, ZeroDivisionError):
            return ("float-any",)
    if op in ("=", "<", ">", "<=", ">="):
        from fractions import Fraction
        a, b = Fraction(args[0]), Fraction(args[1])
        return ("bool", {"=": a == b, "<": a < b, ">": a > b, "<=": a <= b, ">=": a >= b}[op])
    if op in ("min", "max"):
        from fractions import Fraction
        best = (min if op == "min" else max)(args, key=Fraction)
        return ("numval", Fraction(best), {type(a).__name__ for a in args if Fraction(a) == Fraction(best)})
    if op.startswith("string"):
        a, b = args[0].encode(), args[1].encode()          # strings compare bytewise
        return ("bool", {"string<": a < b, "string<=": a <= b, "string>": a > b, "string>=": a >= b, "string=": a == b}[op])
    if op == "length":
        return ("int", len(args[0].encode()))
    if op == "to-string":
        return ("str", str(args[0]))
    if op == "to-int" and isinstance(args[0], str):
        import re as _re
        t = args[0]
        if _re.fullmatch(r"[+-]?[0-9]+", t) and -(1 << 63) <= int(t) < (1 << 63):
            return ("int", int(t))
        return ("error",)
    if op == "to-float" and isinstance(args[0], str):
        try:
            return ("float", float(args[0])) if args[0].strip() == args[0] and args[0] else ("error",)
        except ValueError:
            return ("error",)
    if op == "to-int":
        return ("int", int(args[0]))
    if op == "to-float":
        return ("float", float(args[0]))
    if op in "+*-":
        if not isf:
            if op == "+":
                return ("int", wrap(sum(args)))
            if op == "*":
                p = 1
                for a in args:
                    p = wrap(p * a)
                return ("int", p)
            if not args:
                return ("int", 0)
            return ("int", wrap(-args[0]) if len(args) == 1 else wrap(args[0] - sum(args[1:])))
        fs = [float(a) for a in args]
        if op == "+":
            acc = 0.0                          # a left fold in float arithmetic, every operand widened first
            for a in fs:
                acc += a
            return ("float", acc)
        if op == "*":
            p = 1.0
            for a in fs:
                p *= a
            return ("float", p)
        if len(fs) == 1:
            return ("float", -fs[0])
        acc = fs[0]
        for a in fs[1:]:
            acc -= a
        return ("float", acc)
    # division: left to right; an int while both are ints and the division is exact, a float from then on
    if not args:
        return ("int", 1)
    seq = [1] + list(args) if len(args) == 1 else list(args)
    acc = seq[0]
    for y in seq[1:]:
        if isinstance(acc, int) and isinstance(y, int):
            if y == 0:
                return ("float-any",)
            if acc % y == 0:
                acc = wrap(acc // y) if not (acc == -(1 << 63) and y == -1) else -(1 << 63)
                continue
            acc = float(acc) / float(y)
        else:
            if float(y) == 0.0:
                return ("float-any",)
            acc = float(acc) / float(y)
    return ("int", acc) if isinstance(acc, int) else ("float", acc)


def arith_cases(rnd, n):
    big = [0, 1, -1, 2, 3, -7, (1 << 63) - 1, -(1 << 63), (1 << 62), (1 << 32), -(1 << 31), 1000000007]
    small = [0, 1, -1, 2, 3, 5, -4, 12]
    fl = [0.5, 1.5, -2.5, 2.0, 0.0, 0.25, 8.0, -0.125]
    out = []
    strs = ["", "a", "b", "ab", "B", "a b", "é", "z", "aé", "10", "9", "~", "A"]
    for _ in range(n // 4):
        k = rnd.random()
        if k < 0.35:
            out.append((rnd.choice(["=", "<", ">", "<=", ">="]), [rnd.choice(small + fl), rnd.choice(small + fl)]))
        elif k < 0.55:
            out.append((rnd.choice(["min", "max"]), [rnd.choice(small + fl) for _ in range(rnd.randrange(1, 5))]))
        elif k < 0.8:
            out.append((rnd.choice(["string<", "string<=", "string>", "string>=", "string="]), [rnd.choice(strs), rnd.choice(strs)]))
        else:
            out.append(rnd.choice([("to-int", [rnd.choice(["12", "-7", "0", "007", "x", "1.5", "", " 1", "9223372036854775807", "9223372036854775808"])]),
                                   ("to-float", [rnd.choice(["1.5", "-2", "abc", "1e3", ""])]), ("to-string", [rnd.choice(big + small)]), ("length", [rnd.choice(strs)])]))
    for _ in range(n):
        if rnd.random() < 0.2:
            # other numeric leaves: mod (truncated), pow (wrapping for ints, exact dyadic cases for floats), conversions
            op = rnd.choice(["mod", "pow", "pow", "to-int", "to-float"])
            if op == "mod":
                args = [rnd.choice(big + small), rnd.choice(small + [7, -7, (1 << 63) - 1, -(1 << 63)])]
            elif op == "pow":
                args = rnd.choice([[rnd.choice(big + small), rnd.choice([0, 1, 2, 3, 5, 63, 64, 65])], [rnd.choice(small), rnd.choice([-1, -2, 0, 2])],
                                   [rnd.choice(fl), rnd.choice([0, 1, 2, 3, -1, -2])], [rnd.choice([2, 4, 16]), rnd.choice([0.5, 2.0, -1.0])]])
            elif op == "to-int":
                args = [rnd.choice(big + small + fl + [2.75, -2.75, 1e15, -123456.5])]
            else:
                args = [rnd.choice(big + small + fl)]
            out.append((op, args))
            continue
        op = rnd.choice("+-*/")
        k = rnd.choice([0, 1, 2, 2, 3, 4])
        fam = rnd.random()
        if fam < 0.12 and op in "+-":          # (for * the language reference does not say how an int prefix is folded)
            # ints at the 64-bit and 2^53 edges NEXT TO a float: one float anywhere makes the whole fold a float fold, from
            # the first operand on (no int arithmetic on a prefix)
            edge = big + [(1 << 53), (1 << 53) + 1, -(1 << 53) - 1, (1 << 63) - 2]
            args = [rnd.choice(edge) for _ in range(rnd.randrange(2, 5))]
            args.insert(rnd.randrange(len(args) + 1), rnd.choice([0.0, 0.5, 1.0, -1.0, 2.0]))
        elif fam < 0.45:
            args = [rnd.choice(big) for _ in range(k)]
        elif fam < 0.6:
            args = [rnd.choice(small) for _ in range(k)]
        else:
            args = [rnd.choice(small + fl) for _ in range(k)]
        out.append((op, args))
    return out


def opshape_programs():
    """special operators given malformed shapes AFTER well-formed, effectful parts: what the operator checks before it
    evaluates anything, what it checks as it goes, and which error wins.  Every variant is one program: the form under a
    catch-all handler, the effect transcript (note) and the value or condition probed."""
    NOTE = [S("defun"), S("note"), [S("x")], [S("probe"), Q(S("note")), S("x")], S("x")]
    N = lambda x: [S("note"), x]
    H = lambda body: [S("lambda"), [S("c"), S("&rest"), S("r")]] + body
    forms = []
    for th in ("thread-first", "thread-last"):
        for bad in (5, Q([S("list")]), [], S("sym"), STR("s")):
            forms += [[S(th), 1, [S("note")], bad], [S(th), 1, bad, [S("note")]], [S(th), N(1), [S("note")], [S("list"), 2], bad],
                      [S(th), N(1), bad]]
        forms += [[S(th), N(1)], [S(th)], [S(th), N(3), [S("list"), 1], [S("car")]], [S(th), Q([[S("+"), 1, 2]]), [S("car")], [S("list")]]]
    for lt in ("let", "let*"):
        forms += [[S(lt), [[S("a"), N(1)], [S("b")]], S("a")], [S(lt), [[S("a"), N(1)], 5], S("a")], [S(lt), [[S("a"), N(1)], [S("b"), 1, 2]], S("a")],
                  [S(lt), 5, N(1)], [S(lt), [[5, N(1)]], N(2)], [S(lt), [[S("true"), N(1)]], N(2)], [S(lt), [[S("a"), N(1)], [S("false"), N(2)]], N(3)],
                  [S(lt), [[S(":k"), N(1)]], N(2)], [S(lt), [[S("a"), N(1)], [S("a"), N(2)]], S("a")], [S(lt), [], N(1)], [S(lt), [[S("a"), N(1)]]],
                  [S(lt), [[S("a"), N(1)], [S("b"), [S("car"), 5]], [S("c"), N(3)]], N(4)], [S(lt)]]
    for fl in ("flet", "labels"):
        forms += [[S(fl), [[S("f"), [S("x")], N(S("x"))], 5], [S("f"), 1]], [S(fl), [[S("f")]], N(1)], [S(fl), [[5, [S("x")], S("x")]], N(1)],
                  [S(fl), [[S("f"), 5, 1]], N(1)], [S(fl), 5, N(1)], [S(fl), [[S("f"), [S("x"), S("x")], S("x")]], [S("f"), 1, 2]],
                  [S(fl), [[S("f"), [S("&rest")], 1]], N(1)], [S(fl), [[S("f"), [S("x")], S("x")], [S("f"), [S("y")], [S("list"), S("y")]]], [S("f"), 1]],
                  [S(fl), [[S("true"), [S("x")], S("x")]], N(1)], [S(fl), [], N(1)], [S(fl)]]
    forms += [[S("cond"), [N([]), 1], 5], [S("cond"), [N([]), 1], []], [S("cond"), [S("else"), N(1)], [N(2), 3]], [S("cond"), [N([])]], [S("cond"), [N(1)]],
              [S("cond"), [N(1), N(2), N(3)]], [S("cond")], [S("cond"), 5, [N(1), 2]], [S("cond"), [S(":else"), N(1)]], [S("cond"), [S("true"), N(1)], [N(2), 3]],
              [S("cond"), [N([]), 1], [S("else")]]]
    forms += [[S("dotimes"), [S("i"), N(2)], N(S("i"))], [S("dotimes"), [S("i")], N(1)], [S("dotimes"), [5, 2], N(1)], [S("dotimes"), [S("i"), STR("x")], N(1)],
              [S("dotimes"), S("i"), N(1)], [S("dotimes"), [S("i"), N(2), N(S("i")), 4], N(1)], [S("dotimes"), [S("i"), -1, N(S("i"))], N(1)],
              [S("dotimes"), [S("i"), 2, N(S("i"))]], [S("dotimes"), [S("true"), 2], N(1)], [S("dotimes")], [S("dotimes"), [S("i"), [S("car"), 5]], N(1)]]
    forms += [[S("handler-bind"), [[S("c"), H([1])], 5], N(1)], [S("handler-bind"), 5, N(1)], [S("handler-bind"), [[S("c")]], [S("error"), Q(S("c")), N(1)]],
              [S("handler-bind"), [[5, H([1])]], [S("error"), Q(S("c")), N(1)]], [S("handler-bind"), [[S("c"), N(5)]], [S("error"), Q(S("c")), N(1)]],
              [S("handler-bind"), [[S("c"), H([N(7)]), 9]], [S("error"), Q(S("c")), N(1)]], [S("handler-bind"), []], [S("handler-bind"), [], N(1), N(2)], [S("handler-bind")],
              [S("handler-bind"), [[S("c"), [S("car"), 5]]], [S("error"), Q(S("c")), N(1)]], [S("handler-bind"), [[S("c"), [S("car"), 5]]], N(1)]]
    forms += [[S("if"), N(1), 2], [S("if"), N(1)], [S("if"), N(1), 2, 3, 4], [S("if")], [S("set!"), 5, N(1)], [S("set!"), S("unbound-here"), N(1)], [S("set!"), S("true"), N(1)],
              [S("set!"), S("note")], [S("set!"), Q(S("x")), N(1)], [S("lambda"), 5, 1], [S("lambda"), [S("x"), S("&rest")], S("x")], [S("lambda"), [S("&optional")], 1],
              [S("lambda"), [S("x"), S("x")], S("x")], [S("lambda"), [S("&rest"), S("a"), S("b")], 1], [S("lambda"), [S("&key")], 1], [S("lambda"), [5], 1], [S("lambda")],
              [S("lambda"), [S("&optional"), S("a"), S("&optional"), S("b")], 1], [S("lambda"), [S("&rest"), S("r"), S("&key"), S("k")], 1], [S("lambda"), [S("true")], 1],
              [[S("lambda"), [S("x"), S("&optional"), S("y")], [S("list"), S("x"), S("y")]], N(1)], [S("quote")], [S("quote"), 1, 2], [S("quasiquote")], [S("quasiquote"), 1, 2],
              [S("progn")], [S("and")], [S("or")], [S("and"), N(1), N([]), N(3)], [S("or"), N([]), N(S("false")), N(3), N(4)], [S("ignore-errors")],
              [S("defun"), 5, [], 1], [S("defun"), S("f"), 5, 1], [S("defun"), S("f")], [S("defmacro"), S("m"), 5, 1], [S("defun"), S("true"), [], 1],
              [S("macrolet"), [[S("m"), [S("x")], N(S("x"))], 5], [S("m"), 1]], [S("macrolet"), 5, N(1)], [S("macrolet"), [[S("m")]], N(1)], [S("macrolet"), [[5, [], 1]], N(1)], [S("macrolet"), [], N(1)]]
    out = []
    for f in forms:
        guarded = [S("handler-bind"), [[S("condition"), H([[S("list"), Q(S("caught")), S("c")]])]], f]
        out.append([NOTE, [S("probe"), Q(S("r")), guarded], [S("probe"), Q(S("after")), N(0)]])
    return out


def combinator_programs():
    """function-building builtins and operators: compose / flip / unpack / curry-function / function / expr, and the small
    forms assert / defconst / get-default / bool? / symbol=; every form is one program under a catch-all handler with
    effectful helper functions, so evaluation order, evaluation count and frames show in the transcript"""
    D = [[S("defun"), S("inc"), [S("x")], [S("probe"), Q(S("inc")), S("x")], [S("+"), S("x"), 1]],
         [S("defun"), S("dbl"), [S("x")], [S("probe"), Q(S("dbl")), S("x")], [S("*"), S("x"), 2]],
         [S("defun"), S("sub"), [S("a"), S("b")], [S("probe"), Q(S("sub")), S("a"), S("b")], [S("-"), S("a"), S("b")]],
         [S("defun"), S("opt"), [S("a"), S("&optional"), S("b")], [S("list"), S("a"), S("b")]],
         [S("defun"), S("rst"), [S("a"), S("&rest"), S("r")], [S("cons"), S("a"), S("r")]],
         [S("defun"), S("kw"), [S("a"), S("&key"), S("k")], [S("list"), S("a"), S("k")]]]
    F = lambda *a: [S("funcall")] + list(a)
    L = lambda fl, *body: [S("lambda"), fl] + list(body)
    sm = [S("sorted-map"), STR("a"), 1, STR("k"), []]      # (key names the Machine ranks: a b c k x y z)
    forms = [
        F([S("compose"), S("inc"), S("dbl")], 3), F([S("compose"), Q(S("inc")), Q(S("dbl"))], 3), F([S("compose"), S("car"), S("rst")], 1, 2, 3),
        F([S("compose"), S("car"), S("opt")], 1), F([S("compose"), S("car"), S("opt")], 1, 2), F([S("compose"), S("car"), S("kw")], 1),
        [S("compose"), Q(S("inc")), Q(S("nosuch"))], [S("compose"), Q(S("nosuch")), Q(S("inc"))], [S("compose"), 5, S("inc")], [S("compose"), S("inc"), 5],
        [S("compose"), S("if"), S("inc")], [S("compose"), S("inc"), S("if")], F([S("compose"), S("inc"), L([S("x")], [S("*"), S("x"), 3])], 2), F([S("compose"), S("-"), S("sub")], 5, 3),
        F([S("compose"), S("inc"), S("car")], Q([1, 2])), F([S("compose"), S("list"), S("list")], 1, 2), F([S("compose"), S("inc"), S("inc")]), F([S("compose"), S("inc"), S("sub")], 1),
        F([S("compose"), [S("compose"), S("inc"), S("dbl")], S("sub")], 9, 4), [S("map"), Q(S("list")), [S("compose"), S("inc"), S("dbl")], Q([1, 2])],
        F([S("flip"), S("sub")], 1, 10), F([S("flip"), Q(S("sub"))], 1, 10), [S("flip"), S("inc")], F([S("flip"), S("-")], 1, 10), F([S("flip"), S("cons")], Q([2]), 1),
        [S("flip"), 5], F([S("flip"), S("rst")], 1, 2), F([S("flip"), S("opt")], 1, 2), F([S("flip"), L([S("&rest"), S("r")], S("r"))], 1, 2), [S("flip"), Q(S("nosuch"))], [S("flip"), S("if")],
        F([S("flip"), S("sub")], 1), [S("foldl"), [S("flip"), S("cons")], [], Q([1, 2, 3])],
        [S("unpack"), S("sub"), Q([10, 3])], [S("unpack"), Q(S("sub")), [S("list"), 1, 2]], [S("unpack"), S("sub"), 5], [S("unpack"), S("+"), Q([1, 2, 3])], [S("unpack"), S("sub"), Q([1])], [S("unpack"), 5, Q([1])],
        [S("list"), [S("bool?"), S("true")], [S("bool?"), Q(S("false"))], [S("bool?"), STR("true")], [S("bool?"), []], [S("bool?"), 1], [S("bool?"), Q(S("truex"))]],
        [S("list"), [S("symbol="), Q(S("a")), Q(S("a"))], [S("symbol="), Q(S("a")), Q(S("b"))], [S("symbol="), S(":k"), S(":k")], [S("symbol="), Q(S("a")), S(":a")]], [S("symbol="), Q(S("a")), STR("a")], [S("symbol="), 1, Q(S("a"))],
        F([S("function"), S("inc")], 1), [S("function"), S("nosuch")], [S("let"), [[S("inc"), L([S("x")], Q(S("local")))]], F([S("function"), S("inc")], 1)],
        [S("let"), [[S("v"), 5]], [S("function"), S("v")]], [S("function"), 5], [S("function"), L([S("x")], S("x"))], [S("flet"), [[S("h"), [S("x")], [S("*"), S("x"), 9]]], F([S("function"), S("h")], 2)],
        [S("function"), S("if")], [S("function"), S(":k")], F([S("function"), S("car")], Q([4, 5])), [S("map"), Q(S("list")), [S("function"), S("inc")], Q([1, 2])],
        [S("assert"), [S("inc"), 1]], [S("assert"), [S("nil?"), [S("inc"), 1]]], [S("assert"), S("false"), STR("msg {}"), [S("inc"), 1]], [S("assert"), S("false"), STR("m {} {}"), [S("inc"), 1], [S("dbl"), 2]],
        [S("assert"), S("true"), STR("m {}"), [S("inc"), 1]], [S("assert"), S("false"), 5], [S("assert"), [S("car"), 5]], [S("assert"), S("false"), STR("m {}"), [S("car"), 5], [S("inc"), 1]], [S("assert")],
        [S("assert"), [], STR("no placeholders"), [S("inc"), 1]], [S("list"), [S("assert"), [S("inc"), 0]], [S("inc"), 5]],
        [S("progn"), [S("defconst"), S("k1"), [S("inc"), 4]], [S("list"), S("k1"), S("k1")]], [S("defconst"), 5, 1], [S("defconst"), S("k2")], [S("progn"), [S("defconst"), S("k3"), 1, STR("doc")], S("k3")],
        F([S("curry-function"), S("sub"), 10], 3), F([S("curry-function"), Q(S("sub")), 10], 3), F([S("curry-function"), S("rst"), 1, 2], 3, 4),
        [S("let"), [[S("c"), [S("curry-function"), L([S("a"), S("b"), S("c")], [S("list"), S("a"), S("b"), S("c")]), [S("inc"), 0]]]], [S("list"), F(S("c"), 2, 3), F(S("c"), 4, 5)]],
        F([S("curry-function"), S("sub")], 8, 2), F([S("curry-function"), S("sub"), 1, 2, 3]), [S("curry-function")], [S("map"), Q(S("list")), [S("curry-function"), S("sub"), 100], Q([1, 2])],
        [S("get-default"), sm, STR("a"), [S("inc"), 5]], [S("get-default"), sm, STR("b"), [S("inc"), 5]], [S("get-default"), 5, STR("a"), 1], [S("get-default"), sm, STR("k"), 7],
        [S("get-default"), [S("progn"), [S("inc"), 0], sm], [S("progn"), [S("inc"), 1], STR("z")], [S("inc"), 2]], [S("get-default"), sm, STR("a")],
        F([S("expr"), [S("+"), S("%1"), S("%2")]], 1, 2), F([S("expr"), [S("list"), S("%"), S("%")]], 3), F([S("expr"), [S("list"), S("%2"), S("%&rest")]], 1, 2, 3, 4),
        F([S("expr"), [S("list"), S("%1"), S("%&optional")]], 1), F([S("expr"), [S("list"), S("%1"), S("%&optional")]], 1, 2), F([S("expr"), S("%2")], 3, 4), F([S("expr"), Q(S("x"))]),
        [S("expr"), [S("list"), S("%"), S("%1")]], [S("expr"), [S("list"), S("%1"), S("%")]], F([S("expr"), [S("list"), STR("%1"), 5]]), F([S("expr"), [S("list"), STR("%d"), 5]]),
        F([S("expr"), [S("concat"), Q(S("string")), STR("%"), S("%1")]], STR("x")), F([S("expr"), [S("inc"), [S("inc"), S("%")]]], 1), F([S("expr"), [S("list"), Q(S("%")), S("%1")]], 7),
        F([S("expr"), 5]), F([S("expr"), STR("s")]), F([S("expr"), [S("probe"), Q(S("x")), S("%3")]], 1, 2, 3), F([S("expr"), S("%")], 9), F([S("expr"), S("%&rest")], 1, 2),
        F([S("expr"), [S("list"), S("%1")]], 1, 2), F([S("expr"), []]), [S("expr")], [S("expr"), 1, 2], [S("map"), Q(S("list")), [S("expr"), [S("*"), S("%"), S("%")]], Q([2, 3])],
        [S("let"), [[S("%1"), 50]], F([S("expr"), [S("list"), S("%1"), S("%2")]], 1, 2)], F([S("expr"), [S("list"), S("%3"), S("%1")]], 1, 2, 3),
    ]
    # functions applied to VALUES by a builtin: the elements of a sequence (their keys), the data of an error.  The values
    # are lists and symbols that would mean something if they were evaluated again
    CMP = L([S("a"), S("b")], [S("probe"), Q(S("cmp")), S("a"), S("b")], [S("<"), S("a"), S("b")])
    CARLT = L([S("x"), S("y")], [S("probe"), Q(S("cmp")), S("x"), S("y")], [S("<"), [S("car"), S("x")], [S("car"), S("y")]])
    KEY = L([S("e")], [S("probe"), Q(S("key")), S("e")], [S("car"), S("e")])
    forms += [
        [S("stable-sort"), S("<"), [S("list"), 3, 1, 2]], [S("stable-sort"), CMP, [S("list"), 3, 1, 2, 5, 4]], [S("stable-sort"), CMP, [S("vector"), 2, 2, 1]],
        [S("stable-sort"), CMP, Q([4, 3, 2, 1])], [S("stable-sort"), S("<"), [S("list"), [S("list"), 3], [S("list"), 1], [S("list"), 2]], S("car")],
        [S("stable-sort"), CMP, [S("list"), [S("list"), 3, 0], [S("list"), 1, 1], [S("list"), 3, 2], [S("list"), 1, 3]], KEY],
        [S("stable-sort"), CARLT, Q([[3, 1], [2, 4]])], [S("stable-sort"), CARLT, Q([[3, S("x")], [1, S("y")], [3, S("z")], [1, S("w")]])],
        [S("stable-sort"), L([S("x"), S("y")], [S("probe"), Q(S("cmp")), S("x"), S("y")], S("true")), Q([S("b"), S("a"), S("c")])],
        [S("stable-sort"), L([S("x"), S("y")], [S("symbol="), S("x"), Q(S("a"))]), Q([S("b"), S("a"), S("c"), S("a")])],
        [S("stable-sort"), L([S("a"), S("b")], [S("probe"), Q(S("cmp")), S("a"), S("b")], [S("if"), [S("="), S("a"), 2], [S("car"), 5], [S("<"), S("a"), S("b")]]), [S("list"), 3, 1, 2, 0]],
        [S("stable-sort"), S("<"), [S("list"), 3, 1, 2], Q(S("nosuch"))], [S("stable-sort"), Q(S("nosuch")), [S("list"), 1]], [S("stable-sort"), S("<"), 5], [S("stable-sort"), S("<"), [S("list"), 2, 1], S("car"), S("car")],
        [S("stable-sort"), 5, [S("list"), 2, 1]], [S("stable-sort"), S("<"), []], [S("stable-sort"), CMP, [S("list"), 1]], [S("stable-sort"), S("<"), [S("list"), 2, STR("x"), 1]],
        [S("stable-sort"), S("<"), [S("list"), [S("list"), 3], [S("list"), 1]], L([S("e")], [S("probe"), Q(S("key")), S("e")], [S("if"), [S("="), [S("car"), S("e")], 1], [S("car"), 7], [S("car"), S("e")]])],
        [S("all?"), S("symbol?"), Q([S("a"), S("b")])], [S("any?"), S("list?"), Q([[S("+"), 1, 2]])], [S("all?"), L([S("x")], [S("probe"), Q(S("p")), S("x")], [S("int?"), S("x")]), Q([1, 2, S("a"), 3])],
        [S("any?"), L([S("x")], [S("probe"), Q(S("p")), S("x")], [S("symbol?"), S("x")]), Q([1, [S("inc"), 5], S("unbound-data"), 3])], [S("all?"), S("quote"), Q([S("a"), S("b")])],
        [S("any?"), S("inc"), Q([[S("car"), 5]])], [S("all?"), S("int?"), [S("list"), 1, [S("inc"), 1]]], [S("any?"), Q(S("nosuch")), Q([1])], [S("all?"), S("int?"), 5],
        [S("handler-bind"), [[S("c"), L([S("c"), S("x")], [S("list"), Q(S("got")), S("x")])]], [S("error"), Q(S("c")), [S("car"), Q([[S("+"), 1, 2]])]]],
        [S("handler-bind"), [[S("c"), L([S("c"), S("x")], [S("list"), Q(S("got")), S("x")])]], [S("error"), Q(S("c")), [S("car"), Q([S("unbound-data")])]]],
        [S("handler-bind"), [[S("c"), L([S("c"), S("&rest"), S("r")], [S("list"), S("c"), S("r")])]], [S("error"), Q(S("c")), [S("car"), Q([[S("inc"), 1]])], Q(S("q")), [S("list"), Q(S("inc")), 2]]],
        [S("handler-bind"), [[S("condition"), S("list")]], [S("error"), Q(S("c")), [S("car"), Q([[S("inc"), 1]])]]],
        [S("insert-sorted"), Q(S("list")), Q([1, 3, 5]), S("<"), 4], [S("insert-sorted"), Q(S("vector")), [S("vector"), 1, 3, 5, 7, 9], CMP, 6], [S("insert-sorted"), Q(S("list")), [], CMP, 6],
        [S("insert-sorted"), Q(S("list")), Q([[1], [3]]), CARLT, Q([2])], [S("insert-sorted"), Q(S("list")), Q([[1, S("a")], [3, S("b")]]), CMP, Q([2, S("c")]), KEY],
        [S("insert-sorted"), Q(S("set")), Q([1, 3]), CMP, 2], [S("insert-sorted"), Q(S("list")), [S("list"), 1, 3], Q(S("<")), 2], [S("insert-sorted"), 5, [S("list"), 1], S("<"), 2],
        [S("insert-sorted"), Q(S("list")), 5, S("<"), 2], [S("insert-sorted"), Q(S("list")), [S("list"), 1, 2, 3, 4], L([S("a"), S("b")], [S("probe"), Q(S("cmp")), S("a"), S("b")], [S("if"), [S("="), S("b"), 3], [S("car"), 5], [S("<"), S("a"), S("b")]]), 9],
        [S("insert-sorted"), Q(S("list")), [S("list"), 1, 3], S("<"), 2, Q(S("nosuch"))], [S("insert-sorted"), Q(S("list")), [S("list"), 1, 3], S("<"), 2, S("identity"), S("identity")],
        [S("insert-sorted"), Q(S("list")), Q([S("a"), S("c")]), L([S("x"), S("y")], [S("probe"), Q(S("cmp")), S("x"), S("y")], [S("symbol="), S("x"), S("y")]), Q(S("b"))],
        [S("search-sorted"), 10, L([S("i")], [S("probe"), Q(S("i")), S("i")], [S(">="), S("i"), 7])], [S("search-sorted"), 0, L([S("i")], [S("probe"), Q(S("i")), S("i")], S("true"))],
        [S("search-sorted"), -3, S("inc")], [S("search-sorted"), 5, L([S("i")], [S("probe"), Q(S("i")), S("i")], [S("if"), [S("="), S("i"), 3], [S("car"), 5], []])], [S("search-sorted"), STR("x"), S("inc")],
        [S("search-sorted"), 4, Q(S("nosuch"))], [S("search-sorted"), 6, Q(S("inc"))], [S("search-sorted"), 3, 5],
    ]
    # a threading step that is re-entered while it is being evaluated (the step calls the function that contains it)
    forms += [
        [S("progn"), [S("defun"), S("trec"), [S("n")], [S("if"), [S("<="), S("n"), 0], [S("list"), 0], [S("thread-last"), S("n"), [S("+"), 0], [S("list"), [S("trec"), [S("-"), S("n"), 1]], Q(S("tag"))]]]], [S("trec"), 2]],
        [S("progn"), [S("defun"), S("tfirst"), [S("n")], [S("if"), [S("<="), S("n"), 0], [S("list"), 0], [S("thread-first"), S("n"), [S("+"), 0], [S("list"), [S("tfirst"), [S("-"), S("n"), 1]], Q(S("tag"))]]]], [S("tfirst"), 2]],
        [S("progn"), [S("defun"), S("trec5"), [S("n")], [S("if"), [S("<="), S("n"), 0], 0, [S("thread-last"), S("n"), [S("+"), [S("trec5"), [S("-"), S("n"), 1]], 1, 2, 3]]]], [S("trec5"), 3]],
    ]
    # equal? : values without structural equality (functions, quote objects) are never equal, not even to themselves, and
    # neither is a container that holds one - the same object on both sides included
    forms += [
        [S("list"), [S("equal?"), S("car"), S("car")], [S("equal?"), S("inc"), S("inc")], [S("let"), [[S("f"), L([S("x")], S("x"))]], [S("equal?"), S("f"), S("f")]]],
        [S("let"), [[S("xs"), [S("list"), 1, S("car")]]], [S("list"), [S("equal?"), S("xs"), S("xs")], [S("equal?"), [S("list"), 0, S("xs")], [S("list"), 0, S("xs")]], [S("equal?"), [S("cdr"), S("xs")], [S("cdr"), S("xs")]]]],
        [S("let"), [[S("v"), [S("vector"), 1, S("inc")]]], [S("list"), [S("equal?"), S("v"), S("v")], [S("equal?"), [S("vector"), S("v")], [S("vector"), S("v")]]]],
        [S("let"), [[S("m"), [S("sorted-map"), STR("a"), S("inc")]]], [S("list"), [S("equal?"), S("m"), S("m")], [S("equal?"), [S("list"), S("m")], [S("list"), S("m")]]]],
        [S("let"), [[S("xs"), [S("list"), 1, [S("list"), 2, 3]]]], [S("list"), [S("equal?"), S("xs"), S("xs")], [S("equal?"), [S("list"), 0, S("xs")], [S("list"), 0, S("xs")]], [S("equal?"), S("xs"), [S("list"), 1, [S("list"), 2, 3]]]]],
        [S("list"), [S("equal?"), Q(Q(S("a"))), Q(Q(S("a")))], [S("equal?"), Q(S("a")), S(":a")], [S("equal?"), Q([1, Q(S("b"))]), [S("list"), 1, Q(S("b"))]], [S("equal?"), [], Q([])], [S("equal?"), 1, 1.0]],
        [S("let"), [[S("q"), Q(Q([1, 2]))]], [S("list"), [S("equal?"), S("q"), S("q")], [S("equal?"), [S("list"), S("q")], [S("list"), S("q")]]]],
    ]
    # a QUOTED SYMBOL given where a function is expected names the binding of the current package, whatever the name is
    # bound to lexically at the call site (a function, a non-function, a local function)
    LOC = L([S("x"), S("&rest"), S("r")], [S("probe"), Q(S("local")), S("x")], [S("list"), Q(S("local")), S("x")])
    def designators(name):
        q = Q(S(name))
        return [[S("map"), Q(S("list")), q, Q([1, 2])], [S("foldl"), Q(S("sub")), 10, Q([1, 2])] if name == "sub" else [S("select"), Q(S("list")), q, Q([1, 2])],
                [S("funcall"), q, 1] if name != "sub" else [S("funcall"), q, 5, 1], [S("apply"), q, Q([7])] if name != "sub" else [S("apply"), q, Q([7, 1])],
                [S("any?"), q, Q([3])] if name != "sub" else [S("unpack"), q, Q([4, 1])], [S("funcall"), [S("compose"), q, q], 1] if name != "sub" else [S("funcall"), [S("flip"), q], 1, 9],
                [S("stable-sort"), Q(S("sub")), [S("list"), 2, 1]] if name == "sub" else [S("search-sorted"), 3, q],
                [S("reject"), Q(S("vector")), q, [S("vector"), 1]] if name != "sub" else [S("foldr"), q, 10, Q([1, 2])]]
    for name in ("inc", "sub"):
        for binder in ("let", "flet", "labels", "param", "param-nonfun", "let-nonfun", "dotimes", "macrolet"):
            for call in designators(name):
                if binder == "let":
                    f = [S("let"), [[S(name), LOC]], call]
                elif binder in ("flet", "labels"):
                    f = [S(binder), [[S(name), [S("x"), S("&rest"), S("r")], [S("list"), Q(S("local")), S("x")]]], call]
                elif binder == "param":
                    f = F(L([S(name)], call), LOC)
                elif binder == "param-nonfun":
                    f = F(L([S(name)], call), 5)
                elif binder == "let-nonfun":
                    f = [S("let*"), [[S(name), STR("not a function")]], call]
                elif binder == "dotimes":
                    f = [S("dotimes"), [S(name), 1], [S("probe"), Q(S("in-loop")), call]]
                else:
                    f = [S("macrolet"), [[S(name), [S("&rest"), S("r")], Q([S("list"), 0])]], call]
                forms.append(f)
    H = [S("lambda"), [S("c"), S("&rest"), S("r")], [S("list"), Q(S("caught")), S("c")]]
    out = []
    for f in forms:
        out.append(D + [[S("probe"), Q(S("r")), [S("handler-bind"), [[S("condition"), H]], f]], [S("probe"), Q(S("after")), [S("inc"), 0]]])
    return out


def smalldomain_programs():
    """EVERY argument tuple over a small domain for the pure sequence / map builtins the Machine models: sequences of
    length 0..4 (lists and vectors), every index from -1 to one past the end, both type specifiers, small ranges.  A fast
    path for the common shape of an input shows here as soon as it mishandles a rare one (empty, single, index = length)."""
    seqs = []
    for n in range(0, 5):
        items = [10 * (i + 1) for i in range(n)]
        seqs.append([S("list")] + items if n else [])
        seqs.append([S("vector")] + items)
    seqs.append(Q([7, 8, 9]))
    T = [Q(S("list")), Q(S("vector"))]
    idx = list(range(-1, 6))
    calls = []
    for sq in seqs:
        calls += [[S("length"), sq], [S("first"), sq], [S("second"), sq], [S("rest"), sq], [S("empty?"), sq], [S("reverse"), Q(S("list")), sq], [S("reverse"), Q(S("vector")), sq]]
        calls += [[S("car"), sq], [S("cdr"), sq]]
        for i in idx:
            calls += [[S("nth"), sq, i], [S("aref"), sq, i]]
            for t in T:
                calls.append([S("insert-index"), t, sq, i, 99])
                for j in idx:
                    calls.append([S("slice"), t, sq, i, j])
        for t in T:
            calls += [[S("append"), t, sq], [S("append"), t, sq, 1], [S("append"), t, sq, 1, 2], [S("concat"), t, sq], [S("concat"), t, sq, sq], [S("concat"), t, sq, [], sq],
                      [S("map"), t, S("inc"), sq], [S("select"), t, S("big?"), sq], [S("reject"), t, S("big?"), sq], [S("zip"), t, sq], [S("zip"), t, sq, Q([1, 2])], [S("zip"), t, sq, [S("vector"), 1], sq]]
        calls += [[S("foldl"), S("sub"), 0, sq], [S("foldr"), S("sub"), 0, sq], [S("any?"), S("big?"), sq], [S("all?"), S("big?"), sq],
                  [S("stable-sort"), S(">"), sq], [S("cons"), 0, sq], [S("equal?"), sq, sq], [S("equal?"), sq, Q([7, 8, 9])]]
        for x in (5, 15, 25, 35, 45):
            calls += [[S("insert-sorted"), Q(S("list")), sq, S("<"), x], [S("insert-sorted"), Q(S("vector")), sq, S("<"), x]]
    for a in range(-2, 4):
        for b in range(-2, 6):
            calls.append([S("make-sequence"), a, b])
            for st in (-2, -1, 0, 1, 2, 3):
                calls.append([S("make-sequence"), a, b, st])
    for n in range(-1, 7):
        for k in range(-1, 8):
            calls.append([S("search-sorted"), n, [S("lambda"), [S("i")], [S(">="), S("i"), k]]])
    maps = [[S("sorted-map")], [S("sorted-map"), STR("a"), 1], [S("sorted-map"), STR("b"), 2, Q(S("a")), 1], [S("sorted-map"), STR("c"), 3, STR("a"), 1, Q(S("b")), 2]]
    keys = [STR("a"), Q(S("a")), STR("b"), Q(S("c")), STR("z")]
    for mp in maps:
        calls += [[S("keys"), mp], [S("length"), mp], [S("empty?"), mp]]
        for k in keys:
            calls += [[S("get"), mp, k], [S("key?"), mp, k], [S("assoc"), mp, k, 9], [S("dissoc"), mp, k], [S("keys"), [S("assoc"), mp, k, 9]], [S("keys"), [S("dissoc"), mp, k]],
                      [S("get-default"), mp, k, 77]]
    for args in ([1], [1, 2], [2, 1, 3], [3, 3], [-1, 0], [2, 1.5], [1.5, 2, 0.5]):
        calls += [[S("max")] + args, [S("min")] + args]
    for a in range(-3, 4):
        for b in (-2, -1, 1, 2, 3):
            calls.append([S("mod"), a, b])
    D = [[S("defun"), S("inc"), [S("n")], [S("+"), S("n"), 1]], [S("defun"), S("sub"), [S("p"), S("q")], [S("-"), S("p"), S("q")]], [S("defun"), S("big?"), [S("n")], [S(">"), S("n"), 15]]]
    out = []
    for k in range(0, len(calls), 40):
        out.append(D + [[S("probe"), Q(S("r")), GUARD(c)] for c in calls[k:k + 40]])
    return out


def retain_programs():
    """every builtin that calls back into lisp, with a callback that KEEPS what it was given - its &rest list, or a
    closure over it - in an outer accumulator (or returns it); after the builtin has returned, every call's own arguments
    must still be there: the argument list of one call is not the next call's"""
    L = lambda formals, *body: [S("lambda"), list(formals)] + list(body)
    out = []
    hofs = [  # (name, call template with CB, what the callback returns given `all` = the list of its arguments)
        ("map", lambda cb: [S("map"), Q(S("list")), cb, Q([1, 2, 3])], lambda al: al),
        ("map-vector", lambda cb: [S("map"), Q(S("vector")), cb, [S("vector"), 4, 5, 6]], lambda al: al),
        ("foldl", lambda cb: [S("foldl"), cb, 0, Q([1, 2, 3])], lambda al: [S("+"), 1, [S("car"), al]]),
        ("foldr", lambda cb: [S("foldr"), cb, 0, Q([1, 2, 3])], lambda al: [S("+"), 1, [S("car"), [S("cdr"), al]]]),
        ("select", lambda cb: [S("select"), Q(S("list")), cb, Q([1, 2, 3])], lambda al: S("true")),
        ("reject", lambda cb: [S("reject"), Q(S("list")), cb, Q([1, 2, 3])], lambda al: []),
        ("any", lambda cb: [S("any?"), cb, Q([1, 2, 3])], lambda al: []),
        ("all", lambda cb: [S("all?"), cb, Q([1, 2, 3])], lambda al: S("true")),
        ("sort", lambda cb: [S("stable-sort"), cb, [S("list"), 3, 1, 2]], lambda al: [S("<"), [S("car"), al], [S("car"), [S("cdr"), al]]]),
        ("sort-key", lambda cb: [S("stable-sort"), S("<"), [S("list"), 3, 1, 2], cb], lambda al: [S("car"), al]),
        ("insert-sorted", lambda cb: [S("insert-sorted"), Q(S("list")), Q([1, 3, 5, 7]), cb, 4], lambda al: [S("<"), [S("car"), al], [S("car"), [S("cdr"), al]]]),
        ("search-sorted", lambda cb: [S("search-sorted"), 6, cb], lambda al: [S(">="), [S("car"), al], 4]),
        ("funcall", lambda cb: [S("list"), [S("funcall"), cb, 1, 2], [S("funcall"), cb, 3], [S("funcall"), cb, 4, 5, 6]], lambda al: [S("length"), al]),
        ("apply", lambda cb: [S("list"), [S("apply"), cb, 1, Q([2, 3])], [S("apply"), cb, Q([4])], [S("apply"), cb, 5, 6, Q([])]], lambda al: [S("length"), al]),
        ("unpack", lambda cb: [S("list"), [S("unpack"), cb, Q([1, 2])], [S("unpack"), cb, Q([3])]], lambda al: [S("length"), al]),
        ("compose", lambda cb: [S("let"), [[S("h"), [S("compose"), S("identity"), cb]]], [S("list"), [S("funcall"), S("h"), 1, 2], [S("funcall"), S("h"), 3]]], lambda al: [S("length"), al]),
        ("flip", lambda cb: [S("let"), [[S("h"), [S("flip"), cb]]], [S("list"), [S("funcall"), S("h"), 1, 2], [S("funcall"), S("h"), 3, 4]]], lambda al: [S("length"), al]),
        ("curry", lambda cb: [S("let"), [[S("h"), [S("curry-function"), cb, 9]]], [S("list"), [S("funcall"), S("h"), 1], [S("funcall"), S("h"), 2, 3]]], lambda al: [S("length"), al]),
        ("thread", lambda cb: [S("list"), [S("thread-first"), 1, [S("funcall"), cb, 2]], [S("thread-last"), 3, [S("funcall"), cb, 4]]], lambda al: [S("length"), al]),
        ("handler", lambda cb: [S("list"), [S("handler-bind"), [[S("c1"), cb]], [S("error"), Q(S("c1")), 1, 2]], [S("handler-bind"), [[S("c2"), cb]], [S("error"), Q(S("c2")), 3]]], lambda al: [S("length"), al]),
        ("direct", lambda cb: [S("list"), [cb, 1, 2], [cb, 3], [cb]], lambda al: [S("length"), al]),
        ("nested-map", lambda cb: [S("map"), Q(S("list")), L([S("row")], [S("map"), Q(S("list")), cb, S("row")]), Q([[1, 2], [3]])], lambda al: al),
    ]
    shapes = [("rest", [S("&rest"), S("xs")], S("xs"), S("xs")),
              ("req-rest", [S("x"), S("&rest"), S("xs")], [S("cons"), S("x"), S("xs")], S("xs")),
              ("opt-rest", [S("&optional"), S("x"), S("&rest"), S("xs")], [S("cons"), S("x"), S("xs")], S("xs"))]
    for hname, call, ret in hofs:
        for sname, formals, al, kept in shapes:
            if hname == "direct" and sname == "req-rest":
                continue
            for mode in ("value", "list", "closure"):
                if mode == "value":
                    body = [ret(al) if hname in ("map", "map-vector", "nested-map") else [S("progn"), [S("set!"), S("acc"), [S("cons"), kept, S("acc")]], ret(al)]]
                    if hname not in ("map", "map-vector", "nested-map"):
                        continue
                    body = [kept if sname == "rest" else [S("list"), S("x"), kept]]
                elif mode == "list":
                    body = [[S("set!"), S("acc"), [S("cons"), kept, S("acc")]], ret(al)]
                else:
                    body = [[S("set!"), S("acc"), [S("cons"), L([], kept), S("acc")]], ret(al)]
                cb = L(formals, *body)
                forms = [[S("set"), Q(S("acc")), []],
                         [S("probe"), Q(S("result")), GUARD(call(cb))]]
                if mode == "closure":
                    forms.append([S("probe"), Q(S("kept")), GUARD([S("map"), Q(S("list")), L([S("f")], [S("funcall"), S("f")]), S("acc")])])
                else:
                    forms.append([S("probe"), Q(S("kept")), S("acc")])
                out.append(forms)
    # the callee SORTS its &rest list in place: the list the caller applied it to is another value and keeps its order
    SORT = L([S("&rest"), S("xs")], [S("stable-sort"), S("<"), S("xs")])
    SORT1 = L([S("a"), S("&rest"), S("xs")], [S("stable-sort"), S("<"), S("xs")])
    for call in ([S("apply"), SORT, S("samples")], [S("unpack"), SORT, S("samples")], [S("apply"), SORT, 9, S("samples")], [S("apply"), SORT1, S("samples")],
                 [S("apply"), SORT, [S("cdr"), S("samples")]], [S("funcall"), [S("compose"), S("identity"), SORT], 3, 1, 2], [S("apply"), SORT, [S("lit")]], [S("unpack"), SORT1, [S("lit")]]):
        out.append([[S("set"), Q(S("samples")), [S("list"), 3, 1, 2]], [S("defun"), S("lit"), [], Q([30, 10, 20])],
                    [S("probe"), Q(S("sorted")), GUARD(call)], [S("probe"), Q(S("caller-still-has")), S("samples"), [S("lit")]]])
    return out


def run(tier):
    V = Verdict("C01", tier)
    work = Work("C01")
    try:
        return _run(V, work, tier)
    finally:
        work.close()


def _run(V, work, tier):
    thorough = tier == "thorough"
    rnd = random.Random(seed())
    binary = build_driver()
    progs_ = []
    mutsets = list(itertools.product([False, True], repeat=3))
    allscope = [(bs, ms) for bs in itertools.product(BINDERS, repeat=3) for ms in itertools.product(mutsets, repeat=3)]
    # 343 binder nestings x 512 mutation patterns: the nestings are exhaustive, patterns sampled per nesting
    for bs in itertools.product(BINDERS, repeat=3):
        for ms in rnd.sample(list(itertools.product(mutsets, repeat=3)), 16 if thorough else 3):
            progs_.append(("scope", scope_program(bs, ms, selfref=rnd.random() < 0.5)))
    for f, names, req, opt, tail in formal_lists(3):
        for nargs in range(0, 5):
            for mode in (("plain", "kw", "badkw") if tail.startswith("key") else ("plain",)):
                for via in ("direct", "funcall", "apply"):
                    progs_.append(("bind", bind_program(f, names, req, opt, tail, nargs, mode, via)))
    for _ in range(5000 if thorough else 700):
        progs_.append(("random", random_program(rnd)))
    for w in P.WRAPPERS:
        if w[1] in ("T", "N") and w[0] not in ("if-cond",):
            for mutual in (False, True):
                progs_.append(("closure-loop", closure_loop_program(w, mutual)))
    for f in opshape_programs():
        progs_.append(("opshape", f))
    for f in combinator_programs():
        progs_.append(("combinator", f))
    for f in retain_programs():
        progs_.append(("retain", f))
    for f in smalldomain_programs():
        progs_.append(("small-domain", f))
    # the MIX family: every feature in one program (gen/mix.py)
    import mix
    for _ in range(1500 if thorough else 130):
        progs_.append(("mix", mix.mix_program(rnd, depth=rnd.choice([3, 4, 4, 5]))))
    recs, drv = [], []
    for i, (kind, forms) in enumerate(progs_):
        recs.append(mach.prog_record(i, [forms], {}))
        drv.append({"id": i, "seq": [P.src(forms)], "cfg": {"nostdlib": True}})
    model, res = mach.run_machine(work, recs, timeout=3300)
    V.tlc(res, "Machine: %d core-language programs" % len(progs_))
    if res.violated:
        raise MachineryError("Machine invariant %s violated in the model:\n%s" % (res.violated, res.raw[-2000:]))
    if len(model) != len(recs):
        raise MachineryError("Machine produced %d of %d transcripts" % (len(model), len(recs)))
    real = {r["id"]: r["runs"][0]["evals"] for r in driver_json(binary, ["run"], drv, timeout=3300)}
    cnt = {}
    for i, (kind, forms) in enumerate(progs_):
        cnt[kind] = cnt.get(kind, 0) + 1
        d = mach.compare_eval(model[i][0], real[i][0])
        if d:
            V.add(None, "%s program evaluates differently from the definitional machine: %s" % (kind, d), {"src": drv[i]["seq"][0], "diff": d})
        if i % 500 == 11:
            V.sample({"kind": kind, "program": drv[i]["seq"][0][-500:], "value": str(mach.nm(model[i][0]["v"]))[:100]})
    V.coverage["programs_by_family"] = cnt
    V.coverage["traces_validated_against_impl"] = len(progs_)
    # ---- leaf law: arithmetic at the 64-bit boundaries ---------------------------------------------------------
    ac = arith_cases(rnd, 6000 if thorough else 1500)
    lit = lambda a: json.dumps(a, ensure_ascii=False) if isinstance(a, str) else repr(a)
    ares = driver_json(binary, ["run"], [{"id": i, "seq": ["(%s %s)" % (op, " ".join(lit(a) for a in args))], "cfg": {"nocount": True, "nostdlib": True}} for i, (op, args) in enumerate(ac)])
    for r in ares:
        op, args = ac[r["id"]]
        ev = r["runs"][0]["evals"][0]
        want = arith_oracle(op, args)
        v = ev["v"]
        src = "(%s %s)" % (op, " ".join(lit(a) for a in args))
        if want[0] == "bool":
            if not (v["t"] == "sym" and v.get("s") == ("true" if want[1] else "false")):
                V.add(None, "leaf law: %s gives %s, the comparison is %s" % (src, json.dumps(v), want[1]), {"src": src})
        elif want[0] == "str":
            if not (v["t"] == "str" and v["s"] == want[1]):
                V.add(None, "leaf law: %s gives %s, expected the string %r" % (src, json.dumps(v), want[1]), {"src": src})
        elif want[0] == "numval":
            from fractions import Fraction
            got = Fraction(v["n"]) if v["t"] == "int" else (Fraction(float(v["s"])) if v["t"] == "float" else None)
            if got != want[1] or {"int": "int", "float": "float"}.get(v["t"]) not in want[2]:
                V.add(None, "leaf law: %s gives %s, the extreme argument is %s" % (src, json.dumps(v), want[1]), {"src": src})
        elif want[0] == "error":
            if v["t"] != "err":
                V.add(None, "leaf law: %s gives %s, an error was expected" % (src, json.dumps(v)), {"src": src})
        elif v["t"] == "err":
            V.add(None, "leaf law: %s raises %s" % (src, (ev.get("err") or {}).get("msg")), {"src": src})
        elif want[0] == "int" and not (v["t"] == "int" and v["n"] == want[1]):
            V.add(None, "leaf law: %s gives %s, exact 64-bit arithmetic gives the int %d" % (src, json.dumps(v), want[1]), {"src": src})
        elif want[0] == "float" and not (v["t"] == "float" and float(v["s"]) == want[1]):
            V.add(None, "leaf law: %s gives %s, the numeric tower gives the float %r" % (src, json.dumps(v), want[1]), {"src": src})
        elif want[0] == "float-any" and v["t"] != "float":
            V.add(None, "leaf law: %s gives %s, a float (infinity or NaN) was expected" % (src, json.dumps(v)), {"src": src})
    V.coverage["arithmetic_leaf_cases"] = len(ac)
    # ---- threading operators: Machine.tla follows the code (each intermediate VALUE is spliced into the next step as an
    # expression); the reference meaning is the nested form, and the two differ exactly when a value is an unquoted list
    # or symbol.  Decided here against the nested form written out.
    TH = [("(thread-first '((+ 1 2)) (car) (list))", "(list (car '((+ 1 2))))"), ("(thread-last '(b c) (car) (list 1))", "(list 1 (car '(b c)))"),
          ("(thread-first '(1 2) (cdr) (car))", "(car (cdr '(1 2)))"), ("(thread-last 5 (list 1) (car))", "(car (list 1 5))")]
    tres = driver_json(binary, ["run"], [{"id": i, "seq": [a, b], "cfg": {"nostdlib": True}} for i, (a, b) in enumerate(TH)])
    for r in tres:
        a, b = TH[r["id"]]
        ea, eb = r["runs"][0]["evals"]
        if json.dumps(ea["v"], sort_keys=True) != json.dumps(eb["v"], sort_keys=True):
            V.add("thread-reeval", "%s gives %s, the nested form %s gives %s" % (a, json.dumps(ea["v"])[:120], b, json.dumps(eb["v"])[:120]), {"src": a, "nested": b})
    # ---- closures made in let / let* VALUE expressions: Machine.tla follows the code (values are evaluated in the let's
    # own environment, so such a closure later sees the let's bindings); the reference (docs/lang.md: "result2 cannot
    # reference variable1", let* sees the EARLIER bindings only) says the closure belongs to the scope outside
    LV = [("(set 'x 0) (let ((x 1) (f (lambda () x))) (funcall f))", {"t": "int", "n": 0}),
          ("(set 'x 0) (let* ((f (lambda () x)) (x 1)) (funcall f))", {"t": "int", "n": 0}),
          ("(defun cnt (n) 'global) (let ((cnt (lambda (n) (if (<= n 0) 'local (cnt (- n 1)))))) (funcall cnt 2))", {"t": "sym", "s": "global"}),
          ("(set 'x 0) (let ((x 1) (y (+ x 10))) y)", {"t": "int", "n": 10})]
    lres = driver_json(binary, ["run"], [{"id": i, "seq": [a], "cfg": {"nostdlib": True}} for i, (a, _) in enumerate(LV)])
    for r in lres:
        a, want = LV[r["id"]]
        v = r["runs"][0]["evals"][0]["v"]
        if any(v.get(k) != want[k] for k in want):
            V.add("let-value-closure", "%s gives %s, the documented scoping gives %s" % (a, json.dumps(v)[:120], json.dumps(want)), {"src": a})
    V.coverage["exhaustive"] = False
    V.coverage["explanation"] = "scope family: all 343 nestings of 3 binders x sampled mutation/capture patterns; binding family: every formal list of <= 3 names x 0..4 arguments x 3 call paths (exhaustive); %d seeded typed random programs" % cnt.get("random", 0)
    return V.finish()
