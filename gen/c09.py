"""C09  Parsed programs are immutable; runtimes are isolated under any interleaving.

Shared.tla: R runtimes x one Program region; scripts of the operations by which a program literal reaches a
mutating builtin; interleaving is the only nondeterminism.  TLC checks ProgramFrozen, NoLaunder and Isolation
in every state of every interleaving (exhaustive for R=2, scripts of 2 operations; simulation for R=3) and
prints complete behaviours (scripts + schedule + results).  The harness parses the program ONCE, shares the
expression slice between real runtimes on separate goroutines, imposes TLC's schedule with one gate per
operation and compares: the structural fingerprint of the shared expressions before/after, every result with
the specification's and with a solo run against a fresh parse, the literal re-evaluated afterwards.  The same
scripts also run free (ungated) under the Go race detector.

Launder.tla + elpsdrive launder: the same statement for EVERY callable of the registry (language package and standard
library): a literal or a view of one in each argument position next to plausible companions, the result then changed
in place by every mutator the language has, recursively; the literals and the program's fingerprint must not notice.
"""
import random, json
from vlib import *

PROGRAM = """(set 'counter 0)
(set 'threaded (thread-last counter (+ 0) (list 7 8)))
(set 'threaded-first (thread-first counter (+ 0) (list 7 8)))
(defun lit () '(3 1 2))
(defun op-sort () (stable-sort < (lit)))
(defun op-cdrsort () (stable-sort < (cdr (lit))))
(defun op-slicepush () (append! (slice 'vector (lit) 0 2) 9))
(defun op-append0 () (stable-sort < (append 'vector (lit))))
(defun qlit () '(''(3 1 2) ''(9 8 7) ''(6 5 4)))
(defun by-min (a b) (< (first (stable-sort < (eval a))) (first (stable-sort < (eval b)))))
(defun op-quotecmp () (progn (stable-sort by-min (qlit)) (eval (first (qlit)))))
(defun op-slicelist () (stable-sort < (slice 'list (lit) 0 3)))
(defun op-slicefull () (stable-sort < (slice 'vector (lit) 0 3)))
(defun op-slicetail () (stable-sort < (slice 'vector (lit) 1 3)))
(defun op-slicecdr () (stable-sort < (slice 'vector (cdr (lit)) 0 2)))
(defun op-restsort () (stable-sort < (rest (lit))))
(defmacro sort-arg (x) (quasiquote (quote (unquote (stable-sort < x)))))
(defun op-macroarg () (sort-arg (3 1 2)))
(defun op-define () (set 'counter (+ counter 1)))
(defun op-read () (lit))
(defun with-rest (&rest xs) (stable-sort < xs))
(defun op-restargs () (with-rest 3 1 2))
(defun with-req-rest (a &rest xs) (stable-sort < xs))
(defun with-opt (&optional xs) (stable-sort < xs))
(defun nested () '((3 1 2)))
(defun op-applyrest () (apply with-rest (lit)))
(defun op-applycdr () (apply with-rest (cdr (lit))))
(defun op-applyreq () (apply with-req-rest (lit)))
(defun op-funcallopt () (funcall with-opt (lit)))
(defun op-mapsort () (car (map 'list (lambda (x) (stable-sort < x)) (nested))))
(defun op-threadlast () (thread-last counter (+ 0) (list 7 8)))
(defun op-foldsort () (foldl (lambda (acc x) (stable-sort < x)) () (nested)))
(set 'mode-seen (mode-now))
(defun op-setflag () (set 'expansion-flag 1))
(defun op-readmode () mode-seen)
"""
FORM = {"slicelist": "(op-slicelist)", "quotecmp": "(op-quotecmp)", "slicefull": "(op-slicefull)", "slicetail": "(op-slicetail)", "slicecdr": "(op-slicecdr)", "sort": "(op-sort)", "cdrsort": "(op-cdrsort)", "slicepush": "(op-slicepush)", "append0": "(op-append0)", "restsort": "(op-restsort)",
        "macroarg": "(op-macroarg)", "define": "(op-define)", "read": "(op-read)", "reload": "(reload)",
        "applyrest": "(op-applyrest)", "applycdr": "(op-applycdr)", "applyreq": "(op-applyreq)", "funcallopt": "(op-funcallopt)",
        "mapsort": "(op-mapsort)", "foldsort": "(op-foldsort)", "hostwiden": "(host-widen)", "hostcall": "(host-call)", "threadlast": "(op-threadlast)", "setflag": "(op-setflag)", "readmode": "(op-readmode)"}
CFG = """SPECIFICATION Spec
CONSTANTS R = %d
 LEN = %d
 COW = %s
 EMIT = %s
INVARIANTS ProgramFrozen NoLaunder Isolation
CHECK_DEADLOCK FALSE
"""


def show(model_result, op):
    """the printed form the real interpreter gives for a model result"""
    if op in ("define", "reload", "hostwiden", "hostcall", "setflag", "readmode"):
        return str(model_result[0])
    if op == "slicepush":
        return "(vector %s)" % " ".join(str(x) for x in model_result)
    if op in ("mapsort", "foldsort"):      # the inner list of a nested literal is an unquoted node
        return "(%s)" % " ".join(str(x) for x in model_result)
    if op in ("append0", "slicefull", "slicetail", "slicecdr"):
        return "(vector %s)" % " ".join(str(x) for x in model_result)
    return "'(%s)" % " ".join(str(x) for x in model_result)


def run(tier):
    V = Verdict("C09", tier)
    work = Work("C09")
    try:
        return _run(V, work, tier)
    finally:
        work.close()


def _run(V, work, tier):
    thorough = tier == "thorough"
    rnd = random.Random(seed())
    binary = build_driver()
    racebin = build_driver(race=True)
    # exhaustive: 2 runtimes, scripts of 2 operations, all interleavings
    res = run_tlc(work, "Shared", CFG % (2, 2, "TRUE", "TRUE"), timeout=3000)
    V.tlc(res, "Shared exhaustive: 2 runtimes x all scripts of 2 operations x all interleavings")
    if res.violated:
        raise MachineryError("Shared invariant violated inside the specification:\n" + res.raw[-2500:])
    behaviours = res.lines
    res0 = run_tlc(work, "Shared", CFG % (2, 1, "FALSE", "FALSE"), timeout=600)
    if "ProgramFrozen" not in res0.violated and "Isolation" not in res0.violated:
        raise MachineryError("vacuity: Shared with COW=FALSE does not violate ProgramFrozen/Isolation")
    V.coverage["nonvacuous_without_copy_on_write"] = True
    # three runtimes, scripts of 3: simulation
    r3 = run_tlc(work, "Shared", CFG % (3, 3, "TRUE", "TRUE"), timeout=300, simulate="num=100000000", depth=12, seed_=seed(), workers=4,
                 stop_after=3000 if thorough else 400)
    if r3.error:
        raise MachineryError("Shared simulation failed: " + r3.error)
    V.coverage.setdefault("tlc_runs", []).append({"what": "Shared simulation R=3 LEN=3", "printed": len(r3.lines)})
    # one runtime, scripts of 3, exhaustive: the histories around a RELOAD (what a load leaves behind in the runtime must not
    # change what the next load of the same Program does - each load behaves like a fresh parse)
    r1 = run_tlc(work, "Shared", CFG % (1, 3, "TRUE", "TRUE"), timeout=1200)
    V.tlc(r1, "Shared exhaustive: 1 runtime x all scripts of 3 operations")
    if r1.violated:
        raise MachineryError("Shared invariant violated inside the specification (R=1):\n" + r1.raw[-2500:])
    hist3 = [b for b in r1.lines if "reload" in b["scripts"][0][:2]]
    stateful = [b for b in hist3 if {"setflag", "readmode"} <= set(b["scripts"][0]) or {"define", "threadlast"} <= set(b["scripts"][0])]
    rest3 = [b for b in hist3 if b not in stateful]
    hist3 = stateful + rnd.sample(rest3, min(len(rest3), 3000 if thorough else 500))
    V.coverage["reload_histories"] = len(hist3)
    # TLC has checked every behaviour; the replay takes a sample (all of them took 25 minutes)
    behaviours = rnd.sample(behaviours, min(len(behaviours), 120000 if thorough else 1500))
    behaviours = behaviours + r3.lines + hist3
    recs = []
    for i, b in enumerate(behaviours):
        recs.append({"id": i, "program": PROGRAM, "scripts": [[FORM[o] for o in sc] for sc in b["scripts"]], "sched": b["sched"], "loads": 1})
    out = {r["id"]: r for r in driver_json(binary, ["shared"], recs, timeout=3000)}
    for i, b in enumerate(behaviours):
        o = out[i]
        case = {"scripts": b["scripts"], "sched": b["sched"]}
        if o["fp_before"] != o["fp_after"]:
            V.add(None, "the shared program's structural fingerprint changed", dict(case, before=o["fp_before"], after=o["fp_after"]))
        for r, sc in enumerate(b["scripts"]):
            want = [show(b["results"][r][k], sc[k]) for k in range(len(sc))]
            if o["results"][r] != want:
                V.add(None, "runtime %d's results differ from the specification under schedule %s: real %s, specification %s" % (r + 1, b["sched"], o["results"][r], want), dict(case, real=o["results"]))
            if o["results"][r] != o["solo"][r]:
                V.add(None, "runtime %d's results depend on the other runtimes (solo run against a fresh parse: %s, interleaved: %s)" % (r + 1, o["solo"][r], o["results"][r]), case)
            if o["lit_after"][r] != "'(3 1 2)" or o.get("nested_after", ["'('(3 1 2))"] * 9)[r] not in ("'('(3 1 2))", "'((3 1 2))"):
                V.add(None, "the quoted literal evaluates to %s afterwards" % o["lit_after"][r], case)
        if i % 500 == 3:
            V.sample({"scripts": b["scripts"], "schedule": b["sched"], "results": o["results"]})
    # free-running under the race detector: many loads, all scripts at once
    free = []
    for i in range(60 if thorough else 12):
        scripts = [[FORM[rnd.choice(list(FORM))] for _ in range(6)] + ["(op-restargs)"] for _ in range(8)]
        free.append({"id": "f%d" % i, "program": PROGRAM, "scripts": scripts, "sched": [], "loads": 3})
    text = "".join(json.dumps(r) + "\n" for r in free)
    rc, sout, serr = run_driver(racebin, ["shared"], text, timeout=3000, env={"GORACE": "halt_on_error=0"})
    if "DATA RACE" in serr:
        V.add(None, "the Go race detector reports a data race between runtimes sharing one parsed program", {"report": serr[:6000]})
    elif rc != 0:
        raise MachineryError("race build of the driver failed to run: rc=%d %s" % (rc, serr[-1500:]))
    else:
        for line in sout.splitlines():
            o = json.loads(line)
            if o["fp_before"] != o["fp_after"]:
                V.add(None, "fingerprint changed under free-running concurrent loads", {"id": o["id"]})
            for r in range(len(o["results"])):
                if o["results"][r] != o["solo"][r]:
                    V.add(None, "free-running runtime %d differs from its solo run: %s vs %s" % (r + 1, o["results"][r], o["solo"][r]), {"id": o["id"]})
    V.coverage["free_running_race_runs"] = len(free)
    # ---- the registry-wide sweep: whatever callable a literal (or a view of one) is handed to, and whatever is done in
    # place to the result afterwards, the literal and the parsed program read as before (Launder.tla)
    import launder
    launder.sweep(V, work, binary, tier, {"literal", "fingerprint"})
    V.coverage["traces_validated_against_impl"] = len(behaviours)
    V.coverage["exhaustive"] = False
    V.coverage["explanation"] = "%d gated behaviours (schedules from TLC) replayed on shared parses; %d free-running 8-goroutine runs under -race" % (len(behaviours), len(free))
    V.assumptions += ["gated replay orders operations with channels, so only the free-running runs can exhibit data races"]
    return V.finish()
