"""The registry-wide sharing sweep (elpsdrive launder) and its validation against Launder.tla.

Used by C09 (classes literal / fingerprint: ProgramFrozen, LiteralStable) and C11 (classes target / other: NonMutating).
"""
import json, subprocess
from vlib import *

MUTATORS = ["lisp:assoc!", "lisp:dissoc!", "lisp:append!", "lisp:append-bytes!", "lisp:stable-sort",
            "elpspath:?set!", "elpspath:?del!", "elpspath:?nil!"]
CFG = "SPECIFICATION Spec\nCONSTANTS MUTATORS = {%s}\nCHECK_DEADLOCK FALSE\nPOSTCONDITION Accepted\n" % ", ".join('"%s"' % m for m in MUTATORS)


def run_sweep(binary, samples, seed_, shards=None):
    shards = shards or min(NCPU, 16)
    procs = []
    for i in range(shards):
        p = subprocess.Popen([binary, "launder"], stdin=subprocess.PIPE, stdout=subprocess.PIPE, stderr=subprocess.PIPE, text=True)
        p.stdin.write(json.dumps({"id": i, "shard": i, "shards": shards, "samples": samples, "seed": seed_ + i}) + "\n")
        p.stdin.close()
        procs.append(p)
    recs = []
    for p in procs:
        out = p.stdout.read()
        err = p.stderr.read()
        p.wait()
        if p.returncode != 0:
            raise MachineryError("launder sweep failed (rc %d): %s %s" % (p.returncode, err[-800:], out[-300:]))
        recs += [json.loads(l) for l in out.splitlines() if l.strip()]
    # (callables that take no argument have nothing to be handed)
    return sorted([r for r in recs if r["calls"] > 0], key=lambda r: r["name"])


def trace_record(r):
    c = r["counts"]
    return {"name": r["name"], "calls": r["calls"], "literal": c["literal"], "macrolit": c.get("macrolit", 0), "fingerprint": c["fingerprint"], "target": c["target"], "other": c["other"]}


def flagged(t, classes):
    """the classes (of those asked about) in which Launder.tla's predicates fail for this record"""
    out = []
    if "literal" in classes and t["literal"]:
        out.append("literal")
    if "fingerprint" in classes and t["fingerprint"]:
        out.append("fingerprint")
    if "other" in classes and t["other"]:
        out.append("other")
    if "target" in classes and t["target"] and t["name"] not in MUTATORS:
        out.append("target")
    return out


def sweep(V, work, binary, tier, classes):
    """classes: which of literal / fingerprint / target / other this property answers for"""
    thorough = tier == "thorough"
    recs = run_sweep(binary, 40000 if thorough else 2500, seed())
    calls = sum(r["calls"] for r in recs)
    if len(recs) < 150 or calls < 100000:
        raise MachineryError("the sharing sweep is not reaching the registry: %d callables, %d applications" % (len(recs), calls))
    trace = [trace_record(r) for r in recs]
    seen = {t["name"] for t in trace if t["target"]}
    missing = [m for m in MUTATORS if m not in seen]
    if missing:
        raise MachineryError("vacuity: the sweep did not see the documented mutators %s change the value they were handed" % missing)
    nviol = 0
    clean = []
    if "literal" in classes:
        for r, t in zip(recs, trace):
            if t["macrolit"]:
                for b in [b for b in (r.get("bad") or []) if b["class"] == "macrolit"][:1]:
                    V.add("macro-template-literal", "a literal written in a macro template does not survive %s" % b["call"], {"call": b["call"], "before": b["before"], "after": b["after"]})
    for r, t in zip(recs, trace):
        fl = flagged(t, classes)
        allfl = flagged(t, {"literal", "fingerprint", "target", "other"})
        if not allfl:
            clean.append(t)
        for cl in fl:
            ex = [b for b in (r.get("bad") or []) if b["class"] == cl][:3]
            for b in ex or [{"call": "?", "before": "?", "after": "?", "what": cl}]:
                nviol += 1
                if cl in ("literal", "fingerprint"):
                    msg = "a program literal does not survive %s: %s now reads %s (was %s)" % (b["call"], b["what"], b["after"][:160], b["before"][:160])
                elif cl == "target":
                    msg = "%s is not documented as mutating, yet %s changed its argument from %s to %s" % (r["name"], b["call"], b["before"][:160], b["after"][:160])
                else:
                    msg = "%s changed a value that was not handed to it (%s): %s -> %s" % (b["call"], b["what"], b["before"][:160], b["after"][:160])
                V.add(None, msg, {"call": b["call"], "class": cl, "before": b["before"], "after": b["after"], "callable": r["name"], "counts": r["counts"],
                                  "how": "elpsdrive launder with {\"only\":[\"%s\"]}" % r["name"]})
            # Launder.tla must reject the record on its own
            resb = run_tlc(work, "Launder", CFG, files={"laundertrace.ndjson": json.dumps(t) + "\n"}, timeout=300, workers=1)
            if not (resb.violated or resb.error):
                raise MachineryError("Launder.tla accepted a record the harness flagged: %r" % t)
    text = "".join(json.dumps(t, separators=(",", ":")) + "\n" for t in clean)
    res = run_tlc(work, "Launder", CFG, files={"laundertrace.ndjson": text}, timeout=600, workers=1)
    V.tlc(res, "Launder (trace): %d callable records validated (%d applications)" % (len(clean), calls))
    if res.violated or res.error:
        raise MachineryError("Launder.tla rejected a record the harness had accepted: %s" % (res.error or res.raw[-400:]))
    # self-test: one corrupted record must be rejected
    bad = dict(clean[0], literal=1)
    res3 = run_tlc(work, "Launder", CFG, files={"laundertrace.ndjson": json.dumps(bad) + "\n" + text}, timeout=600, workers=1)
    if not (res3.violated or res3.error):
        raise MachineryError("Launder.tla accepted a trace whose first record reports a changed literal")
    V.coverage["sharing_sweep_callables"] = len(recs)
    V.coverage["sharing_sweep_applications"] = calls
    return nviol
