"""C03  No source text or data value can crash, wedge or panic the embedding host.

Host.tla enumerates every hostile recipe (vehicle x entry point, sink x self-containing / deep shape x entry point)
with the outcomes it allows; each recipe is rendered to source text and loaded by the real interpreter in its own
process under a step budget, the default stack / nesting / macro limits, a sleep ceiling and a context deadline; the
recorded (outcome, elapsed) records are validated against Host.tla (trace mode).  The same trace carries
  - reader-only records: hostile byte strings (deep nesting of every opener, long atoms, all byte pairs, random
    bytes, truncated UTF-8) given to the three readers with NO limits configured;
  - call-batch records: every registered builtin / operator / macro applied through the evaluator to argument tuples
    from a pool of value kinds (the `matrix` driver), one record per callable.
A process that dies (fatal stack exhaustion), a watchdog expiry, an escaped Go panic or the internal-panic condition
is a violation.
"""
import base64, random, subprocess, json, itertools, concurrent.futures, os, time
from vlib import *

DEADLINE = 5000
SLACK = 3000

DEFS = {
    "rec-nontail": "(defun hz-f (n) (+ 1 (hz-f n)))",
    "rec-tail": "(defun hz-f (n) (hz-f (+ n 1)))",
    "rec-mutual": "(defun hz-f (n) (list (hz-g n))) (defun hz-g (n) (list (hz-f n)))",
    "rec-funcall": "(defun hz-f (n) (list (funcall 'hz-f n)))",
    "rec-apply": "(defun hz-f (n) (list (apply hz-f (list n))))",
    "rec-map": "(defun hz-f (n) (map 'list (lambda (y) (hz-f y)) (list n n)))",
    "rec-foldl": "(defun hz-f (n) (foldl (lambda (acc y) (hz-f y)) 0 (list n)))",
    "rec-handler": "(defun hz-f (n) (handler-bind ((condition (lambda (c &rest a) (hz-f n)))) (error 'hz-cond \"again\")))",
    "rec-macro-expansion": "(defmacro hz-m () '(hz-m)) (defun hz-f (n) (hz-m))",
    "rec-macro-nested": "(defmacro hz-m () (list 'list '(hz-m))) (defun hz-f (n) (hz-m))",
    "rec-macro-body": "(defmacro hz-m () (hz-m)) (defun hz-f (n) (hz-m))",
    "rec-load-string": "(defun hz-f (n) (list (load-string \"(hz-f 1)\")))",
    "rec-eval": "(defun hz-f (n) (list (eval '(hz-f 1))))",
    "rec-labels": "(defun hz-f (n) (labels ((a (k) (list (b k))) (b (k) (list (a k)))) (a n)))",
    "rec-self-apply": "(defun hz-f (n) ((lambda (s) (list (funcall s s))) (lambda (s) (list (funcall s s)))))",
    "rec-args": "(defun hz-f (n) (hz-f (hz-f (hz-f n))))",
    # the recursive call sits under 80 levels of argument nesting: frames x nesting is what the Go stack pays for
    "rec-nested-args": "(defun hz-f (n) " + "(+ 1 " * 80 + "(hz-f n)" + ")" * 80 + ")",
    "rec-nested-let": "(defun hz-f (n) " + "(let ((v " * 40 + "(hz-f n)" + ")) v)" * 40 + ")",
    # recursion carried by builtins calling builtins over nested data: no lambda body, no re-entry of eval; 30000
    # levels of two frames each, more than the physical bound admits, so only an error can come back
    "rec-builtin-data": "(defun hz-f (n) (let ((x (list + 0 (list 1 2)))) (dotimes (i 30000) (set! x (list apply foldl (list x)))) (apply foldl x)))",
    "rec-builtin-data-map": "(defun hz-f (n) (let ((x (list + 0 (list 1 2)))) (dotimes (i 30000) (set! x (list apply foldl (list x)))) (map 'list (lambda (y) (apply foldl y)) (list x))))",
    "rec-thread": "(defun hz-f (n) (thread-first n (hz-f) (list)))",
    "loop-dotimes": "(defun hz-f (n) (dotimes (i 1000000000000) i))",
    "loop-tail-growing": "(defun hz-g (acc) (hz-g (cons 1 acc))) (defun hz-f (n) (hz-g ()))",
    "sleep-long": "(defun hz-f (n) (time:sleep (time:parse-duration \"9223372036s\")) (hz-f n))",
    "deep-form-eval": "(defun hz-f (n) (let ((form 1)) (dotimes (i 60000) (set! form (list '+ 1 form))) (eval form)))",
    "deep-quasiquote": "(defun hz-f (n) (let ((form 1)) (dotimes (i 60000) (set! form (list 'quasiquote (list 'unquote form)))) (eval form)))",
}

SHAPES = {
    "cyc-vec": "(set 'hz-v (vector 1 2)) (append! hz-v hz-v)",
    "cyc-vec-wide": "(set 'hz-v (vector 1)) (append! hz-v hz-v) (append! hz-v hz-v) (append! hz-v hz-v) (append! hz-v hz-v)",
    "cyc-map": "(set 'hz-v (sorted-map \"k\" 1)) (assoc! hz-v \"self\" hz-v)",
    "cyc-map-2keys": "(set 'hz-v (sorted-map)) (assoc! hz-v \"a\" hz-v) (assoc! hz-v \"b\" hz-v) (assoc! hz-v \"c\" hz-v)",
    "cyc-mutual": "(set 'hz-v (vector 1)) (set 'hz-w (sorted-map \"v\" hz-v)) (append! hz-v hz-w)",
    "cyc-nested": "(set 'hz-v (vector 1)) (append! hz-v (list 1 (sorted-map \"in\" (list (vector hz-v)))))",
    "cyc-in-list": "(set 'hz-u (vector 1)) (append! hz-u hz-u) (set 'hz-v (list 1 hz-u \"x\"))",
    # cycles that pass through a tagged value (a deftype / new instance)
    "cyc-tagged": "(deftype hz-box (x) x) (set 'hz-m (sorted-map)) (set 'hz-v (new hz-box hz-m)) (assoc! hz-m \"k\" hz-v)",
    "cyc-tagged-vec": "(deftype hz-box (x) x) (set 'hz-u (vector 1)) (set 'hz-v (new hz-box hz-u)) (append! hz-u hz-v)",
    "deep-vec": "(set 'hz-v (vector)) (dotimes (i 3000) (set 'hz-v (vector hz-v)))",
    "deep-list": "(set 'hz-v ()) (dotimes (i 3000) (set 'hz-v (list hz-v)))",
    "dag": "(set 'hz-v 1) (dotimes (i 12) (set 'hz-v (list hz-v hz-v)))",
    # two RINGS of maps whose lengths are coprime (a pair of positions repeats only after lcm(p, q) steps of a pairwise walk)
    "cyc-rings": "(defun hz-ring (n) (let* ((head (sorted-map)) (cur head)) (dotimes (i (- n 1)) (let ((nx (sorted-map))) (assoc! cur \"next\" nx) (set! cur nx))) (assoc! cur \"next\" head) head)) (set 'hz-v (list (hz-ring 2003) (hz-ring 2011)))",
}

SINKS = {
    "format-string": "(length (format-string \"{} {}\" hz-v hz-v))",
    "to-string": "(to-string hz-v)",
    "debug-print": "(debug-print hz-v)",
    "equal-self": "(equal? hz-v hz-v)",
    "equal-copy": "(equal? hz-v (map 'list identity (if (sorted-map? hz-v) (list hz-v) hz-v)))",
    "json-dump-string": "(length (json:dump-string hz-v))",
    "json-dump-bytes": "(length (json:dump-bytes hz-v))",
    "json-dump-message": "(json:dump-message hz-v)",
    "path-get": "(elpspath:? hz-v 0 0 0 \"self\" \"a\")",
    "path-set": "(elpspath:?set hz-v 0 hz-v)",
    "path-del": "(elpspath:?del hz-v 0)",
    "error-data": "(error 'hz-data hz-v)",
    "map-key": "(sorted-map hz-v 1)",
    "sort": "(stable-sort (lambda (a b) (equal? a b)) (list hz-v hz-v hz-v))",
    "append-again": "(progn (if (vector? hz-v) (append! hz-v hz-v) ()) (length (format-string \"{}\" hz-v)))",
    "string-concat": "(length (string:join (list (format-string \"{}\" hz-v) \"x\") \",\"))",
    "schema-validate": "(progn (s:deftype \"hz-any\" s:any) (s:validate hz-any hz-v))",
    "macro-argument": "(progn (defmacro hz-q (x) (list 'quote x)) (eval (list 'hz-q hz-v)))",
    "macro-result": "(progn (defmacro hz-knot () hz-v) (hz-knot))",
    "macroexpand": "(progn (defmacro hz-knot2 () (list 'quote hz-v)) (macroexpand '(hz-knot2)))",
    "eval-form": "(eval (list 'list hz-v hz-v))",
    "quasiquote-splice": "(quasiquote (1 (unquote hz-v) (unquote-splicing (list hz-v hz-v))))",
    "concat": "(concat 'list (list hz-v) (list hz-v))",
    "reverse": "(reverse 'list (list hz-v hz-v))",
    "equal-pair": "(if (list? hz-v) (equal? (first hz-v) (second hz-v)) (equal? hz-v (list hz-v)))",
}


# a callback that changes the container being walked (hz-v is a vector of six numbers)
MUTATIONS = {
    "shrink": "(elpspath:?del! hz-v 0)",
    "shrink-many": "(progn (elpspath:?del! hz-v 0) (elpspath:?del! hz-v 0) (elpspath:?del! hz-v 0))",
    "grow": "(append! hz-v 7 7 7 7 7 7 7 7 7)",
    "empty": "(elpspath:?del! hz-v '(range 0 (length hz-v)))",
    "overwrite": "(elpspath:?set! hz-v 0 \"s\")",
    "grow-then-shrink": "(progn (append! hz-v 1 2 3) (elpspath:?del! hz-v 0) (elpspath:?del! hz-v 0) (elpspath:?del! hz-v 0) (elpspath:?del! hz-v 0))",
}
TRAVERSERS = {
    "map": "(map 'vector (lambda (e) (ignore-errors %s) e) hz-v)",
    "foldl": "(foldl (lambda (acc e) (ignore-errors %s) (+ acc 1)) 0 hz-v)",
    "foldr": "(foldr (lambda (e acc) (ignore-errors %s) (+ acc 1)) 0 hz-v)",
    "select": "(select 'vector (lambda (e) (ignore-errors %s) true) hz-v)",
    "reject": "(reject 'list (lambda (e) (ignore-errors %s) false) hz-v)",
    "any": "(any? (lambda (e) (ignore-errors %s) false) hz-v)",
    "all": "(all? (lambda (e) (ignore-errors %s) true) hz-v)",
    "stable-sort": "(stable-sort (lambda (a b) (ignore-errors %s) (< a b)) hz-v)",
    "stable-sort-key": "(stable-sort < hz-v (lambda (e) (ignore-errors %s) e))",
    "insert-sorted": "(insert-sorted 'vector hz-v (lambda (a b) (ignore-errors %s) (< a b)) 10)",
    "insert-sorted-key": "(insert-sorted 'list hz-v < 4 (lambda (e) (ignore-errors %s) e))",
    "zip-map": "(map 'list (lambda (p) (ignore-errors %s) p) (zip 'vector hz-v hz-v))",
    "dotimes-aref": "(dotimes (i (length hz-v)) (ignore-errors %s) (aref hz-v i))",
    "path-loop": "(map 'list (lambda (i) (ignore-errors %s) (elpspath:? hz-v i)) (list 0 1 2 3 4 5))",
}


SWEEPSHAPES = {
    "bytes": "(to-bytes (string:repeat \"a\" n))",
    "string": "(string:repeat \"b\" n)",
    "list": "(make-sequence 0 n)",
    "vector": "(map 'vector identity (make-sequence 0 n))",
    "map": "(foldl (lambda (m i) (assoc m (to-string i) i)) (sorted-map) (make-sequence 0 (mod n 60)))",
    "bytes-in-map": "(sorted-map \"data\" (to-bytes (string:repeat \"a\" n)) \"n\" n)",
    "string-in-list": "(list 1 (string:repeat \"c\" n) 2)",
}
SWEEPSINKS = {
    "json-dump-bytes": "(length (json:dump-bytes v))",
    "json-dump-string": "(length (json:dump-string v))",
    "json-dump-message": "(json:dump-message v)",
    "base64-encode": "(if (bytes? v) (base64:encode v) (if (string? v) (base64:encode (to-bytes v)) ()))",
    "to-string": "(ignore-errors (to-string v))",
    "format-string": "(length (format-string \"{} {}\" v n))",
    "concat-string": "(if (string? v) (length (concat 'string v \"x\" v)) ())",
    "to-bytes": "(if (string? v) (length (to-bytes v)) ())",
    "json-roundtrip": "(ignore-errors (json:load-string (json:dump-string v)))",
    "equal": "(equal? v v)",
}


def place(entry, call):
    """the hostile call at an entry point"""
    return {
        "top": call,
        "function": "(defun hz-enter () (list %s)) (hz-enter)" % call,
        "lambda-funcall": "(funcall (lambda () (list %s)))" % call,
        "handler-body": "(handler-bind ((hz-never (lambda (c &rest a) 1))) (list %s))" % call,
        "handler": "(handler-bind ((hz-trigger (lambda (c &rest a) (list %s)))) (error 'hz-trigger \"go\"))" % call,
        "ignore-errors": "(ignore-errors (list %s))" % call,
        "macro-expansion": "(defmacro hz-at-expansion () (list 'quote (list %s))) (hz-at-expansion)" % call,
        "load-string": "(load-string %s)" % json.dumps(call),
        "let-value": "(let* ((a 1) (b (list %s))) b)" % call,
        "argument": "(list 1 (list 2 (list 3 %s)))" % call,
        "apply-callback": "(map 'list (lambda (y) (list %s)) (list 1))" % call,
    }[entry]


def render(r):
    if r["kind"] == "sweep":
        return "(dotimes (n 1101) (let ((v %s)) %s))\n'swept" % (SWEEPSHAPES[r["shape"]], SWEEPSINKS[r["what"]])
    if r["kind"] == "mutcb":
        return "(set 'hz-v (vector 5 3 8 1 9 2))\n" + place(r["entry"], "(list " + (TRAVERSERS[r["what"]] % MUTATIONS[r["shape"]]) + " (length (format-string \"{}\" hz-v)))")
    if r["kind"] == "vehicle":
        return DEFS[r["what"]] + "\n" + place(r["entry"], "(hz-f 1)")
    return SHAPES[r["shape"]] + "\n" + place(r["entry"], SINKS[r["what"]])


def hostile_one(binary, rec, timeout=180):
    """one record in its own process: a fatal runtime error must be attributable"""
    p = subprocess.run([binary, "hostile"], input=json.dumps(rec) + "\n", capture_output=True, text=True, env=goenv(), timeout=timeout)
    lines = [l for l in p.stdout.splitlines() if l.strip()]
    if p.returncode == 0 and lines:
        return json.loads(lines[-1])
    if p.returncode == 3:
        return {"id": rec["id"], "outcome": "wedge", "ms": timeout * 1000, "msg": p.stdout[-300:]}
    if p.returncode == 2 and "fatal error" in p.stderr or "goroutine stack exceeds" in p.stderr or p.returncode < 0:
        first = [l for l in p.stderr.splitlines() if l.startswith("fatal error") or l.startswith("runtime:")]
        return {"id": rec["id"], "outcome": "crash", "ms": 0, "msg": " | ".join(first[:3]) or ("signal %d" % -p.returncode)}
    raise MachineryError("hostile driver exit %d: %s" % (p.returncode, p.stderr[-400:]))


def reader_inputs(rnd, thorough):
    out = []
    N = 1000000 if thorough else 300000
    for op, cl in [("(", ")"), ("[", "]"), ("'(", ")"), ("#^(", ")"), ("(quote ", ")"), ("(a ", " b)"), ("{", "}")]:
        out.append(("nest %s" % op.strip(), {"gen": {"kind": "nest", "open": op, "close": cl, "n": N, "core": "x"}}))
        out.append(("nest-open %s" % op.strip(), {"gen": {"kind": "nest", "open": op, "close": "", "n": N, "core": ""}}))
    for unit in ["'", "#^", "#'", ")", "]", "\"", "\\", ";", "#!", "-", ".", "1e", "0x", "#", ":", "::", "a:", "\"\\", "#^'", "'#^"]:
        out.append(("repeat %r" % unit, {"gen": {"kind": "repeat", "unit": unit, "n": N, "tail": "x"}}))
    for unit, tail in [("9", ""), ("9", ".5"), ("a", ""), ("\\n", "\""), ("\\", "\"")]:
        out.append(("atom %r" % unit, {"gen": {"kind": "repeat", "unit": unit, "n": N, "tail": tail}}))
    out.append(("long string", {"src": "\"" + "ab\\t" * 200000 + "\""}))
    out.append(("long raw string", {"src": "\"\"\"" + "a\"b" * 200000 + "\"\"\""}))
    # every byte and (thorough: every / quick: sampled) byte pair, alone and inside a list / a string
    singles = [bytes([b]) for b in range(256)]
    pairs = [bytes([a, b]) for a in range(256) for b in range(256)]
    if not thorough:
        pairs = rnd.sample(pairs, 6000)
    blob = []
    for s in singles + pairs:
        blob += [s, b"(" + s + b")", b"\"" + s + b"\"", b"(a " + s]
    # concatenating them would let one error hide the rest: they are sent in chunks of separate records
    for i, s in enumerate(blob):
        out.append(("bytes", {"b64": base64.b64encode(s).decode()}))
    for i in range(3000 if thorough else 600):
        n = rnd.choice([1, 2, 3, 5, 8, 13, 40, 200])
        alphabet = rnd.choice([bytes(range(256)), b"()[]'\"\\;#^:.-+0123456789eExabn \n\t\xff\xc3\xa9{}"])
        out.append(("random", {"b64": base64.b64encode(bytes(rnd.choice(alphabet) for _ in range(n))).decode()}))
    for s in [b"\xc3", b"\xe2\x80", b"\xf0\x9f\x98", b"\"\xc3", b"(a \xe2\x80)", b"\xed\xa0\x80", b"\xf4\x90\x80\x80", b"\xef\xbb\xbf(a)", b"a\x00b", b"\"\x00\""]:
        out.append(("utf8", {"b64": base64.b64encode(s).decode()}))
    return out


def run(tier):
    V = Verdict("C03", tier)
    work = Work("C03")
    try:
        return _run(V, work, tier)
    finally:
        work.close()


def _run(V, work, tier):
    thorough = tier == "thorough"
    rnd = random.Random(seed())
    binary = build_driver()
    recipes = []

    def sink(rec):
        recipes.append(rec)
    res = run_tlc(work, "Host", "SPECIFICATION Spec\nCONSTANTS MODE = \"gen\"\n SLACK = %d\nCHECK_DEADLOCK FALSE\n" % SLACK, timeout=600, line_sink=sink)
    V.tlc(res, "Host (gen): %d recipes" % len(recipes))
    if len(recipes) < 800:
        raise MachineryError("Host.tla enumerated only %d recipes" % len(recipes))
    # ---- 1. hostile programs, one process each -----------------------------------------------------------------
    trace = []
    jobs = []
    for i, r in enumerate(recipes):
        # (the nested-argument recursions are bounded by the frame and nesting limits, not by steps: they get room to reach them)
        steps = 30000000 if r["what"] in ("rec-nested-args", "rec-nested-let") or r["kind"] == "sweep" else 1000000
        jobs.append((r, {"id": i, "src": render(r), "maxsteps": steps, "deadline_ms": DEADLINE, "wedge_ms": 60000}))
    with concurrent.futures.ThreadPoolExecutor(max_workers=14) as ex:
        results = list(ex.map(lambda j: hostile_one(binary, j[1]), jobs))
    counts = {}
    for (r, rec), o in zip(jobs, results):
        name = "%s/%s/%s/%s" % (r["kind"], r["what"], r["shape"], r["entry"])
        if o["outcome"] == "wedge":
            # no answer within a minute next to thirteen other processes: asked again, alone, with four minutes (a program
            # that needs most of a minute on an idle machine - the ring comparison of the known finding - runs out of its
            # minute on a loaded one; what counts is what it does, not how long the machine took)
            o2 = hostile_one(binary, dict(rec, wedge_ms=240000), timeout=400)
            V.notes.append("%s did not answer within 60 s under load; alone, with 240 s: %s" % (name, o2["outcome"]))
            o = o2
        counts[o["outcome"]] = counts.get(o["outcome"], 0) + 1
        ok = o["outcome"] in r["allowed"]
        late = o["ms"] > DEADLINE + SLACK
        if ok and late:
            # (a wall clock under fourteen parallel processes: late counts only if the program is late again when run alone)
            for _ in range(2):
                o2 = hostile_one(binary, rec)
                if o2["outcome"] in r["allowed"] and o2["ms"] <= DEADLINE + SLACK:
                    V.notes.append("%s came back after %d ms under load and after %d ms alone: not a verdict" % (name, o["ms"], o2["ms"]))
                    o, late = o2, False
                    break
        if not ok:
            V.add(("outcome:%s:%s/%s" % (o["outcome"], r["what"], r["shape"])) if o["outcome"] in ("crash", "wedge") else None,
                  "hostile program %s answered %s (allowed: %s): %s" % (name, o["outcome"], "/".join(r["allowed"]), (o.get("msg") or "")[:200]),
                  {"recipe": r, "src": rec["src"], "result": o})
        elif late:
            V.add("late:%s/%s" % (r["what"], r["shape"]), "hostile program %s came back after %d ms (deadline %d ms + %d ms slack)" % (name, o["ms"], DEADLINE, SLACK),
                  {"recipe": r, "src": rec["src"], "result": o})
        else:
            trace.append({"ev": "recipe", "kind": r["kind"], "what": r["what"], "shape": r["shape"], "entry": r["entry"], "outcome": o["outcome"], "ms": int(o["ms"]), "deadline": DEADLINE})
    V.coverage["hostile_programs"] = len(jobs)
    V.coverage["hostile_outcomes"] = counts
    if counts.get("value", 0) < 20 or counts.get("error", 0) < 100:
        raise MachineryError("hostile programs are not reaching their targets: %r" % counts)
    # ---- 2. known findings reproduced (thorough: they cost seconds to minutes and gigabytes) -------------------------------
    probes = [("deep-data-walk", "(set 'hz-v ()) (dotimes (i 1000000) (set 'hz-v (list hz-v))) (length (format-string \"{}\" hz-v))", 15000000, 60000,
               "a list nested 1,000,000 deep (built in about 7M steps) rendered by format-string"),
              ("dag-walk", "(set 'hz-v 1) (dotimes (i 25) (set 'hz-v (list hz-v hz-v))) (length (format-string \"{}\" hz-v))", 1000000, 500,
               "a DAG of depth 25 (150 steps to build, 2^25 leaves when walked as a tree) rendered by format-string with a 500 ms deadline"),
              ("deep-cyclic-walk", "(set 'hz-v (vector)) (dotimes (i 10000) (set 'hz-v (vector hz-v))) (append! hz-v hz-v) (length (format-string \"{}\" hz-v))", 1000000, 1000,
               "a vector nested 10,000 deep whose outermost level also contains itself (70k steps to build) rendered by format-string with a 1 s deadline")]
    if thorough:
        for key, src, steps, deadline, what in probes:
            o = hostile_one(binary, {"id": key, "src": src, "maxsteps": steps, "deadline_ms": deadline, "wedge_ms": 120000}, timeout=400)
            if o["outcome"] in ("crash", "wedge"):
                V.add("outcome:%s:%s" % (o["outcome"], key), "%s: the process %s (%s)" % (what, "died" if o["outcome"] == "crash" else "did not answer", o.get("msg", "")[:160]), {"src": src, "maxsteps": steps, "result": o})
            elif o["ms"] > deadline + SLACK:
                V.add("late:%s" % key, "%s came back after %d ms" % (what, o["ms"]), {"src": src, "maxsteps": steps, "deadline_ms": deadline, "result": o})
            V.sample({"probe": key, "outcome": o["outcome"], "ms": o["ms"]})
    # ---- 3. reading alone, no limits ---------------------------------------------------------------------------
    rin = reader_inputs(rnd, thorough)
    big = [(n, r) for n, r in rin if "gen" in r or len(r.get("src", "")) > 10000]
    small = [(n, r) for n, r in rin if not ("gen" in r or len(r.get("src", "")) > 10000)]
    for i, (n, r) in enumerate(big):
        r.update({"id": "big%d" % i, "reader_only": True, "wedge_ms": 120000})
    with concurrent.futures.ThreadPoolExecutor(max_workers=8) as ex:
        bres = list(ex.map(lambda j: hostile_one(binary, j[1], timeout=300), big))
    for (n, r), o in zip(big, bres):
        if o["outcome"] not in ("value", "error"):
            V.add(None, "reading %s (%s x %d): %s %s" % (n, r.get("gen", {}).get("unit") or r.get("gen", {}).get("open"), r.get("gen", {}).get("n", 0), o["outcome"], o.get("msg", "")[:200]), {"input": r, "result": o})
        else:
            trace.append({"ev": "read", "outcome": o["outcome"], "ms": int(o["ms"])})
    for i, (n, r) in enumerate(small):
        r.update({"id": i, "reader_only": True})
    nread = 0
    chunks = [small[i::12] for i in range(12)]

    def read_chunk(ch):
        p = subprocess.run([binary, "hostile"], input="".join(json.dumps(r) + "\n" for _, r in ch), capture_output=True, text=True, env=goenv(), timeout=1200)
        outs = [json.loads(l) for l in p.stdout.splitlines() if l.strip()]
        return p.returncode, outs, p.stderr[-300:]
    with concurrent.futures.ThreadPoolExecutor(max_workers=12) as ex:
        cres = list(ex.map(read_chunk, chunks))
    slow = []
    for ch, (rc, outs, err) in zip(chunks, cres):
        if rc != 0 or len(outs) != len(ch):
            # the process died part-way: the record after the last answer is the culprit
            culprit = ch[len(outs)][1] if len(outs) < len(ch) else None
            V.add(None, "the readers killed the process (exit %d) on %r: %s" % (rc, culprit and base64.b64decode(culprit.get("b64", "")), err), {"input": culprit})
            continue
        for (n, r), o in zip(ch, outs):
            nread += 1
            if o["outcome"] not in ("value", "error"):
                V.add(None, "reading %r: %s %s" % (base64.b64decode(r.get("b64", "")), o["outcome"], json.dumps(o.get("readers"))[:300]), {"input": r, "result": o})
            elif o["ms"] > 2000:
                slow.append((r, o))
    # a slow reading is a verdict only if it is slow AGAIN, alone, three times in a row: twelve reader processes next to
    # other checks stall for seconds on a two-byte input (seen with the machine under load), and a wall clock cannot tell
    for r, o in slow:
        again = []
        for _ in range(3):
            p = subprocess.run([binary, "hostile"], input=json.dumps(r) + "\n", capture_output=True, text=True, env=goenv(), timeout=1200)
            outs = [json.loads(l) for l in p.stdout.splitlines() if l.strip()]
            again.append(outs[0]["ms"] if p.returncode == 0 and outs else 10 ** 9)
        if min(again) > 2000:
            V.add(None, "reading %r took %d ms (and %s ms when read again alone)" % (base64.b64decode(r.get("b64", ""))[:40], o["ms"], again), {"input": r, "result": o})
        else:
            V.notes.append("a reading of %d ms under load was %s ms when repeated alone: not a verdict" % (o["ms"], again))
    trace.append({"ev": "read", "outcome": "value", "ms": 0})
    V.coverage["reader_inputs"] = len(big) + nread
    # ---- 4. the builtin matrix ---------------------------------------------------------------------------------
    shards = 14
    triples = 400000 if thorough else 1500
    quads = 0 if thorough else 25000        # small pool in every position: exhaustive (thorough) or sampled

    def matrix(i):
        rec = {"id": i, "shard": i, "shards": shards, "pool": "full", "triples": triples, "quads": quads, "seed": seed() * 100 + i}
        p = subprocess.run([binary, "matrix"], input=json.dumps(rec) + "\n", capture_output=True, text=True, env=goenv(), timeout=3400)
        return p.returncode, [json.loads(l) for l in p.stdout.splitlines() if l.strip()], p.stderr
    with concurrent.futures.ThreadPoolExecutor(max_workers=shards) as ex:
        mres = list(ex.map(matrix, range(shards)))
    calls = values = 0
    ncallables = 0
    for i, (rc, outs, err) in enumerate(mres):
        if rc == 3:
            V.add(None, "a builtin application did not come back within 20 s: %s" % outs[-1].get("wedge"), {"shard": i, "call": outs[-1]})
            continue
        if rc != 0:
            # the process died: rerun the shard verbosely to name the call
            rec = {"id": i, "shard": i, "shards": shards, "pool": "full", "triples": triples, "quads": quads, "seed": seed() * 100 + i, "verbose": True}
            p = subprocess.run([binary, "matrix"], input=json.dumps(rec) + "\n", capture_output=True, text=True, env=goenv(), timeout=3400)
            last = [l for l in p.stderr.splitlines() if l.startswith("(")]
            fatal = [l for l in p.stderr.splitlines() if l.startswith("fatal error")]
            V.add(None, "a builtin application killed the process (%s): %s" % (" ".join(fatal[:1]), last[-1] if last else "?"), {"shard": i, "call": last[-1] if last else None})
            continue
        for o in outs:
            ncallables += 1
            calls += o["calls"]
            values += o["values"]
            for b in o["bad"] or []:
                V.add(None, "(%s %s) [%s] answered %s: %s" % (o["name"], " ".join(b["args"]), b["mode"], b["what"], b["msg"].splitlines()[0][:200]), {"callable": o["name"], "call": b})
            if not o["bad"] and o["calls"] > 0:
                trace.append({"ev": "calls", "name": o["name"], "calls": o["calls"], "values": o["values"], "errors": o["errors"], "bad": 0})
    V.coverage["callables"] = ncallables
    V.coverage["builtin_applications"] = calls
    V.coverage["builtin_applications_answered_with_a_value"] = values
    if ncallables < 200 or values < 10000:
        raise MachineryError("the matrix is not reaching the builtins: %d callables, %d values of %d calls" % (ncallables, values, calls))
    # ---- 5. the recorded outcomes against Host.tla ----------------------------------------------------------------
    text = "".join(json.dumps(t, separators=(",", ":")) + "\n" for t in trace)
    cfg = "SPECIFICATION Spec\nCONSTANTS MODE = \"trace\"\n SLACK = %d\nCHECK_DEADLOCK FALSE\nPOSTCONDITION Accepted\n" % SLACK
    res2 = run_tlc(work, "Host", cfg, files={"hosttrace.ndjson": text}, timeout=900, workers=1)
    V.tlc(res2, "Host (trace): %d outcome records validated" % len(trace))
    if res2.violated or res2.error:
        raise MachineryError("Host.tla rejected a record the harness had accepted: %s" % (res2.error or res2.raw[-400:]))
    # self-test: a record with a forbidden outcome must be rejected
    bad = dict(trace[0], outcome="internal-panic")
    res3 = run_tlc(work, "Host", cfg, files={"hosttrace.ndjson": json.dumps(bad) + "\n" + text}, timeout=900, workers=1)
    if not (res3.violated or res3.error):
        raise MachineryError("Host.tla accepted a trace with an internal-panic outcome")
    V.notes.append("self-test: Host.tla rejected the trace once its first record was given the outcome internal-panic")
    V.sample({"recipe": recipes[0], "src": render(recipes[0])[:300], "outcome": results[0]["outcome"]})
    V.coverage["traces_validated_against_impl"] = len(trace)
    V.coverage["exhaustive"] = False
    V.coverage["explanation"] = ("%d hostile programs (every vehicle x entry, sink x shape x entry of Host.tla), %d reader inputs, %d builtin applications over %d callables; "
                               "each outcome record validated against Host.tla" % (len(jobs), len(big) + nread, calls, ncallables))
    V.assumptions.append("limits used: 1,000,000 steps, default stack / nesting / macro-expansion limits, 5 ms sleep ceiling, 5 s context deadline; the matrix uses 100,000 steps and a 500-frame stack")
    V.assumptions.append("self-containing LISTS are not generated: no mutator reachable from lisp builds one")
    return V.finish()
